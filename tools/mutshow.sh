#!/bin/bash
# Development aid: show the mutant's diff and the checker's verdict lines. usage: tools/mutshow.sh <file-base> <n> [props]
f=$1; n=$2; shift 2
w=$(mktemp -d /tmp/mutshow.XXXXXX); mkdir -p $w/repo $w/verif
(cd /repo && git ls-files -z | xargs -0 cp --parents -t $w/repo); cp /verif/known_findings.json $w/verif/
cp /tmp/mut/$f/$n.go $w/repo/$f.go
diff /repo/$f.go $w/repo/$f.go
CBGP_REPO=$w/repo CBGP_VERIF=$w/verif ${DBG:+CBGP_DEBUG=1} /verif/bin/cbgpcheck check ${@:-all} 2>&1 | grep -E "violated|undecided|DEBUG" | grep -v ' 0 violated, 0 undecided' | cut -c1-${W:-300}
rm -rf $w
