#!/bin/bash
# Development aid: run the checker against behaviour-preserving refactorings
# (patch files given as arguments, or all under /verif/benign/*/patch.diff);
# every alarm is a false alarm to be investigated.
cd /verif
pats="$@"
[ -z "$pats" ] && pats=$(ls benign/*/patch.diff)
for pf in $pats; do pf=$(cd /verif && realpath $pf)
  w=$(mktemp -d /tmp/reftest.XXXXXX)
  mkdir -p $w/repo $w/verif
  (cd /repo && git ls-files -z | xargs -0 cp --parents -t $w/repo)
  cp /verif/known_findings.json $w/verif/
  if ! (cd $w/repo && patch -p1 -s < $pf); then echo "$pf: PATCH-FAILED"; rm -rf $w; continue; fi
  out=$(CBGP_REPO=$w/repo CBGP_VERIF=$w/verif ${BIN:-/verif/bin/cbgpcheck} check all 2>&1)
  fired=$(echo "$out" | grep -o 'VIOLATION property=C[0-9]*' | sed 's/VIOLATION property=//' | tr '\n' ' ')
  if [ -z "$fired" ]; then echo "$pf: silent"; else echo "$pf: ALARM [$fired]"; echo "$out" | grep -E "^  (violated|undecided)" | cut -c1-${W:-260}; fi
  rm -rf $w
done
