#!/bin/bash
# Development aid: apply an ad-hoc edit (python snippet on stdin that edits files under $R) to a scratch copy and run the checker.
# usage: PROPS="C05 C06" tools/adhoc.sh <<'PY' ... PY
set -u
w=$(mktemp -d /tmp/adhoc.XXXXXX)
mkdir -p $w/repo $w/verif
(cd /repo && git ls-files -z | xargs -0 cp --parents -t $w/repo)
cp /verif/known_findings.json $w/verif/
R=$w/repo python3 - || { echo "edit failed"; rm -rf $w; exit 2; }
(cd $w/repo && GOFLAGS=-mod=mod GOPROXY=off GOSUMDB=off GOTOOLCHAIN=local go build ./... 2>&1 | head -5)
CBGP_REPO=$w/repo CBGP_VERIF=$w/verif ${BIN:-/verif/bin/cbgpcheck} check ${PROPS:-all} 2>&1 | grep -E "^  (violated|undecided)|^VIOLATION" | cut -c1-${W:-260}
rm -rf $w
