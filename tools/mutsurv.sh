#!/bin/bash
# Development aid: re-run the surviving mutants of the last recorded campaign for the given file bases.
# usage: tools/mutsurv.sh <results-file> <file-base>...
res=$1; shift
for f in "$@"; do grep -E "^$f/[0-9]+ (SURVIVOR|tests) " $res | cut -d' ' -f1 | tr '/' ' '; done | xargs -P 12 -n 2 /verif/tools/mutrun.sh | sort
