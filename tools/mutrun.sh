#!/bin/bash
# Development aid (not a registered check): run one generated mutant (tools/mutgen)
# through build, checker and -- only if the checker is silent -- the test suite.
# usage: tools/mutrun.sh <file-base> <mutant-number>   (mutants under /tmp/mut/<file-base>/)
export GOFLAGS=-mod=mod GOPROXY=off GOSUMDB=off GOTOOLCHAIN=local
f=$1; n=$2
desc=$(cat /tmp/mut/$f/$n.txt)
w=$(mktemp -d /tmp/mutrun.XXXXXX)
mkdir -p $w/repo $w/verif
(cd /repo && git ls-files -z | xargs -0 cp --parents -t $w/repo)
cp /verif/known_findings.json $w/verif/
cp /tmp/mut/$f/$n.go $w/repo/$f.go
cd $w/repo
if ! go build ./... >/dev/null 2>&1; then echo "$f/$n nocompile $desc"; cd /; rm -rf $w; exit 0; fi
if [ -z "$SKIPVET" ] && ! go vet . >/dev/null 2>&1; then echo "$f/$n novet $desc"; cd /; rm -rf $w; exit 0; fi
out=$(CBGP_REPO=$w/repo CBGP_VERIF=$w/verif ${BIN:-/verif/bin/cbgpcheck} check all 2>&1)
fired=$(echo "$out" | grep -o 'VIOLATION property=C[0-9]*' | sed 's/VIOLATION property=//' | tr '\n' ',')
if [ -n "$fired" ]; then echo "$f/$n checker[$fired] $desc"; cd /; rm -rf $w; exit 0; fi
if [ -n "$SKIPTESTS" ]; then echo "$f/$n UNKILLED $desc"; elif timeout 300 go test -vet=off -count=1 ./... >/dev/null 2>&1; then echo "$f/$n SURVIVOR $desc"; else echo "$f/$n tests $desc"; fi
cd /; rm -rf $w
