// mutgen: development aid (not a registered check). Generates single-edit
// mutants of one Go source file by byte-offset edits and writes each to
// <outdir>/<n>.go with a one-line description in <outdir>/<n>.txt.
//
//	usage: mutgen <file.go> <outdir>
package main

import (
	"fmt"
	"go/ast"
	"go/parser"
	"go/token"
	"os"
	"path/filepath"
	"strconv"
)

type edit struct {
	lo, hi int
	repl   string
	desc   string
}

func main() {
	src, err := os.ReadFile(os.Args[1])
	if err != nil {
		panic(err)
	}
	fset := token.NewFileSet()
	f, err := parser.ParseFile(fset, os.Args[1], src, parser.ParseComments)
	if err != nil {
		panic(err)
	}
	off := func(p token.Pos) int { return fset.Position(p).Offset }
	line := func(p token.Pos) int { return fset.Position(p).Line }
	var edits []edit
	add := func(lo, hi token.Pos, repl, desc string) {
		edits = append(edits, edit{off(lo), off(hi), repl, fmt.Sprintf("%s:%d %s", filepath.Base(os.Args[1]), line(lo), desc)})
	}
	text := func(lo, hi token.Pos) string { return string(src[off(lo):off(hi)]) }
	relSwap := map[token.Token][]string{
		token.LSS: {"<=", ">="}, token.LEQ: {"<", "=="}, token.GTR: {">=", "<="}, token.GEQ: {">", "=="},
		token.EQL: {"!="}, token.NEQ: {"=="}, token.LAND: {"||"}, token.LOR: {"&&"},
		token.ADD: {"-"}, token.SUB: {"+"}, token.SHL: {">>"}, token.SHR: {"<<"}, token.AND: {"|"}, token.OR: {"&"},
	}
	var fnName string
	ast.Inspect(f, func(n ast.Node) bool {
		switch x := n.(type) {
		case *ast.FuncDecl:
			fnName = x.Name.Name
		case *ast.IfStmt:
			add(x.Cond.Pos(), x.Cond.End(), "!("+text(x.Cond.Pos(), x.Cond.End())+")", fnName+": negate if condition")
			add(x.Cond.Pos(), x.Cond.End(), "true", fnName+": if condition -> true")
			add(x.Cond.Pos(), x.Cond.End(), "false", fnName+": if condition -> false")
		case *ast.ForStmt:
			if x.Cond != nil {
				add(x.Cond.Pos(), x.Cond.End(), "false", fnName+": loop condition -> false")
			}
		case *ast.BinaryExpr:
			for _, r := range relSwap[x.Op] {
				add(x.OpPos, x.OpPos+token.Pos(len(x.Op.String())), r, fmt.Sprintf("%s: %s -> %s in %s", fnName, x.Op, r, trunc(text(x.Pos(), x.End()))))
			}
		case *ast.BasicLit:
			if x.Kind == token.INT {
				if v, err := strconv.ParseInt(x.Value, 0, 64); err == nil {
					add(x.Pos(), x.End(), strconv.FormatInt(v+1, 10), fmt.Sprintf("%s: literal %s -> %d", fnName, x.Value, v+1))
					if v > 0 {
						add(x.Pos(), x.End(), strconv.FormatInt(v-1, 10), fmt.Sprintf("%s: literal %s -> %d", fnName, x.Value, v-1))
					}
				}
			}
		case *ast.Ident:
			if x.Name == "true" {
				add(x.Pos(), x.End(), "false", fnName+": true -> false")
			} else if x.Name == "false" {
				add(x.Pos(), x.End(), "true", fnName+": false -> true")
			}
		case *ast.BranchStmt:
			if x.Label == nil {
				switch x.Tok {
				case token.BREAK:
					add(x.Pos(), x.End(), "continue", fnName+": break -> continue")
				case token.CONTINUE:
					add(x.Pos(), x.End(), "break", fnName+": continue -> break")
				}
			}
		case *ast.BlockStmt:
			for _, st := range x.List {
				switch s := st.(type) {
				case *ast.ExprStmt, *ast.IncDecStmt, *ast.SendStmt, *ast.GoStmt, *ast.DeferStmt:
					add(s.Pos(), s.End(), "", fnName+": remove statement "+trunc(text(s.Pos(), s.End())))
				case *ast.AssignStmt:
					if s.Tok != token.DEFINE {
						add(s.Pos(), s.End(), "", fnName+": remove assignment "+trunc(text(s.Pos(), s.End())))
					}
				case *ast.ReturnStmt:
					_ = s
				}
			}
		case *ast.CaseClause:
			for _, s := range x.Body {
				switch s.(type) {
				case *ast.ExprStmt, *ast.IncDecStmt, *ast.SendStmt, *ast.GoStmt, *ast.DeferStmt:
					add(s.Pos(), s.End(), "", fnName+": remove statement "+trunc(text(s.Pos(), s.End())))
				case *ast.AssignStmt:
					if s.(*ast.AssignStmt).Tok != token.DEFINE {
						add(s.Pos(), s.End(), "", fnName+": remove assignment "+trunc(text(s.Pos(), s.End())))
					}
				}
			}
		case *ast.CommClause:
			for _, s := range x.Body {
				switch s.(type) {
				case *ast.ExprStmt, *ast.IncDecStmt, *ast.SendStmt, *ast.GoStmt, *ast.DeferStmt:
					add(s.Pos(), s.End(), "", fnName+": remove statement "+trunc(text(s.Pos(), s.End())))
				case *ast.AssignStmt:
					if s.(*ast.AssignStmt).Tok != token.DEFINE {
						add(s.Pos(), s.End(), "", fnName+": remove assignment "+trunc(text(s.Pos(), s.End())))
					}
				}
			}
		}
		return true
	})
	os.MkdirAll(os.Args[2], 0o755)
	for i, e := range edits {
		out := append(append(append([]byte{}, src[:e.lo]...), []byte(e.repl)...), src[e.hi:]...)
		os.WriteFile(filepath.Join(os.Args[2], fmt.Sprintf("%04d.go", i)), out, 0o644)
		os.WriteFile(filepath.Join(os.Args[2], fmt.Sprintf("%04d.txt", i)), []byte(e.desc+"\n"), 0o644)
	}
	fmt.Println(len(edits), "mutants of", os.Args[1])
}

func trunc(s string) string {
	out := []rune{}
	for _, r := range s {
		if r == '\n' || r == '\t' {
			r = ' '
		}
		out = append(out, r)
	}
	if len(out) > 70 {
		out = append(out[:70], '…')
	}
	return string(out)
}
