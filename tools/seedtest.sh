#!/bin/bash
# Development aid (not a registered check): run the checker against every
# seeded change in /verif/seeded on a scratch copy of /repo and print which
# properties raise an alarm.   usage: tools/seedtest.sh [seed-id ...]
set -u
cd /verif
ids="$@"
[ -z "$ids" ] && ids=$(ls seeded)
props=${PROPS:-all}
for id in $ids; do
  w=$(mktemp -d /tmp/seedtest.XXXXXX)
  mkdir -p $w/repo $w/verif
  (cd /repo && git ls-files -z | xargs -0 cp --parents -t $w/repo)
  cp /verif/known_findings.json $w/verif/ 2>/dev/null
  if ! (cd $w/repo && patch -p1 -s < /verif/seeded/$id/patch.diff); then echo "$id: PATCH-FAILED"; rm -rf $w; continue; fi
  out=$(CBGP_REPO=$w/repo CBGP_VERIF=$w/verif ${BIN:-/verif/bin/cbgpcheck} check $props 2>&1)
  fired=$(echo "$out" | grep -o 'VIOLATION property=C[0-9]*' | sed 's/VIOLATION property=//' | tr '\n' ' ')
  own=$(python3 -c "import json;print(json.load(open(\"/verif/seeded/$id/meta.json\"))[\"property\"])")
  mark="MISSED"
  echo "$fired" | grep -q "$own" && mark="caught"
  [ -n "$fired" ] && [ "$mark" = MISSED ] && mark="other-only"
  echo "$id: $mark  [$fired]"
  if [ -n "${VERBOSE:-}" ]; then echo "$out" | grep -E "violated|undecided" | cut -c1-300; fi
  rm -rf $w
done
