#!/usr/bin/env python3
# Regenerates /verif/MANIFEST.json from the table below (kept next to the checker so
# the manifest never drifts from what the binary implements).
import json, subprocess, sys
CLAIMED = json.load(open('/verif/tools/claimed.json'))
props = [json.loads(l) for l in open('/verif/properties.jsonl')]
checks = []
na = []
for p in props:
    pid = p['id']
    if pid in CLAIMED:
        c = CLAIMED[pid]
        checks.append({
            "property_id": pid,
            "quick_cmd": "bin/cbgpcheck check %s --tier quick" % pid,
            "thorough_cmd": "bin/cbgpcheck check %s --tier thorough" % pid,
            "evidence_file": "/verif/evidence/%s.json" % pid,
            "replay_cmd_template": "cat {path}",
            "engine": "cbgpcheck",
            "level_claimed": {"category": "other", "text": c["text"], "design_ref": "DESIGN.md §4 " + pid},
            "level_note": c["note"],
            "technique": c["technique"],
        })
    else:
        na.append({"property_id": pid, "reason": NA.get(pid, "no sound static rule set implemented for this property in this checkout (see DESIGN.md §6)") if (NA:=json.load(open('/verif/tools/na.json'))) is not None else ""})
m = {
    "version": 1,
    "setup_cmd": "cd /verif/checker && GOFLAGS=-mod=vendor GOPROXY=off GOSUMDB=off GOTOOLCHAIN=local GOWORK=off go build -o /verif/bin/cbgpcheck .",
    "hooks": {"guard": "verif", "enable": "none needed: static analysis reads /repo's source; no instrumentation is compiled in", "baseline_off_cmd": "cd /repo && GOFLAGS=-mod=mod go build ./... && GOFLAGS=-mod=mod go test -vet=off -count=1 ./...", "source_commits": [], "add_only": True},
    "engines": [{"name": "cbgpcheck", "path": "/verif/checker", "serves_properties": sorted(CLAIMED.keys()),
                 "kind_free_text": "repository-specific static analyser over go/types + go/ssa: dominance/post-dominance and must-pass-through (engine O), goroutine ownership and locksets (G), table agreement of sibling code (T), branch-refined value-set abstract interpretation with flag partitioning and assumption mode (V), run-time-fault obligations (B)"}],
    "checks": checks,
    "not_applicable": na,
    "notes": "All checks are static analyses of /repo's current working tree (no code of the repository is executed, concretely or symbolically). Level 'other': each check decides structural necessary conditions of its property on all paths; DESIGN.md states per property which clauses are decided and which (timing, schedule-quantified, value-equality) clauses are not applicable to this technique family. Known findings: /verif/known_findings.json.",
}
json.dump(m, open('/verif/MANIFEST.json', 'w'), indent=1)
print("claimed", len(checks), "n/a", len(na))
