package main

// C14 — the OPEN corebgp sends reflects configuration and plugin capabilities.

import (
	"fmt"
	"go/token"
	"go/types"
	"strings"

	"golang.org/x/tools/go/ssa"
)

func init() { register("C14", checkC14) }

func checkC14(c *Check) {
	p := c.P
	c.configuredHoldTimeProvenance("C14.1 configured-hold-time")
	c.routerIDAccepted("C14.1 router-id-source")
	c.codecContracts("C14.1 codec-effects")
	c.capabilityCodec("C14.2 capability-codec")
	c.accumulatorsStartEmpty("C14.1 accumulators", "openMessage.encode", "capabilityOptionalParam.encode", "newOpenMessage")
	c.specConstants("C14.1 spec-constants", "openMessageType", "asTrans", "capabilityOptionalParamType", "CAP_FOUR_OCTET_AS", "headerLength")
	fn := p.Fn("newOpenMessage")
	if fn == nil || len(fn.Params) != 4 {
		c.undecided("C14.anchor", "newOpenMessage", "signature", "-", "expected (asn, holdTime, bgpID, caps)")
		return
	}
	asn, hold, id := paramExpr(fn, 0), paramExpr(fn, 1), paramExpr(fn, 2)
	asTrans := p.MustConst("asTrans")
	for _, big := range []bool{false, true} {
		a := NewAnalysis(p, fn)
		set := isRange(0, 65535)
		if big {
			set = isRange(65536, (1<<32)-1)
		}
		a.AtomHook = rangeHook(func(e *Expr) bool { return e.Key == asn.Key }, set)
		a.Run()
		name := fmt.Sprintf("local AS > 65535: %v", big)
		n := 0
		for _, r := range a.Returns {
			if r.Results[0].Op != "alloc" {
				continue
			}
			n++
			st := r.State
			o := r.Results[0]
			get := func(f string) *Expr { return p.loadField(st, o, "openMessage", f) }
			var probs []string
			if v, ok := get("version").IsConst(); !ok || v != 4 {
				probs = append(probs, "version must be 4")
			}
			av := get("asn")
			if big {
				if v, ok := av.IsConst(); !ok || v != asTrans {
					probs = append(probs, "2-octet AS field must be AS_TRANS (23456)")
				}
			} else {
				x := av
				if x.Op == "conv" {
					x = x.Args[0]
				}
				if x.Key != asn.Key {
					probs = append(probs, "2-octet AS field must be the local AS")
				}
			}
			if get("bgpID").Key != id.Key {
				probs = append(probs, "BGP identifier must be the bgpID argument")
			}
			hv := get("holdTime")
			okH := hv.Op == "conv" && isCallNamed(hv.Args[0], "time.Duration.Seconds") && isCallNamed(hv.Args[0].Args[0], "time.Duration.Truncate") &&
				hv.Args[0].Args[0].Args[0].Key == hold.Key
			if okH {
				sv, isC := hv.Args[0].Args[0].Args[1].IsConst()
				okH = isC && sv == 1000000000
			}
			if !okH {
				probs = append(probs, "hold time field must be the configured duration in whole seconds; got "+trunc(hv.Key, 80))
			}
			if r.Results[1].Op != "nil" {
				probs = append(probs, "error must be nil")
			}
			c.require(len(probs) == 0, "C14.1 open-fields", "newOpenMessage", name, p.InstrPos(r.Instr), strings.Join(probs, "; "))
		}
		c.floor("C14.1 open-fields", n, 1, "returns of newOpenMessage ("+name+")")
	}
	// capability list: 4-octet-AS capability of the full AS first, then the
	// plugin's capabilities in order, minus code 65
	apps := p.callsIn(fn, descIs("builtin:append"))
	okCaps := len(apps) == 2
	if okCaps {
		var pre, inl ssa.CallInstruction
		for _, ap := range apps {
			if inLoop(ap.Block()) {
				inl = ap
			} else {
				pre = ap
			}
		}
		okCaps = pre != nil && inl != nil && instrDominates(pre.(ssa.Instruction), inl.(ssa.Instruction))
		if okCaps {
			// the loop append is guarded by Code != 65 and nothing else
			b := inl.Block()
			okCaps = len(b.Preds) == 1
			if okCaps {
				iff, isIf := b.Preds[0].Instrs[len(b.Preds[0].Instrs)-1].(*ssa.If)
				okCaps = isIf
				if isIf {
					bo, isB := iff.Cond.(*ssa.BinOp)
					// reached exactly on the "Code != 65" outcome of the test
					okCaps = isB && ((bo.Op == token.NEQ && b.Preds[0].Succs[0] == b) || (bo.Op == token.EQL && b.Preds[0].Succs[1] == b))
					if okCaps {
						cst, isC := bo.Y.(*ssa.Const)
						okCaps = isC && cst.Value != nil && cst.Int64() == p.MustConst("CAP_FOUR_OCTET_AS")
					}
				}
			}
		}
		if okCaps {
			first := false
			for _, cl := range p.callsIn(fn, descIs("newFourOctetASCap")) {
				if instrDominates(cl.(ssa.Instruction), pre.(ssa.Instruction)) && p.origin(cl.Common().Args[0]) == ssa.Value(fn.Params[0]) {
					first = true
				}
			}
			okCaps = okCaps && first
		}
	}
	c.require(okCaps, "C14.1 capability-list", "newOpenMessage", "implicit capability then filtered plugin capabilities", p.Pos(fn.Pos()),
		"allCaps = [4-octet-AS capability of the full local AS] ++ [plugin capabilities in order whose Code != 65]")
	if fc := p.Fn("newFourOctetASCap"); fc != nil {
		a := NewAnalysis(p, fc)
		a.Run()
		ok := false
		for _, r := range a.Returns {
			e := r.Results[0]
			if e.Op == "struct" {
				code := mkField(e, "Code", 0, nil)
				val := mkField(e, "Value", 1, nil)
				cv, isC := code.IsConst()
				root, _, _ := sliceParts(val)
				if isC && cv == p.MustConst("CAP_FOUR_OCTET_AS") && root.Op == "arr" && root.C == 4 {
					for k, v := range r.State.mem {
						if me := r.State.memE[k]; me != nil && me.Op == "bea" && me.S == "be32" && me.Args[0].Key == root.Key && isParamNamed(v, paramName(fc, 0)) {
							ok = true
						}
					}
				}
			}
		}
		c.require(ok, "C14.1 capability-list", "newFourOctetASCap", "code 65, 4-octet big-endian AS", p.Pos(fc.Pos()), "Capability{Code: 65, Value: be32(asn)}")
	}
	// argument provenance at the call site
	so := p.Fn("fsm.sendOpenAndSetHoldTimer")
	if so != nil {
		a := NewAnalysis(p, so)
		a.Run()
		calls := p.callsIn(so, descIs("newOpenMessage"))
		c.floor("C14.1 open-arguments", len(calls), 1, "newOpenMessage call sites")
		for _, cl := range calls {
			for _, args := range a.callArgsAt(cl) {
				ok := len(args) == 4 && isLoadOfField(args[0], "LocalAS") && isLoadOfField(args[1], "holdTime") && args[1].Args[0].Aux == "peerOptions" &&
					isLoadOfField(args[2], "id") && args[3].Op == "rcall" && args[3].S == "invoke:Plugin.GetCapabilities"
				c.require(ok, "C14.1 open-arguments", "fsm.sendOpenAndSetHoldTimer", "newOpenMessage arguments", p.InstrPos(cl.(ssa.Instruction)),
					"newOpenMessage(config.LocalAS, options.holdTime (the configured value), peer.id, GetCapabilities(config))")
			}
		}
		c.oneOpenPerConnection("C14.3 one-open-per-connection")
		c.openAbortOnError("C14.3 abort-on-error")
	}
	// router id provenance
	if ns := p.Fn("NewServer"); ns != nil {
		a := NewAnalysis(p, ns)
		a.Run()
		ok := false
		for _, r := range a.Returns {
			if r.Results[0].Op == "alloc" {
				v := p.loadField(r.State, r.Results[0], "Server", "id")
				if isCallNamed(v, "be32") {
					off, isC := v.Args[1].IsConst()
					src := v.Args[0]
					switch {
					case isCallNamed(src, "netip.Addr.AsSlice") && isC && off == 0:
						ok = true
					case src.Op == "arr" && src.C == 4 && isC && off == 0:
						// a local [4]byte holding routerID.As4()
						if whole, has := r.State.mem[src.Args[0].Key]; has && isCallNamed(whole, "netip.Addr.As4") {
							ok = true
						}
					}
				}
			}
		}
		c.require(ok, "C14.1 router-id", "NewServer", "Server.id", p.Pos(ns.Pos()), "Server.id is the big-endian uint32 of the IPv4 router id")
	}
	if ap := p.Fn("Server.AddPeer"); ap != nil {
		a := NewAnalysis(p, ap)
		a.Run()
		for _, cl := range p.callsIn(ap, descIs("newPeer")) {
			for _, args := range a.callArgsAt(cl) {
				c.require(len(args) == 4 && isLoadOfField(args[1], "id") && args[1].Args[0].Aux == "Server", "C14.1 router-id", "Server.AddPeer", "newPeer id argument", p.InstrPos(cl.(ssa.Instruction)), "every peer carries the server's router id")
			}
		}
	}
	// C14.2 length octets: narrowing of a length to uint8 must be bounded
	c.lengthOctets("C14.2 length-octets")
	// layout agreement of the OPEN encoder
	c.openEncodeLayout("C14.1 open-layout")
}

// lengthOctets: every uint8(len(x)) that becomes a wire length octet is
// dominated by a bound len(x) <= 255 (possibly in its callers).
func (c *Check) lengthOctets(rule string) {
	p := c.P
	cache := map[*ssa.Function]*Analysis{}
	n := 0
	for _, fnn := range []string{"openMessage.encode", "capabilityOptionalParam.encode", "Capability.encode"} {
		fn := p.Fn(fnn)
		if fn == nil {
			continue
		}
		a := NewAnalysis(p, fn)
		a.Run()
		allInstrs(fn, func(in ssa.Instruction) {
			cv, ok := in.(*ssa.Convert)
			if !ok {
				return
			}
			ti := intTypeInfo(cv.Type())
			fi := intTypeInfo(cv.X.Type())
			if !ti.ok || !fi.ok || ti.bits >= fi.bits {
				return
			}
			if _, isC := cv.X.(*ssa.Const); isC {
				return
			}
			n++
			okAll := len(a.At[in]) > 0
			detail := ""
			for _, st := range a.At[in] {
				x := a.exprOf(st, nil, cv.X)
				r := st.rangeOf(x)
				if !r.SubsetOf(typeRange(cv.Type())) {
					okAll = false
					detail = fmt.Sprintf("%s ∈ %s is truncated to %s", trunc(x.Key, 60), r, cv.Type())
				}
			}
			if !okAll && fnn == "Capability.encode" {
				// bounded at its call sites?
				okAll, detail = c.capabilityEncodeCallers(cache)
			}
			c.require(okAll, rule, fnn, "narrowing "+descValue(cv.X)+" to "+types.TypeString(cv.Type(), nil), p.InstrPos(in),
				"a length that becomes a wire length octet fits its field at this point; "+detail)
		})
	}
	c.floor(rule, n, 3, "narrowing conversions of lengths in the encoders")
}

// capabilityEncodeCallers: at every call of Capability.encode the value's
// length is known to be <= 255.
func (c *Check) capabilityEncodeCallers(cache map[*ssa.Function]*Analysis) (bool, string) {
	p := c.P
	ok := true
	detail := "bounded at every call site"
	n := 0
	for _, fn := range p.FuncSeq {
		calls := p.callsIn(fn, descIs("Capability.encode"))
		if len(calls) == 0 {
			continue
		}
		a := NewAnalysis(p, fn)
		a.Run()
		for _, cl := range calls {
			for _, st := range a.At[cl.(ssa.Instruction)] {
				n++
				args := a.argExprs(st, nil, cl.Common())
				v := mkField(args[0], "Value", 1, nil)
				r := st.rangeOf(mkLen(v))
				if !r.SubsetOf(isRange(0, 255)) {
					// the guard may have been evaluated on a load of the same field
					alt := false
					for k, rr := range st.rng {
						if strings.HasPrefix(k, "len(") && strings.Contains(k, "Value") && rr.SubsetOf(isRange(0, 255)) {
							alt = true
						}
					}
					// or the value was built locally with a constant size
					root, _, _ := sliceParts(v)
					if root != nil && root.Op == "arr" && root.C <= 255 {
						alt = true
					}
					if !alt {
						ok = false
						detail = fmt.Sprintf("at %s len(Value) ∈ %s is not bounded by 255 before Capability.encode", p.InstrPos(cl.(ssa.Instruction)), r)
					}
				}
			}
		}
	}
	if n == 0 {
		return false, "no call site found"
	}
	return ok, detail
}

// openEncodeLayout: the OPEN encoder writes the fields at the offsets the
// decoder reads them from.
func (c *Check) openEncodeLayout(rule string) {
	p := c.P
	fn := p.Fn("openMessage.encode")
	if fn == nil {
		return
	}
	a := NewAnalysis(p, fn)
	a.Run()
	n := 0
	for _, r := range a.Returns {
		res := r.Results[0]
		if res.Op != "rcall" || res.S != "prependHeader" {
			continue
		}
		n++
		st := r.State
		buf := res.Args[1]
		// wire order: version, asn, holdTime, bgpID, len(params), params
		var probs []string
		fieldIs := func(name string) func(v *Expr) bool {
			return func(v *Expr) bool { return v != nil && v.Op == "ld" && v.Args[0].Op == "fa" && v.Args[0].S == name }
		}
		lay, lerr := st.layoutOf(buf, 0)
		if lerr != "" {
			probs = append(probs, "body construction not understood: "+lerr)
		} else {
			var params *Expr
			if len(lay) > 0 && lay[len(lay)-1].Kind == "bytes" {
				params = lay[len(lay)-1].Val
			}
			pats := []segPat{
				{Kind: "byte", Pred: fieldIs("version"), What: "byte(version)"},
				{Kind: "be16", Pred: fieldIs("asn"), What: "be16(asn)"},
				{Kind: "be16", Pred: fieldIs("holdTime"), What: "be16(holdTime)"},
				{Kind: "be32", Pred: fieldIs("bgpID"), What: "be32(bgpID)"},
				{Kind: "byte", Pred: func(v *Expr) bool {
					if params == nil || v == nil {
						return false
					}
					x := v
					if x.Op == "conv" {
						x = x.Args[0]
					}
					d := st.linOf(x).add(st.linOf(mkLen(params)), -1)
					cv, isC := d.isConst()
					return isC && cv == 0
				}, What: "byte(len(params))"},
				{Kind: "bytes", What: "the encoded optional parameters"},
			}
			if params == nil && len(lay) == len(pats)-1 {
				// no optional parameters in this state (the empty byte string
				// is not a segment): the length octet is 0 and nothing follows
				pats = pats[:len(pats)-1]
				pats[len(pats)-1].Pred = func(v *Expr) bool {
					z, isZ := st.rangeOf(v).IsConst()
					return isZ && z == 0
				}
			}
			if ok, d := matchLayout(lay, pats); !ok {
				probs = append(probs, "body must be version, asn, holdTime, bgpID, len(params), params: "+d)
			}
		}
		if tv, isC := res.Args[2].IsConst(); !isC || tv != p.MustConst("openMessageType") {
			probs = append(probs, "type must be OPEN")
		}
		c.require(len(probs) == 0, rule, "openMessage.encode", "body layout", p.InstrPos(r.Instr), strings.Join(probs, "; "))
	}
	c.floor(rule, n, 1, "successful returns of openMessage.encode")
}

// oneOpenPerConnection: GetCapabilities exactly once per OPEN, before its
// single Write; sendOpenAndSetHoldTimer is the only sender of OPENs and is
// entered once per connection.
func (c *Check) oneOpenPerConnection(rule string) {
	p := c.P
	so := p.Fn("fsm.sendOpenAndSetHoldTimer")
	if so == nil {
		return
	}
	gc := p.callsIn(so, descIs("invoke:Plugin.GetCapabilities"))
	wr := p.callsIn(so, descIs("invoke:net.Conn.Write"))
	pd := newPostDom(so)
	okG := len(gc) == 1 && len(wr) == 1 && !inLoop(gc[0].Block())
	if okG {
		okG = instrDominates(gc[0].(ssa.Instruction), wr[0].(ssa.Instruction)) && pd.onEveryReturnPath(gc[0].(ssa.Instruction))
	}
	c.require(okG, rule, "fsm.sendOpenAndSetHoldTimer", "GetCapabilities then Write", p.Pos(so.Pos()),
		"GetCapabilities is invoked exactly once on every path, before the single Write of the OPEN")
	// GetCapabilities is called nowhere else; the OPEN encoder is used nowhere else
	for _, fn := range p.FuncSeq {
		for _, cl := range p.callsIn(fn, descIs("invoke:Plugin.GetCapabilities", "openMessage.encode")) {
			c.require(fn == so, rule, p.Name(fn), p.calleeDesc(cl), p.InstrPos(cl.(ssa.Instruction)), "OPENs are built and capabilities requested only in sendOpenAndSetHoldTimer")
		}
	}
	// callers: connect (after a successful dial) and active (inbound connection)
	n := 0
	for _, fn := range p.FuncSeq {
		for _, cl := range p.callsIn(fn, descIs("fsm.sendOpenAndSetHoldTimer")) {
			n++
			ok := (p.Name(fn) == "fsm.connect" || p.Name(fn) == "fsm.active") && !inLoopBody(cl)
			c.require(ok, rule, p.Name(fn), "sendOpenAndSetHoldTimer call", p.InstrPos(cl.(ssa.Instruction)), "an OPEN is sent once per connection: right after the connection is obtained, as the state's final action")
		}
	}
	c.floor(rule, n, 1, "sendOpenAndSetHoldTimer call sites")
}

// inLoopBody: the call is followed by a return on every path (it is the
// state's last action even if it sits in a loop block).
func inLoopBody(cl ssa.CallInstruction) bool {
	in := cl.(ssa.Instruction)
	fn := in.Parent()
	hit := pathSearch(fn, in, func(x ssa.Instruction) bool {
		switch x.(type) {
		case *ssa.Select, *ssa.Go:
			return true
		}
		if ci, ok := x.(ssa.CallInstruction); ok && ci != cl {
			if _, isCall := x.(*ssa.Call); isCall {
				return true
			}
		}
		return false
	}, func(x ssa.Instruction) bool { _, ok := x.(*ssa.Return); return ok })
	return hit != nil
}

// openAbortOnError: error edges of sendOpenAndSetHoldTimer: close, go idle,
// never start reading.
func (c *Check) openAbortOnError(rule string) {
	p := c.P
	so := p.Fn("fsm.sendOpenAndSetHoldTimer")
	if so == nil {
		return
	}
	// error edges: close, go idle, never start reading
	idle := p.MustConst("idleState")
	openSent := p.MustConst("openSentState")
	isErrOf := func(callee string) func(*Expr) bool {
		return func(e *Expr) bool {
			if e.Op != "nn" {
				return false
			}
			x := e.Args[0]
			return x.Op == "ex" && x.Args[0].Op == "rcall" && x.Args[0].S == callee
		}
	}
	for _, w := range []struct {
		name string
		hook func(e *Expr) (ISet, bool)
		ok   bool
	}{
		{"newOpenMessage fails", rangeHook(isErrOf("newOpenMessage"), isConst(1)), false},
		{"encode fails", hooks(rangeHook(isErrOf("newOpenMessage"), isConst(0)), rangeHook(isErrOf("openMessage.encode"), isConst(1))), false},
		{"Write fails", hooks(rangeHook(isErrOf("newOpenMessage"), isConst(0)), rangeHook(isErrOf("openMessage.encode"), isConst(0)), rangeHook(isErrOf("invoke:net.Conn.Write"), isConst(1))), false},
		{"all succeed", hooks(rangeHook(isErrOf("newOpenMessage"), isConst(0)), rangeHook(isErrOf("openMessage.encode"), isConst(0)), rangeHook(isErrOf("invoke:net.Conn.Write"), isConst(0))), true},
	} {
		b := NewAnalysis(p, so)
		b.AtomHook = w.hook
		b.NoInline = map[string]bool{"newOpenMessage": true}
		b.Run()
		ok := len(b.Returns) > 0
		for _, r := range b.Returns {
			st := r.State
			v, isC := st.rangeOf(r.Results[0]).IsConst()
			if w.ok {
				if !(isC && v == openSent && (st.must["call:fsm.startReading"] || st.must["go:fsm.read"]) && st.must["assign:holdTimer"] && !st.may["call:invoke:net.Conn.Close"]) {
					ok = false
				}
			} else {
				if !(isC && v == idle && st.must["call:invoke:net.Conn.Close"] && !st.may["call:fsm.startReading"] && !st.may["go:fsm.read"]) {
					ok = false
				}
				if w.name != "Write fails" && st.may["call:invoke:net.Conn.Write"] {
					ok = false
				}
			}
		}
		c.require(ok, rule, "fsm.sendOpenAndSetHoldTimer", w.name, p.Pos(so.Pos()),
			"on any error the connection is closed, nothing (more) is written, the reader is not started and the FSM returns to Idle; on success the hold timer is armed and the reader started")
	}
}
