package main

// Dispatch through package-level tables of functions (C05.1): calling the
// element at an index whose slot the table's literal leaves empty is a nil
// function call, i.e. a panic in whatever goroutine runs it.

import (
	"fmt"
	"go/token"
	"go/types"

	"golang.org/x/tools/go/ssa"
)

// funcTableSlots: for a package-level array (or slice) of functions that is
// initialised once by the package initialiser from a literal and never stored
// to afterwards, the set of slots holding a function; ok=false when the
// variable is not of that kind.
func (p *Prog) funcTableSlots(g *ssa.Global) (slots map[int64]bool, n int64, ok bool) {
	initFn := p.SSA.Func("init")
	if initFn == nil {
		return nil, 0, false
	}
	var tmp *ssa.Alloc
	writes := 0
	direct := map[int64]bool{}
	inPlace := false
	scan := func(fn *ssa.Function, isInit bool) {
		ownInstrs(fn, func(in ssa.Instruction) {
			st, isS := in.(*ssa.Store)
			if !isS {
				return
			}
			root := st.Addr
			for i := 0; i < 4; i++ {
				switch x := root.(type) {
				case *ssa.IndexAddr:
					root = x.X
					continue
				case *ssa.UnOp:
					if x.Op == token.MUL {
						root = x.X
						continue
					}
				}
				break
			}
			if root != ssa.Value(g) {
				return
			}
			if ia, isIA := st.Addr.(*ssa.IndexAddr); isIA && isInit && ia.X == ssa.Value(g) {
				// the literal built in place, slot by slot
				if ic, isC := ia.Index.(*ssa.Const); isC && ic.Value != nil {
					if cv, isCV := st.Val.(*ssa.Const); !isCV || !cv.IsNil() {
						direct[ic.Int64()] = true
					}
					inPlace = true
					return
				}
			}
			writes++
			if !isInit || st.Addr != ssa.Value(g) {
				writes += 10 // written elsewhere, or element-wise: not a literal
				return
			}
			switch v := st.Val.(type) {
			case *ssa.UnOp: // *g = *tmp (array literal)
				if v.Op == token.MUL {
					tmp, _ = v.X.(*ssa.Alloc)
				}
			case *ssa.Slice: // *g = tmp[:] (slice literal)
				tmp, _ = v.X.(*ssa.Alloc)
			}
		})
	}
	scan(initFn, true)
	for _, fn := range p.AllFuncs {
		if fn != initFn {
			scan(fn, false)
		}
	}
	if inPlace && writes == 0 {
		if at, isArr := g.Type().Underlying().(*types.Pointer).Elem().Underlying().(*types.Array); isArr {
			return direct, at.Len(), true
		}
		return nil, 0, false
	}
	if writes != 1 || tmp == nil || inPlace {
		return nil, 0, false
	}
	at, isArr := tmp.Type().Underlying().(*types.Pointer).Elem().Underlying().(*types.Array)
	if !isArr {
		return nil, 0, false
	}
	slots = map[int64]bool{}
	for _, r := range *tmp.Referrers() {
		switch u := r.(type) {
		case *ssa.IndexAddr:
			ic, isC := u.Index.(*ssa.Const)
			if !isC || ic.Value == nil {
				return nil, 0, false
			}
			for _, rr := range *u.Referrers() {
				st2, isS := rr.(*ssa.Store)
				if !isS || st2.Addr != ssa.Value(u) {
					return nil, 0, false
				}
				if cv, isCV := st2.Val.(*ssa.Const); isCV && cv.IsNil() {
					continue
				}
				slots[ic.Int64()] = true
			}
		case *ssa.UnOp, *ssa.Slice, *ssa.DebugRef:
		default:
			return nil, 0, false
		}
	}
	return slots, at.Len(), true
}

// dispatchTables: every call of an element of a package-level function table
// is reached only with indices whose slot holds a function.
func (c *Check) dispatchTables(rule string) {
	p := c.P
	n := 0
	for _, fn := range p.AllFuncs {
		type site struct {
			call ssa.CallInstruction
			g    *ssa.Global
			idx  ssa.Value
		}
		var sites []site
		ownInstrs(fn, func(in ssa.Instruction) {
			ci, ok := in.(ssa.CallInstruction)
			if !ok || ci.Common().IsInvoke() {
				return
			}
			if _, isSig := ci.Common().Value.Type().Underlying().(*types.Signature); !isSig {
				return
			}
			var g *ssa.Global
			var idx ssa.Value
			switch v := ci.Common().Value.(type) {
			case *ssa.UnOp: // *(&table[i])
				if ia, isIA := v.X.(*ssa.IndexAddr); isIA && v.Op == token.MUL {
					idx = ia.Index
					switch b := ia.X.(type) {
					case *ssa.Global:
						g = b
					case *ssa.UnOp: // slice variable loaded first
						if b.Op == token.MUL {
							g, _ = b.X.(*ssa.Global)
						}
					}
				}
			case *ssa.Index: // (*table)[i] on a copy
				idx = v.Index
				if ld, isL := v.X.(*ssa.UnOp); isL && ld.Op == token.MUL {
					g, _ = ld.X.(*ssa.Global)
				}
			}
			if g != nil && g.Pkg == p.SSA {
				sites = append(sites, site{ci, g, idx})
			}
		})
		if len(sites) == 0 {
			continue
		}
		a := NewAnalysis(p, fn)
		a.Run()
		for _, s := range sites {
			n++
			pos := p.InstrPos(s.call.(ssa.Instruction))
			slots, ln, ok := p.funcTableSlots(s.g)
			if !ok {
				c.undecided(rule, p.Name(fn), "call through table "+s.g.Name(), pos, "the table is not a literal initialised once by the package initialiser")
				continue
			}
			var holes []int64
			reached := false
			for _, st := range a.At[s.call.(ssa.Instruction)] {
				reached = true
				if v, isK := st.nonNil(a.exprOf(st, nil, s.call.Common().Value)).IsConst(); isK && v == 1 {
					continue // the element was tested against nil on this path
				}
				r := st.rangeOf(a.exprOf(st, nil, s.idx))
				for i := int64(0); i < ln; i++ {
					if r.Contains(i) && !slots[i] {
						holes = append(holes, i)
					}
				}
			}
			holes = dedupInt(holes)
			c.require(reached && len(holes) == 0, rule, p.Name(fn), "call through table "+s.g.Name(), pos,
				fmt.Sprintf("every index that reaches the call selects a slot the table's literal fills (empty slots reachable: %v)", holes))
		}
	}
	if n == 0 {
		c.ok(rule, "", "no calls through package-level function tables", "-", "dispatch is by switch: there is no table slot to leave empty")
	}
}

func dedupInt(xs []int64) []int64 {
	seen := map[int64]bool{}
	var out []int64
	for _, x := range xs {
		if !seen[x] {
			seen[x] = true
			out = append(out, x)
		}
	}
	return out
}
