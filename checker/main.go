package main

// cbgpcheck — repository-specific static checker for jwhited/corebgp.
//
//   cbgpcheck check <C01..C20|all> [--tier quick|thorough]
//   cbgpcheck debug <function>           (abstract states, development aid)
//
// Every invocation re-loads the repository from its working tree.

import (
	"fmt"
	"golang.org/x/tools/go/ssa"
	"os"
	"sort"
	"strconv"
	"strings"
	"time"
)

// ruleFns maps a property id to the function deciding it on one loaded
// configuration of the repository.
var ruleFns = map[string]func(c *Check){}

func register(id string, f func(c *Check)) { ruleFns[id] = f }

func configsFor(tier string) []BuildConfig {
	if tier == "thorough" {
		return []BuildConfig{
			{GOOS: "linux", GOARCH: "amd64"},
			{GOOS: "linux", GOARCH: "386"},
			{GOOS: "darwin", GOARCH: "amd64"},
			{GOOS: "linux", GOARCH: "amd64", Tags: "integration"},
		}
	}
	return []BuildConfig{{GOOS: "linux", GOARCH: "amd64"}}
}

func main() {
	if len(os.Args) < 2 {
		usage()
	}
	switch os.Args[1] {
	case "debug":
		debugMain(os.Args[2:])
	case "matrix":
		matrixMain()
	case "memat":
		// debug: memat <fn> <line>: memory of the states at the instructions of that line
		p, err := Load(repoDir(), BuildConfig{})
		if err != nil {
			fmt.Println("ERR", err)
			os.Exit(2)
		}
		curProg = p
		fn := p.Fn(os.Args[2])
		a := NewAnalysis(p, fn)
		a.Run()
		for in, sts := range a.At {
			if !strings.HasSuffix(p.InstrPos(in), ":"+os.Args[3]) {
				continue
			}
			for _, st := range sts {
				fmt.Printf("%s %v\n", p.InstrPos(in), in)
				for _, k := range sortedKeys(st.mem) {
					fmt.Printf("     %s = %s\n", k, trunc(st.mem[k].Key, 100))
				}
				fmt.Printf("     tags=%v\n", st.tags)
			}
		}
	case "chans":
		p, err := Load(repoDir(), BuildConfig{})
		if err != nil {
			fmt.Println("ERR", err)
			os.Exit(2)
		}
		cf := p.chanFlow()
		for m, k := range cf.keys {
			fmt.Printf("%-28s %s in %s\n", k, p.Pos(m.Pos()), p.Name(m.Parent()))
		}
	case "check":
		os.Exit(checkMain(os.Args[2:]))
	default:
		usage()
	}
}

func usage() {
	fmt.Println("usage: cbgpcheck check <id|all> [--tier quick|thorough] | debug <fn>")
	os.Exit(2)
}

func checkMain(args []string) int {
	tier := os.Getenv("VERIF_TIER")
	var ids []string
	for i := 0; i < len(args); i++ {
		switch {
		case args[i] == "--tier" && i+1 < len(args):
			tier = args[i+1]
			i++
		case strings.HasPrefix(args[i], "--tier="):
			tier = strings.TrimPrefix(args[i], "--tier=")
		default:
			ids = append(ids, args[i])
		}
	}
	if tier != "thorough" {
		tier = "quick"
	}
	seed, _ := strconv.ParseInt(os.Getenv("VERIF_SEED"), 10, 64)
	if len(ids) == 1 && ids[0] == "all" {
		ids = nil
		for id := range ruleFns {
			ids = append(ids, id)
		}
		sort.Strings(ids)
	}
	if len(ids) == 0 {
		usage()
	}
	start := time.Now()
	// load each configuration once, share across properties
	type loaded struct {
		p   *Prog
		err error
		cfg BuildConfig
	}
	var progs []loaded
	loadStart := time.Now()
	for _, bc := range configsFor(tier) {
		p, err := Load(repoDir(), bc)
		progs = append(progs, loaded{p, err, bc})
	}
	loadSecs := time.Since(loadStart).Seconds()
	rc := 0
	for _, id := range ids {
		f, ok := ruleFns[id]
		if !ok {
			fmt.Printf("unknown property %s\n", id)
			return 2
		}
		r := &runResult{ID: id, Tier: tier, Seed: seed, Start: start, Extra: map[string]interface{}{}}
		r.Start = time.Now()
		r.LoadSeconds = loadSecs
		for _, l := range progs {
			if l.err != nil {
				r.LoadErrors = append(r.LoadErrors, fmt.Sprintf("%s: %v", l.cfg, l.err))
				continue
			}
			c := newCheck(id, l.p)
			func() {
				defer func() {
					if rec := recover(); rec != nil {
						c.undecided(id+".checker", "", "analyser-panic", "-", fmt.Sprint(rec))
					}
				}()
				f(c)
			}()
			c.anchors()
			r.Checks = append(r.Checks, c)
		}
		if tier == "thorough" {
			thoroughExtras(r)
		}
		if r.finish() != 0 {
			rc = 1
		}
	}
	return rc
}

var debugHooks = map[string]func(p *Prog, args []string){}

func debugMain(args []string) {
	p, err := Load(repoDir(), BuildConfig{})
	if err != nil {
		fmt.Println("ERR", err)
		os.Exit(2)
	}
	if len(args) > 0 {
		if h, ok := debugHooks[args[0]]; ok {
			h(p, args[1:])
			return
		}
	}
	if len(args) == 0 {
		for _, n := range sortedKeys(p.Funcs) {
			fmt.Println(n, len(p.Funcs[n].Blocks))
		}
		return
	}
	fn := p.Fn(args[0])
	if fn == nil {
		fmt.Println("no such fn")
		return
	}
	a := NewAnalysis(p, fn)
	a.Run()
	fmt.Println("undecided:", a.Undecided)
	for _, b := range fn.Blocks {
		fmt.Printf("block %d: %d partitions\n", b.Index, len(a.In[b]))
		if len(args) > 1 {
			for _, k := range sortedKeys(a.In[b]) {
				fmt.Printf("   [%s] %s\n", k, a.In[b][k].digest())
			}
		}
	}
	for _, r := range a.Returns {
		fmt.Printf("RETURN %s: %v\n", p.InstrPos(r.Instr), r.Results)
		if len(args) > 1 && args[1] == "ev" {
			var must, may []string
			for _, k := range sortedKeys(r.State.may) {
				if r.State.must[k] {
					must = append(must, k)
				} else {
					may = append(may, k)
				}
			}
			fmt.Printf("    must: %s\n    may:  %s\n", strings.Join(must, " "), strings.Join(may, " "))
			continue
		}
		for _, e := range r.Results {
			ec := p.classifyErr(r.State, e)
			if ec.Notif != nil {
				fmt.Printf("    %s notif=%s out=%s\n", ec.Kind, ec.Notif, ec.Out)
			}
		}
		if len(args) > 1 {
			fmt.Printf("    %s\n", r.State.digest())
		}
	}
}

func matrixMain() {
	p, err := Load(repoDir(), BuildConfig{})
	if err != nil {
		fmt.Println("ERR", err)
		os.Exit(2)
	}
	roots := p.roots()
	for _, r := range roots {
		var ns []string
		for f := range r.Funcs {
			ns = append(ns, p.Name(f))
		}
		sort.Strings(ns)
		fmt.Printf("ROOT %s: %s\n", r.Name, strings.Join(ns, " "))
	}
	type key struct{ s, f string }
	acc := map[key]map[string][]Access{}
	for _, r := range roots {
		for fn := range r.Funcs {
			for _, a := range p.fieldAccesses(fn) {
				k := key{a.Struct, a.Field}
				if acc[k] == nil {
					acc[k] = map[string][]Access{}
				}
				acc[k][r.Name] = append(acc[k][r.Name], a)
			}
		}
	}
	var keys []key
	for k := range acc {
		keys = append(keys, k)
	}
	sort.Slice(keys, func(i, j int) bool { return keys[i].s+keys[i].f < keys[j].s+keys[j].f })
	for _, k := range keys {
		wr := map[string]bool{}
		for rn, as := range acc[k] {
			for _, a := range as {
				if a.Write {
					wr[rn] = true
				}
			}
		}
		if len(wr) == 0 || len(acc[k]) < 2 {
			continue
		}
		fmt.Printf("%s.%s:\n", k.s, k.f)
		for _, rn := range sortedKeys(acc[k]) {
			fns := map[string]bool{}
			for _, a := range acc[k][rn] {
				t := "r"
				if a.Write {
					t = "W"
				}
				if a.AddrTaken {
					t += "&"
				}
				fns[t+":"+p.Name(a.Fn)] = true
			}
			fmt.Printf("    %-28s %s\n", rn, strings.Join(sortedKeys(fns), " "))
		}
	}
}

func init() {
	debugHooks["mods"] = func(p *Prog, args []string) {
		mi := p.mods()
		for _, n := range args {
			fn := p.Fn(n)
			fmt.Println(n, "direct:", sortedKeys(mi.direct[fn]), "trans:", sortedKeys(mi.trans[fn]))
		}
	}
}

func init() {
	debugHooks["hst"] = func(p *Prog, args []string) {
		c := newCheck("C07", p)
		fn := p.Fn("peer.handleStateTransition")
		h := c.peerHooks(fn)
		ef := c.runHST(hstScenario{i: 0, hook: hooks(rangeHook(h.tTo, isConst(5)), rangeHook(h.tFrom, isConst(4)), rangeHook(h.otherState, isConst(5)), relHook(h.id, h.remoteID, ">"))})
		fmt.Println(ef.a.Undecided, ef.calls, len(ef.sel))
		for _, b := range fn.Blocks {
			fmt.Printf("block %d: %d\n", b.Index, len(ef.a.In[b]))
			for _, k := range sortedKeys(ef.a.In[b]) {
				fmt.Printf("   [%s] %s\n", k, trunc(ef.a.In[b][k].digest(), 700))
			}
		}
	}
}

func init() {
	debugHooks["at"] = func(p *Prog, args []string) {
		fn := p.Fn(args[0])
		a := NewAnalysis(p, fn)
		a.Run()
		for _, cl := range p.callsIn(fn, descIs(args[1])) {
			for _, st := range a.At[cl.(ssa.Instruction)] {
				fmt.Println(p.InstrPos(cl.(ssa.Instruction)), st.digest())
				for _, k := range sortedKeys(st.mem) {
					fmt.Println("   MEM", k, "=", trunc(st.mem[k].Key, 100))
				}
			}
		}
	}
}

func init() {
	debugHooks["pa1"] = func(p *Prog, args []string) {
		pa := p.Fn("UpdateDecoder.decodePathAttrs")
		a := NewAnalysis(p, pa)
		a.NoInline = map[string]bool{"attrsBitmap.isSet": true, "attrsBitmap.set": true}
		a.AtomHook = func(e *Expr) (ISet, bool) {
			if e.Op == "nn" && e.Args[0].Op == "rcall" && e.Args[0].S == "dyn:PathAttrsDecodeFn[T]" {
				return isConst(1), true
			}
			if e.Op == "call" && strings.HasPrefix(e.S, "errors.As:") {
				return isConst(1), true
			}
			return nil, false
		}
		a.Run()
		fmt.Println(a.Undecided)
		for _, r := range a.Returns {
			fmt.Println(p.InstrPos(r.Instr), trunc(r.Results[0].Key, 200), r.State.may["call:dyn:PathAttrsDecodeFn[T]"])
		}
	}
}

func init() {
	debugHooks["singleblock"] = func(p *Prog, args []string) {
		for _, n := range sortedKeys(p.Funcs) {
			f := p.Funcs[n]
			if f.Parent() == nil && len(f.Blocks) == 1 && len(f.Blocks[0].Instrs) <= 40 && f.TypeParams().Len() == 0 {
				fmt.Println(n)
			}
		}
	}
}
