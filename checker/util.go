package main

import (
	"go/types"

	"golang.org/x/tools/go/ssa"
)

// structFieldName returns the name of the field addressed by fa.
func structFieldName(fa *ssa.FieldAddr) string {
	st := fa.X.Type().Underlying().(*types.Pointer).Elem().Underlying().(*types.Struct)
	return st.Field(fa.Field).Name()
}

// fieldQuiet resolves Type.field without recording a missing anchor.
func (p *Prog) fieldQuiet(typ, field string) *types.Var {
	o := p.Types.Scope().Lookup(typ)
	tn, ok := o.(*types.TypeName)
	if !ok {
		return nil
	}
	st, ok := tn.Type().Underlying().(*types.Struct)
	if !ok {
		return nil
	}
	for i := 0; i < st.NumFields(); i++ {
		if st.Field(i).Name() == field {
			return st.Field(i)
		}
	}
	return nil
}
