package main

// C20 — the peer registry behaves as a consistent map and rejects unusable
// configurations.

import (
	"fmt"
	"go/constant"
	"go/types"
	"strings"

	"golang.org/x/tools/go/ssa"
)

func init() { register("C20", checkC20) }

// registryLocked: every access to Server.peers / Server.serving holds Server.mu.
func (c *Check) registryLocked(rule string) {
	p := c.P
	n := 0
	for _, fn := range p.FuncSeq {
		var acc []Access
		for _, a := range p.fieldAccesses(fn) {
			if a.Struct == "Server" && (a.Field == "peers" || a.Field == "serving") && !(a.Write && isFreshWrite(a)) {
				acc = append(acc, a)
			}
		}
		if len(acc) == 0 {
			continue
		}
		held := p.lockHeld(fn, "mu")
		if par := p.enteredOnlyThroughHelper(fn); par != nil {
			// a closure handed to a helper that runs it (locked(func(){…})):
			// its accesses are judged where the helper calls it
			held = p.lockHeld(par, "mu")
			for _, a := range acc {
				n++
				c.require(held[a.Instr], rule, p.Name(fn), a.String(), p.InstrPos(a.Instr), "Server.mu is held on every path to this access (the closure runs inside the helper it is handed to)")
			}
			continue
		}
		for _, a := range acc {
			n++
			c.require(held[a.Instr], rule, p.Name(fn), a.String(), p.InstrPos(a.Instr), "Server.mu is held on every path to this access")
		}
		// pairing: no return with the lock held unless an Unlock is deferred
		deferred := false
		allInstrs(fn, func(in ssa.Instruction) {
			if d, ok := in.(*ssa.Defer); ok && p.calleeDesc(d) == "sync.Mutex.Unlock" {
				deferred = true
			}
		})
		allInstrs(fn, func(in ssa.Instruction) {
			if r, ok := in.(*ssa.Return); ok && in.Parent() == fn {
				if r.Block().Index != 0 && len(r.Block().Preds) == 0 {
					return
				}
				c.require(!held[in] || deferred, rule, p.Name(fn), "unlock before return", p.InstrPos(in), "the mutex is released (directly or by a deferred Unlock) on every return")
			}
		})
	}
	c.floor(rule, n, 12, "accesses to Server.peers / Server.serving")
}

func checkC20(c *Check) {
	p := c.P
	c.registryLocked("C20.1 one-mutex")
	c.checkThenActAtomic("C20.1 check-then-act")
	c.peerConfigVerbatim("C20.1 registry-key-consistent")
	c.capturedVarDiscipline("C20.3 every-listener-served")
	c.configuredHoldTimeProvenance("C20.4 options-per-call")
	c.optionSettersVerbatim("C20.4 option-setters")
	c.inboundLookup("C20.2 lookup-key", "C20.1 one-mutex")
	c.passiveNeverDials("C20.5 passive-never-dials")
	c.passiveOption("C20.5 passive-option")
	c.registryKeys("C20.1 registry-keys")
	c.optionsApplied("C20.4 options-applied")
	c.serverContracts("C20.3 serve-after-close")
	c.accumulatorsStartEmpty("C20.2 accumulators", "Server.ListPeers")
	isExists := func(e *Expr) bool {
		if e.Op == "nn" && e.Args[0].Op == "val" && typeKey(e.Args[0].Typ) == "*peer" {
			return true // `p := s.peers[k]; p != nil` (only non-nil peers are ever stored)
		}
		return e.Op == "ex" && len(e.Args) == 2 && e.Args[0].Op == "val" && isBoolType(e.Typ)
	}
	isServing := func(e *Expr) bool { return isLoadOfField(e, "serving") }
	isGlobal := func(e *Expr, name string) bool {
		return e != nil && e.Op == "ld" && e.Args[0].Op == "global" && e.Args[0].S == name+"#"
	}
	isValidateErr := func(callee string) func(*Expr) bool {
		return func(e *Expr) bool {
			return e.Op == "nn" && e.Args[0].Op == "rcall" && e.Args[0].S == callee
		}
	}
	optOK := rangeHook(isValidateErr("peerOptions.validate"), isConst(0))
	cfgOK := rangeHook(isValidateErr("PeerConfig.validate"), isConst(0))
	// AddPeer
	if fn := p.Fn("Server.AddPeer"); fn != nil {
		type want struct {
			name string
			hook func(e *Expr) (ISet, bool)
			chk  func(st *State, res *Expr) string
		}
		noEffects := func(st *State) string {
			for _, ev := range []string{"call:newPeer", "mapupdate", "call:peer.start", "call:sync.Mutex.Lock"} {
				if st.may[ev] {
					return "side effect reachable: " + ev
				}
			}
			return ""
		}
		for _, w := range []want{
			{"invalid options => error, no side effect", rangeHook(isValidateErr("peerOptions.validate"), isConst(1)), func(st *State, res *Expr) string {
				if v, ok := st.nonNil(res).IsConst(); !ok || v != 1 {
					return "error must be non-nil"
				}
				return noEffects(st)
			}},
			{"invalid config => error, no side effect", hooks(optOK, rangeHook(isValidateErr("PeerConfig.validate"), isConst(1))), func(st *State, res *Expr) string {
				if v, ok := st.nonNil(res).IsConst(); !ok || v != 1 {
					return "error must be non-nil"
				}
				return noEffects(st)
			}},
			{"existing key => ErrPeerAlreadyExists, nothing changes", hooks(optOK, cfgOK, rangeHook(isExists, isConst(1))), func(st *State, res *Expr) string {
				if !isGlobal(res, "ErrPeerAlreadyExists") {
					return "must return ErrPeerAlreadyExists; got " + trunc(res.Key, 60)
				}
				if st.may["mapupdate"] || st.may["call:newPeer"] || st.may["call:peer.start"] {
					return "registry or peers touched"
				}
				return ""
			}},
			{"new key while serving => stored and started", hooks(optOK, cfgOK, rangeHook(isExists, isConst(0)), rangeHook(isServing, isConst(1))), func(st *State, res *Expr) string {
				if !res.IsNil() || !st.must["mapupdate"] || !st.must["call:peer.start"] {
					return "must store the peer, start it and return nil"
				}
				return ""
			}},
			{"new key while not serving => stored, not started", hooks(optOK, cfgOK, rangeHook(isExists, isConst(0)), rangeHook(isServing, isConst(0))), func(st *State, res *Expr) string {
				if !res.IsNil() || !st.must["mapupdate"] || st.may["call:peer.start"] {
					return "must store the peer without starting it and return nil"
				}
				return ""
			}},
		} {
			a := NewAnalysis(p, fn)
			a.AtomHook = w.hook
			a.Run()
			ok := len(a.Returns) > 0
			detail := ""
			for _, r := range a.Returns {
				if d := w.chk(r.State, r.Results[0]); d != "" {
					ok = false
					detail = d
				}
			}
			c.require(ok, "C20.2 map-semantics", "Server.AddPeer", w.name, p.Pos(fn.Pos()), detail)
		}
		// validation is applied to the options the peer will use, and to the config with those options
		a := NewAnalysis(p, fn)
		a.Run()
		for _, cl := range p.callsIn(fn, descIs("PeerConfig.validate")) {
			for _, args := range a.callArgsAt(cl) {
				ok := len(args) == 2 && isParamNamed(args[0], paramName(fn, 1))
				c.require(ok, "C20.3 validation-first", "Server.AddPeer", "config validated", p.InstrPos(cl.(ssa.Instruction)), "the configuration validated is the one passed in")
			}
		}
	}
	for _, s := range []struct{ fn, what string }{{"Server.DeletePeer", "delete"}, {"Server.GetPeer", "get"}} {
		fn := p.Fn(s.fn)
		if fn == nil {
			continue
		}
		for _, ex := range []int64{0, 1} {
			for _, sv := range []int64{0, 1} {
				if s.what == "get" && sv == 1 {
					continue
				}
				a := NewAnalysis(p, fn)
				a.AtomHook = hooks(rangeHook(isExists, isConst(ex)), rangeHook(isServing, isConst(sv)))
				a.Run()
				ok := len(a.Returns) > 0
				detail := ""
				for _, r := range a.Returns {
					res := r.Results[len(r.Results)-1]
					st := r.State
					switch {
					case ex == 0:
						if !isGlobal(res, "ErrPeerNotExist") || st.may["call:builtin:delete"] || st.may["call:peer.stop"] {
							ok, detail = false, "missing key must return ErrPeerNotExist and change nothing"
						}
					case s.what == "delete":
						if !res.IsNil() || !st.must["call:builtin:delete"] || st.must["call:peer.stop"] != (sv == 1) || (sv == 0 && st.may["call:peer.stop"]) {
							ok, detail = false, "existing key must be deleted; the peer stopped exactly when serving"
						}
					default:
						if !res.IsNil() {
							ok, detail = false, "existing key must return nil error"
						}
					}
				}
				c.require(ok, "C20.2 map-semantics", s.fn, fmt.Sprintf("exists=%d serving=%d", ex, sv), p.Pos(fn.Pos()), detail)
			}
		}
	}
	if fn := p.Fn("Server.ListPeers"); fn != nil {
		apps := p.callsIn(fn, descIs("builtin:append"))
		ok := len(apps) == 1 && inLoop(apps[0].Block()) && everyIteration(apps[0].(ssa.Instruction))
		if len(apps) == 0 {
			// pre-sized result filled by a counter: one store into result[i]
			// per entry, result made with len(registry)
			nst := 0
			allInstrs(fn, func(in ssa.Instruction) {
				if ia, isIA := in.(*ssa.IndexAddr); isIA && mapRangeCounterIdiom(ia) {
					for _, r := range *ia.Referrers() {
						if _, isS := r.(*ssa.Store); isS {
							nst++
						}
					}
				}
			})
			ok = nst == 1
		}
		rng := 0
		allInstrs(fn, func(in ssa.Instruction) {
			if _, isR := in.(*ssa.Range); isR {
				rng++
			}
		})
		c.require(ok && rng == 1, "C20.2 map-semantics", "Server.ListPeers", "append every value", p.Pos(fn.Pos()), "one append per map entry, unconditionally, inside the range over the registry")
	}
	// Serve: closed => ErrServerClosed before serving is set; start-all under the lock
	if fn := p.Fn("Server.Serve"); fn != nil {
		a := NewAnalysis(p, fn)
		a.StoreHook = func(st *State, addr, val *Expr, in *ssa.Store) {
			if addr.Op == "fa" && addr.S == "serving" {
				if v, isC := st.evalBool(val).IsConst(); isC && v == 1 {
					st.event("serving=true")
				}
			}
		}
		a.Run()
		var servingStore ssa.Instruction
		allInstrs(fn, func(in ssa.Instruction) {
			if st, ok := in.(*ssa.Store); ok {
				if fa, ok := st.Addr.(*ssa.FieldAddr); ok && structFieldName(fa) == "serving" {
					servingStore = in
				}
			}
		})
		held := p.lockHeld(fn, "mu")
		okS := servingStore != nil && held[servingStore]
		for _, cl := range p.callsIn(fn, descIs("peer.start")) {
			if !held[cl.(ssa.Instruction)] || (servingStore != nil && !instrDominates(servingStore, cl.(ssa.Instruction))) {
				okS = false
			}
		}
		c.require(okS, "C20.2 start-stop-symmetry", "Server.Serve", "start all under the lock", p.Pos(fn.Pos()), "serving=true and the start of every registered peer happen in one critical section")
		// the first select: receiving from doneServingCh/closeCh returns ErrServerClosed without setting serving
		n := 0
		for _, r := range a.Returns {
			if !isGlobal(r.Results[0], "ErrServerClosed") {
				continue
			}
			if !r.State.must["serving=true"] {
				n++
				c.require(!r.State.may["call:peer.start"], "C20.2 serve-after-close", "Server.Serve", "closed before serving", p.InstrPos(r.Instr), "Serve on a closed server returns ErrServerClosed without starting anything")
			}
		}
		c.floor("C20.2 serve-after-close", n, 1, "early ErrServerClosed returns")
		c.serveShutdown("C20.2 start-stop-symmetry")
	}
	// accept sets of the validators
	if fn := p.Fn("PeerConfig.validate"); fn != nil && c.sig("C20.4 config-accept-set", fn, 2) {
		remoteValid := func(e *Expr) bool {
			return isCallNamed(e, "netip.Addr.IsValid") && strings.Contains(e.Key, "RemoteAddress")
		}
		localValid := func(e *Expr) bool {
			return isCallNamed(e, "netip.Addr.IsValid") && strings.Contains(e.Key, "localAddress")
		}
		remote4 := func(e *Expr) bool {
			return isCallNamed(e, "netip.Addr.Is4") && strings.Contains(e.Key, "RemoteAddress")
		}
		local4 := func(e *Expr) bool { return isCallNamed(e, "netip.Addr.Is4") && strings.Contains(e.Key, "localAddress") }
		remote6 := func(e *Expr) bool {
			return isCallNamed(e, "netip.Addr.Is6") && strings.Contains(e.Key, "RemoteAddress")
		}
		local6 := func(e *Expr) bool { return isCallNamed(e, "netip.Addr.Is6") && strings.Contains(e.Key, "localAddress") }
		las := func(e *Expr) bool { return isFieldRead(e, "LocalAS") }
		ras := func(e *Expr) bool { return isFieldRead(e, "RemoteAS") }
		pos32 := isRange(1, (1<<32)-1)
		// library facts about netip.Addr: an invalid address is neither 4 nor 6
		invalidRemote := hooks(rangeHook(remoteValid, isConst(0)), rangeHook(remote4, isConst(0)), rangeHook(remote6, isConst(0)))
		invalidLocal := hooks(rangeHook(localValid, isConst(0)), rangeHook(local4, isConst(0)), rangeHook(local6, isConst(0)))
		v4 := func(v, f4, f6 func(*Expr) bool) func(e *Expr) (ISet, bool) {
			return hooks(rangeHook(v, isConst(1)), rangeHook(f4, isConst(1)), rangeHook(f6, isConst(0)))
		}
		v6 := func(v, f4, f6 func(*Expr) bool) func(e *Expr) (ISet, bool) {
			return hooks(rangeHook(v, isConst(1)), rangeHook(f4, isConst(0)), rangeHook(f6, isConst(1)))
		}
		asOK := hooks(rangeHook(las, pos32), rangeHook(ras, pos32))
		mustAccept := func(rs retSite) string {
			if !isAccept(rs) {
				return "rejected"
			}
			return ""
		}
		c.runCases("C20.4 config-accept-set", "PeerConfig.validate", []asmCase{
			{name: "local AS 0 => rejected", hook: rangeHook(las, isConst(0)), forbid: forbidAccept},
			{name: "remote AS 0 => rejected", hook: rangeHook(ras, isConst(0)), forbid: forbidAccept},
			{name: "invalid remote address => rejected", hook: hooks(invalidRemote, asOK), forbid: forbidAccept},
			{name: "IPv4 local, IPv6 remote => rejected", hook: hooks(v4(localValid, local4, local6), v6(remoteValid, remote4, remote6), asOK), forbid: forbidAccept},
			{name: "IPv6 local, IPv4 remote => rejected", hook: hooks(v6(localValid, local4, local6), v4(remoteValid, remote4, remote6), asOK), forbid: forbidAccept},
			{name: "valid remote, no local, AS > 0 => accepted", hook: hooks(invalidLocal, v4(remoteValid, remote4, remote6), asOK), forbid: mustAccept},
			{name: "IPv4 pair, AS > 0 => accepted", hook: hooks(v4(localValid, local4, local6), v4(remoteValid, remote4, remote6), asOK), forbid: mustAccept},
			{name: "IPv6 pair, AS > 0 => accepted", hook: hooks(v6(localValid, local4, local6), v6(remoteValid, remote4, remote6), asOK), forbid: mustAccept},
		})
	}
	port := func(e *Expr) bool { return isFieldRead(e, "port") }
	hold := func(e *Expr) bool { return isFieldRead(e, "holdTime") }
	okHold := rangeHook(hold, isConst(0))
	c.runCases("C20.4 options-accept-set", "peerOptions.validate", []asmCase{
		{name: "port < 1 => rejected", hook: hooks(rangeHook(port, isRange(negInf, 0)), okHold), forbid: forbidAccept},
		{name: "port > 65535 => rejected", hook: hooks(rangeHook(port, isRange(65536, posInf)), okHold), forbid: forbidAccept},
		{name: "hold time 1..2 s => rejected", hook: hooks(rangeHook(port, isRange(1, 65535)), rangeHook(hold, isRange(1, 3*1000000000-1))), forbid: forbidAccept},
		{name: "valid port and hold time => accepted", hook: hooks(rangeHook(port, isRange(1, 65535)), okHold), forbid: func(rs retSite) string {
			if !isAccept(rs) {
				return "rejected"
			}
			return ""
		}},
	})
	// the option setters store exactly what the user passed (no narrowing before validation)
	for _, s := range []struct{ fn, field string }{{"WithPort", "port"}, {"WithHoldTime", "holdTime"}} {
		outer := p.Fn(s.fn)
		if outer == nil || len(outer.AnonFuncs) != 1 {
			continue
		}
		g := outer.AnonFuncs[0]
		a := NewAnalysis(p, g)
		a.Init = p.closureInit(g)
		a.Run()
		ok := false
		for _, r := range a.Returns {
			for k, v := range r.State.mem {
				if me := r.State.memE[k]; me != nil && me.Op == "fa" && me.S == s.field {
					switch s.field {
					case "port":
						ok = isFreeVal(v)
					case "holdTime":
						l := r.State.linOf(v)
						ok = len(l.T) == 1 && l.C == 0
						for kk, coef := range l.T {
							if coef != 1000000000 || !isFreeVal(l.E[kk]) {
								ok = false
							}
						}
					}
				}
			}
		}
		// the field itself must be wide enough to hold any user value
		fld := p.Field("peerOptions", s.field)
		if fld != nil && s.field == "port" {
			ii := intTypeInfo(fld.Type())
			ok = ok && ii.ok && ii.bits == 64
		}
		c.require(ok, "C20.4 options-accept-set", s.fn, "value stored unmodified", p.Pos(outer.Pos()), "the option stores the caller's value without narrowing, so validation sees what the user passed")
	}
	c.routerIDAccepted("C20.4 router-id")
}

// isFreeVal: the term is a captured variable (directly or through its cell).
func isFreeVal(e *Expr) bool {
	// a captured variable, or (with the captured cells bound as at creation)
	// the constructor's parameter itself
	return e != nil && (e.Op == "free" || e.Op == "param" || (e.Op == "ld" && e.Args[0].Op == "free"))
}

// serveShutdown: Serve's deferred shutdown stops every peer synchronously,
// clears serving and closes doneServingCh in one critical section.
func (c *Check) serveShutdown(rule string) {
	p := c.P
	fn := p.Fn("Server.Serve")
	if fn == nil {
		return
	}
	// deferred shutdown: stop all, serving=false, close(doneServingCh) in one critical section
	var d *ssa.Function
	allInstrs(fn, func(in ssa.Instruction) {
		if df, ok := in.(*ssa.Defer); ok {
			if t := p.staticLocalCallee(df); t != nil && len(p.callsIn(t, descIs("peer.stop"))) > 0 {
				d = t
			}
		}
	})
	okD := d != nil
	if okD {
		h := p.lockHeld(d, "mu")
		var store, closeDone ssa.Instruction
		allInstrs(d, func(in ssa.Instruction) {
			if st, ok := in.(*ssa.Store); ok {
				if fa, ok := st.Addr.(*ssa.FieldAddr); ok && structFieldName(fa) == "serving" {
					store = in
				}
			}
			if cl, ok := in.(*ssa.Call); ok && p.calleeDesc(cl) == "builtin:close" {
				closeDone = in
			}
		})
		locks := p.callsIn(d, descIs("sync.Mutex.Lock"))
		unlocks := p.callsIn(d, descIs("sync.Mutex.Unlock"))
		okD = store != nil && closeDone != nil && h[store] && h[closeDone] && len(locks) == 1 && len(unlocks) == 1
		for _, cl := range p.callsIn(d, descIs("peer.stop")) {
			if !h[cl.(ssa.Instruction)] {
				okD = false
			}
			if _, isGo := cl.(*ssa.Go); isGo {
				okD = false
			}
			if !inLoop(cl.Block()) || !everyIteration(cl.(ssa.Instruction)) {
				okD = false // every registered peer, not some
			}
		}
		if okD {
			// no Unlock between the Lock and the store of serving=false
			hit := pathSearch(d, locks[0].(ssa.Instruction), func(x ssa.Instruction) bool { return x == store }, func(x ssa.Instruction) bool {
				ci, ok := x.(ssa.CallInstruction)
				return ok && p.calleeDesc(ci) == "sync.Mutex.Unlock"
			})
			okD = hit != nil
		}
	}
	c.require(okD, rule, "Server.Serve", "deferred shutdown atomic", p.Pos(fn.Pos()),
		"the deferred shutdown stops every peer (synchronously), clears serving and closes doneServingCh inside one critical section, so no AddPeer can start a peer that is never stopped")
	// the flag means "the registered peers are running": every write of it, in
	// any function, happens in a critical section that also starts (true) or
	// stops (false) every registered peer -- AddPeer and DeletePeer decide by it
	// whether a peer must be started or stopped
	nw := 0
	for _, g := range p.FuncSeq {
		h := map[ssa.Instruction]bool(nil)
		allInstrs(g, func(in ssa.Instruction) {
			st, ok := in.(*ssa.Store)
			if !ok {
				return
			}
			fa, ok := st.Addr.(*ssa.FieldAddr)
			if !ok || structFieldName(fa) != "serving" || structNameOfPtr(fa.X.Type()) != "Server" {
				return
			}
			if acc := (Access{Fn: g, Instr: st, Write: true}); isFreshWrite(acc) || p.isFreshViaParam(acc) {
				return // constructor initialising an unpublished Server
			}
			nw++
			if h == nil {
				h = p.lockHeld(g, "mu")
			}
			val, isC := st.Val.(*ssa.Const)
			okW := isC && val.Value != nil && h[st]
			if okW {
				want := "peer.stop"
				if constant.BoolVal(val.Value) {
					want = "peer.start"
				}
				paired := false
				for _, cl := range p.callsIn(g, descIs(want)) {
					ci := cl.(ssa.Instruction)
					if _, isGo := cl.(*ssa.Go); isGo || !h[ci] || !inLoop(ci.Block()) || !everyIteration(ci) {
						continue
					}
					isUnlock := func(x ssa.Instruction) bool {
						cc, ok := x.(ssa.CallInstruction)
						return ok && p.calleeDesc(cc) == "sync.Mutex.Unlock"
					}
					fwd := pathSearch(g, st, func(x ssa.Instruction) bool { return x == ci }, isUnlock)
					bwd := pathSearch(g, ci, func(x ssa.Instruction) bool { return x == ssa.Instruction(st) }, isUnlock)
					if fwd != nil || bwd != nil {
						paired = true
					}
				}
				okW = paired
			}
			c.require(okW, rule, p.Name(g), "write of Server.serving", p.InstrPos(st),
				"the serving flag is written only in a critical section that also starts (true) or stops (false) every registered peer; AddPeer/DeletePeer start/stop a peer exactly when the flag says the others are running")
		})
	}
	c.floor(rule, nw, 2, "writes of Server.serving")
}

// peerConfigVerbatim: the registry is keyed by the configured remote address
// at three places (AddPeer's duplicate test on its argument, its insertion on
// the stored copy, the lookups of DeletePeer/GetPeer/handleInboundConn). They
// agree only if a peer carries exactly the configuration it was added with:
// newPeer stores its config argument unmodified, nothing writes peer.config
// afterwards, and every key of the registry is `<address>.String()`.
func (c *Check) peerConfigVerbatim(rule string) {
	p := c.P
	np := p.Fn("newPeer")
	if np == nil {
		return
	}
	a := NewAnalysis(p, np)
	a.Run()
	cfg := paramExpr(np, 0)
	n := 0
	for _, r := range a.Returns {
		n++
		res := r.Results[0]
		v := p.loadField(r.State, res, "peer", "config")
		ok := v != nil && v.Key == cfg.Key
		got := "<nil>"
		if v != nil {
			got = trunc(v.Key, 80)
		}
		c.require(ok, rule, "newPeer", "peer.config is the argument", p.InstrPos(r.Instr), "the stored configuration is the config argument, unmodified (the registry key is derived from both); got "+got)
	}
	c.floor(rule, n, 1, "returns of newPeer")
	for _, fn := range p.FuncSeq {
		for _, acc := range p.fieldAccesses(fn) {
			if acc.Struct == "peer" && acc.Field == "config" && acc.Write {
				c.require(isFreshWrite(acc) && p.ownerName(fn) == "newPeer", rule, p.Name(fn), "write of peer.config", p.InstrPos(acc.Instr), "a peer's configuration is set once, by its constructor")
			}
			if acc.Struct == "PeerConfig" && acc.Write && !isFreshWrite(acc) {
				c.fail(rule, p.Name(fn), "write of PeerConfig."+acc.Field, p.InstrPos(acc.Instr), "a stored peer configuration is never modified in place")
			}
		}
	}
}

// optionSettersVerbatim: every PeerOption constructor With<X>(arg) returns an
// option whose apply stores its argument into its field on every path,
// unconditionally and unchanged (WithHoldTime: seconds*time.Second;
// WithPassive: true). An option that drops or rewrites some argument values
// (an unspecified local address "treated as unset", a port truncated to 16
// bits) silently changes which connections are accepted or dialled.
func (c *Check) optionSettersVerbatim(rule string) {
	p := c.P
	n := 0
	for _, name := range sortedKeys(p.Funcs) {
		top := p.Funcs[name]
		if top.Parent() != nil || !strings.HasPrefix(name, "With") || top.Signature.Recv() != nil {
			continue
		}
		res := top.Signature.Results()
		if res.Len() != 1 || typeKey(res.At(0).Type()) != "PeerOption" {
			continue
		}
		for _, cl := range top.AnonFuncs {
			if len(cl.Params) != 1 || structNameOfPtr(cl.Params[0].Type()) != "peerOptions" {
				continue
			}
			n++
			a := NewAnalysis(p, cl)
			a.Init = p.closureInit(cl)
			a.Run()
			o := paramExpr(cl, 0)
			okAll := len(a.Returns) > 0 && len(a.Undecided) == 0
			detail := ""
			for _, r := range a.Returns {
				st := r.State
				stored := 0
				for k, v := range st.mem {
					me := st.memE[k]
					if me == nil || me.Op != "fa" || me.Args[0].Key != o.Key {
						continue
					}
					stored++
					// the value: the captured argument itself (possibly through
					// a value-preserving conversion), a constant, or a linear
					// function of the argument with a constant factor
					x := v
					for x.Op == "conv" {
						if !st.rangeOf(x.Args[0]).SubsetOf(typeRange(x.Typ)) {
							okAll, detail = false, "the argument is narrowed by a conversion that can change it: "+trunc(v.Key, 60)
						}
						x = x.Args[0]
					}
					switch {
					case x.Op == "free" || x.Op == "param":
					case x.Op == "ld" && (x.Args[0].Op == "free" || x.Args[0].Op == "alloc"):
					case x.Op == "const" || x.Op == "bool" || x.Op == "closure" || x.Op == "fn":
					default:
						if _, isC := x.IsConst(); isC {
							break
						}
						l := st.linOf(v)
						if len(l.T) == 1 && l.C == 0 {
							break
						}
						okAll, detail = false, "stored value is not the argument: "+trunc(v.Key, 60)
					}
				}
				if stored != 1 {
					okAll = false
					if detail == "" {
						detail = fmt.Sprintf("%d fields are known to be stored on a path to return (expected exactly 1, on every path)", stored)
					}
				}
			}
			c.require(okAll, rule, name, "option stores its argument unconditionally", p.Pos(cl.Pos()), "apply sets exactly one field, on every path, to the constructor's argument "+detail)
		}
	}
	c.floor(rule, n, 6, "PeerOption constructors")
}

// routerIDAccepted: NewServer accepts exactly IPv4 router ids (the 32-bit BGP
// Identifier of every OPEN is read from the address's 4-octet form).
func (c *Check) routerIDAccepted(rule string) {
	c.runCases(rule, "NewServer", []asmCase{
		{name: "router id not IPv4 => rejected", hook: rangeHook(func(e *Expr) bool { return isCallNamed(e, "netip.Addr.Is4") }, isConst(0)), forbid: forbidAccept},
		{name: "router id IPv4 => accepted", hook: rangeHook(func(e *Expr) bool { return isCallNamed(e, "netip.Addr.Is4") }, isConst(1)), forbid: func(rs retSite) string {
			if !isAccept(rs) {
				return "rejected"
			}
			return ""
		}},
	})
}

// checkThenActAtomic: AddPeer's existence test and insert, and DeletePeer's
// existence test and delete, are one critical section: the test is made by the
// function itself (or a helper it runs under its own lock), and Server.mu is
// not released between the test and the update. Two overlapping AddPeer calls
// for one address otherwise both pass the test, and two peer managers run.
func (c *Check) checkThenActAtomic(rule string) {
	p := c.P
	isPeersMap := func(v ssa.Value) bool {
		m, ok := v.Type().Underlying().(*types.Map)
		return ok && typeKey(m.Elem()) == "*peer"
	}
	for _, name := range []string{"Server.AddPeer", "Server.DeletePeer"} {
		fn := p.Fn(name)
		if fn == nil {
			continue
		}
		var lookups, updates []ssa.Instruction
		allInstrs(fn, func(in ssa.Instruction) {
			switch x := in.(type) {
			case *ssa.Lookup:
				if isPeersMap(x.X) {
					lookups = append(lookups, in)
				}
			case *ssa.MapUpdate:
				if isPeersMap(x.Map) {
					updates = append(updates, in)
				}
			case *ssa.Call:
				if b, ok := x.Call.Value.(*ssa.Builtin); ok && b.Name() == "delete" && len(x.Call.Args) > 0 && isPeersMap(x.Call.Args[0]) {
					updates = append(updates, in)
				}
			}
		})
		if len(updates) == 0 {
			c.undecided(rule, name, "registry update", p.Pos(fn.Pos()), "no insert into / delete from the registry map found in this function or its helpers")
			continue
		}
		isUpdate := func(y ssa.Instruction) bool {
			for _, u := range updates {
				if y == u {
					return true
				}
			}
			return false
		}
		isUnlock := func(y ssa.Instruction) bool {
			cl, ok := y.(*ssa.Call)
			return ok && p.calleeDesc(cl) == "sync.Mutex.Unlock"
		}
		ok := len(lookups) > 0
		detail := "the existence test is a lookup made in the same critical section as the update"
		if !ok {
			detail = "no lookup of the registry map in this function: the existence test is made elsewhere, under a lock that was released again"
		}
		var unlocks []ssa.Instruction
		allInstrs(fn, func(in ssa.Instruction) {
			if isUnlock(in) {
				unlocks = append(unlocks, in)
			}
		})
		for _, l := range lookups {
			for _, u := range unlocks {
				// this Unlock can follow the test before any update, and an
				// update can still follow it
				isU := func(y ssa.Instruction) bool { return y == u }
				if pathSearch(fn, l, isU, isUpdate) != nil && pathSearch(fn, u, isUpdate, nil) != nil {
					ok = false
					detail = "Server.mu is released at " + p.InstrPos(u) + " between the existence test and the update"
				}
			}
		}
		pos := p.Pos(fn.Pos())
		if len(lookups) > 0 {
			pos = p.InstrPos(lookups[0])
		}
		c.require(ok, rule, name, "existence test and update are one critical section", pos, detail)
	}
}
