package main

// Reader-side rules shared by C03 (delivery), C08 (header validation and
// framing) and the shutdown properties.

import (
	"fmt"
	"go/constant"
	"go/token"
	"go/types"
	"strings"

	"golang.org/x/tools/go/ssa"
)

// chanMakeSize returns the constant buffer size of the channel stored into
// field `name` in fn (or -1).
func (p *Prog) chanMakeSizes(fn *ssa.Function) map[string]int64 {
	out := map[string]int64{}
	allInstrs(fn, func(in ssa.Instruction) {
		st, ok := in.(*ssa.Store)
		if !ok {
			return
		}
		fa, ok := st.Addr.(*ssa.FieldAddr)
		if !ok {
			return
		}
		mc, ok := st.Val.(*ssa.MakeChan)
		if !ok {
			return
		}
		sz := int64(-1)
		if c, ok := mc.Size.(*ssa.Const); ok && c.Value != nil {
			if v, ok := constant.Int64Val(constant.ToInt(c.Value)); ok {
				sz = v
			}
		}
		out[structFieldName(fa)] = sz
	})
	return out
}

// connUses checks that values loaded from a `conn` field (net.Conn) are only
// used through the allowed operations.
func (c *Check) connUses(rule string) {
	p := c.P
	allowedInvoke := map[string]bool{"Write": true, "Close": true, "RemoteAddr": true, "LocalAddr": true}
	n := 0
	var fn *ssa.Function
	var uses func(v ssa.Value, depth int)
	uses = func(v ssa.Value, depth int) {
		if v.Referrers() == nil {
			return
		}
		for _, r := range *v.Referrers() {
			n++
			pos := p.InstrPos(r)
			switch x := r.(type) {
			case ssa.CallInstruction:
				cc := x.Common()
				d := p.calleeDesc(x)
				switch {
				case cc.IsInvoke() && cc.Value == v:
					c.require(allowedInvoke[cc.Method.Name()], rule, p.Name(fn), "conn."+cc.Method.Name(), pos,
						"a session connection is only written with Write, closed, or asked for its addresses; reading goes through io.ReadFull in the reader goroutine")
				case d == "io.ReadFull":
					c.require(p.Name(fn) == "fsm.read", rule, p.Name(fn), "io.ReadFull(conn)", pos, "only the reader goroutine reads the connection")
				case p.helperCallee(r) != nil && depth < 4:
					// a helper of this tree: its parameter is used under the same discipline
					h := p.helperCallee(r)
					for k, arg := range cc.Args {
						if arg == v && k < len(h.Params) {
							uses(h.Params[k], depth+1)
						}
					}
				default:
					c.fail(rule, p.Name(fn), "conn passed to "+d, pos, "the connection is handed to "+d+": bytes could be read or written outside the framed Write / io.ReadFull discipline")
				}
			case *ssa.Store:
				fa2, ok := x.Addr.(*ssa.FieldAddr)
				okS := ok && structFieldName(fa2) == "conn"
				c.require(okS, rule, p.Name(fn), "conn stored", pos, "the connection is stored only into the writer's conn field")
			case *ssa.BinOp, *ssa.DebugRef, *ssa.MakeInterface, *ssa.ChangeInterface:
				if mi, ok := r.(*ssa.MakeInterface); ok {
					// conversion to io.Reader for io.ReadFull
					for _, rr := range *mi.Referrers() {
						if ci, ok := rr.(ssa.CallInstruction); !ok || p.calleeDesc(ci) != "io.ReadFull" {
							c.fail(rule, p.Name(fn), "conn converted", pos, "connection converted to an interface and used outside io.ReadFull")
						}
					}
				}
				if ci, ok := r.(*ssa.ChangeInterface); ok {
					for _, rr := range *ci.Referrers() {
						cinst, isCall := rr.(ssa.CallInstruction)
						if !isCall || p.calleeDesc(cinst) != "io.ReadFull" || p.Name(fn) != "fsm.read" {
							c.fail(rule, p.Name(fn), "conn converted", p.InstrPos(rr), "connection converted to io.Reader and used outside io.ReadFull in the reader goroutine")
						} else {
							c.ok(rule, p.Name(fn), "io.ReadFull(conn)", p.InstrPos(rr), "only the reader goroutine reads the connection, with io.ReadFull")
						}
					}
				}
			default:
				c.fail(rule, p.Name(fn), fmt.Sprintf("conn used by %T", r), pos, "unexpected use of the session connection")
			}
		}
	}
	for _, fn = range p.FuncSeq {
		allInstrs(fn, func(in ssa.Instruction) {
			ld, ok := in.(*ssa.UnOp)
			if !ok || ld.Op != token.MUL {
				return
			}
			fa, ok := ld.X.(*ssa.FieldAddr)
			if !ok || structFieldName(fa) != "conn" {
				return
			}
			if !strings.HasSuffix(ld.Type().String(), "net.Conn") {
				return
			}
			uses(ld, 0)
		})
	}
	c.floor(rule, n, 10, "uses of values loaded from conn fields")
}

// readerRules are the C03/C08 rules on fsm.read and messageFromBytes.
func (c *Check) readerFraming(rule string) {
	p := c.P
	fn := p.Fn("fsm.read")
	if fn == nil {
		return
	}
	hdrLen := p.MustConst("headerLength")
	maxLen := p.MustConst("maxMessageLength")
	c.require(hdrLen == 19 && maxLen == 4096, rule, "fsm.read", "constants", p.Pos(fn.Pos()), fmt.Sprintf("headerLength=%d (want 19), maxMessageLength=%d (want 4096)", hdrLen, maxLen))

	a := NewAnalysis(p, fn)
	a.Run()
	for _, u := range a.Undecided {
		c.undecided(rule, "fsm.read", "analysis", p.Pos(fn.Pos()), u)
	}
	// io.ReadFull sites and their buffers
	rf := p.callsIn(fn, descIs("io.ReadFull"))
	c.require(len(rf) == 2, rule, "fsm.read", "io.ReadFull sites", p.Pos(fn.Pos()), fmt.Sprintf("exactly two reads per message: header then body (found %d)", len(rf)))
	var lenTerm *Expr
	sawHeader, sawBody := false, false
	for _, cl := range rf {
		for i, st := range a.At[cl.(ssa.Instruction)] {
			args := a.argExprs(st, nil, cl.Common())
			buf := args[1]
			root, lo, hi := sliceParts(buf)
			pos := p.InstrPos(cl.(ssa.Instruction))
			switch {
			case root.Op == "arr":
				// constant-size buffer: the header
				okH := root.C == 19 && lo == nil
				if hi != nil {
					hv, isC := hi.IsConst()
					okH = okH && isC && hv == 19
				}
				if i == 0 {
					c.require(okH && inLoop(cl.Block()), rule, "fsm.read", "header read", pos, "the header of every message is read with io.ReadFull into a 19-byte buffer (it is parsed, never handed on: only the body buffer must be per message)")
				}
				sawHeader = true
			case root.Op == "makeslice":
				sz := root.Args[0]
				r := st.rangeOf(sz)
				okB := r.SubsetOf(isRange(0, 4077)) && lo == nil && hi == nil
				c.require(okB, rule, "fsm.read", "body read", pos, fmt.Sprintf("body buffer length ∈ %s must be within [0,4077]", r))
				c.require(allocInLoop(cl.Common().Args[1]), "C03.3 delivered-slice-private", "fsm.read", "body buffer per message", pos, "the body buffer is allocated inside the loop iteration (never reused for the next message)")
				// the size term must be be16(header,16) - 19
				l := st.linOf(sz)
				okT := len(l.T) == 1 && l.C == -19
				for k, coef := range l.T {
					e := l.E[k]
					if coef != 1 || !isCallNamed(e, "be16") {
						okT = false
					} else {
						off, isC := e.Args[1].IsConst()
						if !isC || off != 16 || e.Args[0].Op != "arr" || e.Args[0].C != 19 {
							okT = false
						}
						lenTerm = e
					}
				}
				c.require(okT, rule, "fsm.read", "body length term", pos, "body length is the big-endian uint16 at header[16:18] minus 19; got "+trunc(sz.Key, 100))
				sawBody = true
			default:
				c.fail(rule, "fsm.read", "read buffer", pos, "io.ReadFull into a buffer that is neither the header nor a per-message body allocation: "+trunc(buf.Key, 80))
			}
		}
	}
	c.require(sawHeader && sawBody, rule, "fsm.read", "header+body", p.Pos(fn.Pos()), "both a header and a body read are reachable")

	// Bad Message Length (1,2): exactly for L<19 or L>4096
	isLen := func(e *Expr) bool { return isCallNamed(e, "be16") }
	badLen := func(rs *State, in ssa.Instruction) bool { return false }
	_ = badLen
	type want struct {
		name       string
		hook       func(e *Expr) (ISet, bool)
		bodyReach  bool
		notif12    bool
		markerOnly bool
	}
	allFF := func(e *Expr) bool {
		return e.Op == "ld" && e.Args[0].Op == "ia" && e.Args[0].Args[0].Op == "arr" && e.Args[0].Args[0].C == 19
	}
	// events of the whole run (offers are followed by a return, so the union
	// of the may-sets at the returns covers them); helpers are inlined, so the
	// events are seen wherever the select physically lives
	readerEvents := func(st *State, desc string, args []*Expr) string {
		switch desc {
		case "offer:readerErrCh":
			ec := p.classifyErr(st, args[0])
			if ec.Notif != nil {
				if o, isC := ec.Out.IsConst(); !isC || o != 1 {
					return "?" // a notification the FSM would not send
				}
				cc, ok1 := ec.Notif.Code.IsConst()
				sb, ok2 := ec.Notif.Sub.IsConst()
				if ok1 && ok2 {
					return fmt.Sprintf("%d,%d", cc, sb)
				}
				return "?"
			}
			return "plain"
		case "io.ReadFull":
			if len(args) == 2 {
				if r, _, _ := sliceParts(args[1]); r.Op == "makeslice" {
					return "body"
				}
				return "header"
			}
		case "offer:readerMsgCh":
			// what is handed to the FSM is what messageFromBytes made of
			// (body, header[18]) -- the only place the type octet is checked
			v := args[0]
			if exIdx(v) == 0 && (v.Args[0].Op == "rcall" || v.Args[0].Op == "call") && v.Args[0].S == "messageFromBytes" {
				cl := v.Args[0]
				as := cl.Args
				if cl.Op == "rcall" {
					as = as[1:]
				}
				if len(as) == 2 {
					r, lo, hi := sliceParts(as[0])
					t := as[1]
					okB := r.Op == "makeslice" && lo == nil && hi == nil
					okT := t.Op == "ld" && t.Args[0].Op == "ia" && t.Args[0].Args[0].Op == "arr" && t.Args[0].Args[0].C == 19
					if okT {
						iv, isC := t.Args[0].Args[1].IsConst()
						okT = isC && iv == 18
					}
					if okB && okT {
						return "decoded"
					}
				}
			}
			return "other " + trunc(v.Key, 300)
		}
		return ""
	}
	allEvents := func(a *Analysis) map[string]bool {
		out := map[string]bool{}
		for _, r := range a.Returns {
			for k := range r.State.may {
				out[k] = true
			}
		}
		return out
	}
	mustNot := func(a *Analysis, pred func(code, sub int64) bool) (bool, string) {
		for ev := range allEvents(a) {
			var cc, sb int64
			if n, _ := fmt.Sscanf(ev, "offer:readerErrCh(%d,%d)", &cc, &sb); n == 2 && pred(cc, sb) {
				return false, fmt.Sprintf("(%d,%d) offered", cc, sb)
			}
			if ev == "offer:readerErrCh(?)" {
				return false, "a notification with non-constant code offered"
			}
		}
		return true, ""
	}
	bodyReadReachable := func(a *Analysis) bool { return allEvents(a)["call:io.ReadFull(body)"] }
	msgSendReachable := func(a *Analysis) bool { return allEvents(a)["offer:readerMsgCh"] }
	// the sixteen marker octets (with the marker loop unrolled the index is a
	// constant; the length octets 16, 17 and the type octet are not marker)
	ffHook := func(e *Expr) (ISet, bool) {
		if !allFF(e) {
			return nil, false
		}
		if iv, isC := e.Args[0].Args[1].IsConst(); isC && (iv < 0 || iv > 15) {
			return nil, false
		}
		return isConst(255), true
	}
	// which read failed: the header read fills the 19-octet array, the body
	// read a slice made for the message
	readErr := func(header bool, fails bool) func(e *Expr) (ISet, bool) {
		return func(e *Expr) (ISet, bool) {
			if e.Op != "nn" || e.Args[0].Op != "ex" || len(e.Args[0].Args) == 0 {
				return nil, false
			}
			rc := e.Args[0].Args[0]
			if rc.Op != "rcall" || rc.S != "io.ReadFull" || len(rc.Args) == 0 {
				return nil, false
			}
			root, _, _ := sliceParts(rc.Args[len(rc.Args)-1])
			if (root.Op == "arr") != header {
				return nil, false
			}
			return isConst(b2i(fails)), true
		}
	}
	decodeErr := func(fails bool) func(e *Expr) (ISet, bool) { return nnResult("messageFromBytes", fails) }
	okHeader := hooks(readErr(true, false), ffHook, rangeHook(isLen, isRange(20, 4096)))
	onlyPlainErr := func(a *Analysis) (bool, string) {
		evs := allEvents(a)
		if evs["call:io.ReadFull(body)"] && false {
			return false, ""
		}
		if msgSendReachable(a) {
			return false, "a message is handed over although the read failed"
		}
		offered := false
		for ev := range evs {
			if strings.HasPrefix(ev, "offer:readerErrCh(") {
				offered = true
				if ev != "offer:readerErrCh(plain)" {
					return false, "something other than the read error is reported: " + ev
				}
			}
		}
		if !offered {
			return false, "the read error is never reported to the FSM"
		}
		return true, ""
	}
	for _, w := range []struct {
		name string
		hook func(e *Expr) (ISet, bool)
		chk  func(a *Analysis) (bool, string)
	}{
		{"length in [19,4096] => never Bad Message Length", hooks(rangeHook(isLen, isRange(19, 4096)), ffHook), func(a *Analysis) (bool, string) {
			return mustNot(a, func(cd, sb int64) bool { return cd == 1 && sb == 2 })
		}},
		{"length < 19 => body never read, nothing delivered", hooks(rangeHook(isLen, isRange(0, 18)), ffHook), func(a *Analysis) (bool, string) {
			if bodyReadReachable(a) || msgSendReachable(a) {
				return false, "body read or message hand-off reachable"
			}
			ok, _ := mustNot(a, func(cd, sb int64) bool { return cd == 1 && sb == 2 })
			if ok {
				return false, "Bad Message Length is never offered"
			}
			return mustNot(a, func(cd, sb int64) bool { return !(cd == 1 && sb == 2) })
		}},
		{"length > 4096 => body never read, nothing delivered", hooks(rangeHook(isLen, isRange(4097, 65535)), ffHook), func(a *Analysis) (bool, string) {
			if bodyReadReachable(a) || msgSendReachable(a) {
				return false, "body read or message hand-off reachable"
			}
			ok, _ := mustNot(a, func(cd, sb int64) bool { return cd == 1 && sb == 2 })
			if ok {
				return false, "Bad Message Length is never offered"
			}
			return mustNot(a, func(cd, sb int64) bool { return !(cd == 1 && sb == 2) })
		}},
		{"header read fails => the error is reported, nothing else happens", readErr(true, true), func(a *Analysis) (bool, string) {
			if bodyReadReachable(a) {
				return false, "the body is read after a failed header read"
			}
			return onlyPlainErr(a)
		}},
		{"valid header, body read fails => the error is reported, nothing delivered", hooks(okHeader, readErr(false, true)), onlyPlainErr},
		{"valid header, body read, decode fails => the decode error is reported, nothing delivered", hooks(okHeader, readErr(false, false), decodeErr(true)), func(a *Analysis) (bool, string) {
			if msgSendReachable(a) {
				return false, "a message is handed over although decoding failed"
			}
			for ev := range allEvents(a) {
				if strings.HasPrefix(ev, "offer:readerErrCh(") {
					return true, ""
				}
			}
			return false, "the decode error is never reported to the FSM"
		}},
		{"valid header, body read and decoded => the message is delivered, no error reported", hooks(okHeader, readErr(false, false), decodeErr(false)), func(a *Analysis) (bool, string) {
			if !msgSendReachable(a) {
				return false, "the message is never handed over"
			}
			for ev := range allEvents(a) {
				if strings.HasPrefix(ev, "offer:readerErrCh") {
					return false, "an error is reported for a message that was read and decoded: " + ev
				}
			}
			// the body was read before the hand-off
			for in, sts := range a.At {
				sel, isSel := in.(*ssa.Select)
				if !isSel {
					continue
				}
				hands := false
				for _, ss := range sel.States {
					if ss.Send != nil && chanFieldName(ss.Chan) == "readerMsgCh" {
						hands = true
					}
				}
				for _, st := range sts {
					if hands && !st.must["call:io.ReadFull(body)"] {
						return false, "the message is handed over without its body having been read"
					}
				}
			}
			return true, ""
		}},
		{"marker all 0xFF => never Connection Not Synchronized", ffHook, func(a *Analysis) (bool, string) {
			return mustNot(a, func(cd, sb int64) bool { return cd == 1 && sb == 1 })
		}},
		{"marker octets != 0xFF => nothing read further or delivered", rangeHook(allFF, isRange(0, 254)), func(a *Analysis) (bool, string) {
			if bodyReadReachable(a) || msgSendReachable(a) {
				return false, "body read or message hand-off reachable with a corrupt marker"
			}
			return mustNot(a, func(cd, sb int64) bool { return !(cd == 1 && sb == 1) })
		}},
	} {
		b := NewAnalysis(p, fn)
		b.AtomHook = w.hook
		b.EventArgs = readerEvents
		b.Unroll = 16
		b.Run()
		if len(b.Undecided) > 0 {
			c.undecided("C08.1 header-validation", "fsm.read", w.name, p.Pos(fn.Pos()), b.Undecided[0])
			continue
		}
		ok, d := w.chk(b)
		c.require(ok, "C08.1 header-validation", "fsm.read", w.name, p.Pos(fn.Pos()), d)
	}
	_ = lenTerm
	{
		b := NewAnalysis(p, fn)
		b.EventArgs = readerEvents
		b.Run()
		nd, bad := 0, ""
		for ev := range allEvents(b) {
			if ev == "offer:readerMsgCh(decoded)" {
				nd++
			} else if strings.HasPrefix(ev, "offer:readerMsgCh(") {
				bad = ev
			}
		}
		c.require(nd > 0 && bad == "", "C08.1 header-validation", "fsm.read", "only decoded messages are handed over", p.Pos(fn.Pos()),
			"every value offered on readerMsgCh is the result of messageFromBytes(whole body, header[18]) (the type octet check lives there; a hand-off that bypasses it interprets an unknown type) "+bad)
	}

	// each single corrupt marker octet is a fault: with octet k different
	// from 0xFF and the other fifteen equal to it, nothing further is read or
	// delivered and (1,1) is the only thing offered. The marker loop is
	// unrolled by the engine, so the index of each load is a constant; when it
	// is not (another loop form) the structural rule below decides instead.
	semantic := true
	for k := int64(0); k < 16 && semantic; k++ {
		symbolic := false
		b := NewAnalysis(p, fn)
		b.Unroll = 16
		b.EventArgs = readerEvents
		b.AtomHook = func(e *Expr) (ISet, bool) {
			if !allFF(e) {
				return nil, false
			}
			iv, isC := e.Args[0].Args[1].IsConst()
			switch {
			case !isC:
				symbolic = true
				return nil, false
			case iv == k:
				return isRange(0, 254), true
			case iv >= 0 && iv < 16:
				return isConst(255), true
			}
			return nil, false
		}
		b.Run()
		if symbolic || len(b.Undecided) > 0 {
			semantic = false
			break
		}
		okK, d := mustNot(b, func(cd, sb int64) bool { return !(cd == 1 && sb == 1) })
		if bodyReadReachable(b) || msgSendReachable(b) {
			okK, d = false, "body read or message hand-off reachable"
		}
		if never, _ := mustNot(b, func(cd, sb int64) bool { return cd == 1 && sb == 1 }); never {
			okK, d = false, "Connection Not Synchronized is never offered"
		}
		c.require(okK, "C08.1 header-validation", "fsm.read", fmt.Sprintf("marker octet %d != 0xFF (the others 0xFF) => (1,1), nothing read further or delivered", k), p.Pos(fn.Pos()), d)
	}
	// marker loop covers indices [0,16)
	okLoop := semantic || markerLoopCovers(fn, func(ia *ssa.IndexAddr) bool {
		// the octet is loaded, compared with 0xFF, and the "differs" outcome
		// leads to the error hand-off without any further condition (a
		// comparison that only counts for some indices is not a check of
		// every octet)
		for _, r := range *ia.Referrers() {
			ld, ok := r.(*ssa.UnOp)
			if !ok {
				continue
			}
			for _, rr := range *ld.Referrers() {
				bo, ok := rr.(*ssa.BinOp)
				if !ok || (bo.Op != token.NEQ && bo.Op != token.EQL) {
					continue
				}
				if cst, isC := bo.Y.(*ssa.Const); !isC || cst.Value == nil || cst.Int64() != 255 {
					continue
				}
				for _, u := range *bo.Referrers() {
					iff, isIf := u.(*ssa.If)
					if !isIf {
						continue
					}
					blk := iff.Block().Succs[0]
					if bo.Op == token.EQL {
						blk = iff.Block().Succs[1]
					}
					// straight-line path to the select that offers the error
					for steps := 0; steps < 6 && blk != nil; steps++ {
						last := blk.Instrs[len(blk.Instrs)-1]
						found := false
						for _, in := range blk.Instrs {
							if sel, isSel := in.(*ssa.Select); isSel {
								for _, ss := range sel.States {
									if ss.Send != nil && chanFieldName(ss.Chan) == "readerErrCh" {
										found = true
									}
								}
							}
							if h := curProg.helperCallee(in); h != nil {
								// the hand-off may live in a helper (offerErr)
								allInstrs(h, func(x ssa.Instruction) {
									if sel, isSel := x.(*ssa.Select); isSel {
										for _, ss := range sel.States {
											if ss.Send != nil && chanFieldName(ss.Chan) == "readerErrCh" {
												found = true
											}
										}
									}
								})
							}
						}
						if found {
							return true
						}
						if _, isJ := last.(*ssa.Jump); isJ {
							blk = blk.Succs[0]
							continue
						}
						break
					}
				}
			}
		}
		return false
	})
	c.require(okLoop, "C08.1 header-validation", "fsm.read", "marker loop", p.Pos(fn.Pos()), "a step-1 loop over indices 0..15 compares every marker octet of the header")

	// after offering an error the reader returns without reading again
	var rinstrs []ssa.Instruction
	allInstrs(fn, func(in ssa.Instruction) { rinstrs = append(rinstrs, in) })
	{
		for _, in := range rinstrs {
			sel, ok := in.(*ssa.Select)
			if !ok {
				continue
			}
			isErr := false
			for _, ss := range sel.States {
				if ss.Dir == types.SendOnly && chanFieldName(ss.Chan) == "readerErrCh" {
					isErr = true
				}
			}
			if !isErr {
				continue
			}
			hit := pathSearch(fn, in, func(x ssa.Instruction) bool {
				if ci, ok := x.(ssa.CallInstruction); ok && p.calleeDesc(ci) == "io.ReadFull" {
					return true
				}
				if s2, ok := x.(*ssa.Select); ok && s2 != sel {
					return true
				}
				return false
			}, nil)
			c.require(hit == nil, "C08.1 nothing-after-fault", "fsm.read", "select offering reader error", p.InstrPos(in), "after a fault is reported the reader returns: no further read or hand-off is reachable")
		}
	}
}

// readerHandoff: per-connection rendezvous channels and a re-armed Once.
func (c *Check) readerHandoff() { c.readerHandoffRule("C03.2 reader-handoff") }

func (c *Check) readerHandoffRule(rule string) {
	p := c.P
	// channels are rendezvous channels: a buffered message channel would let a
	// later fault overtake earlier messages
	if sr := p.Fn("fsm.startReading"); sr != nil {
		sz := p.chanMakeSizes(sr)
		for _, ch := range []string{"readerMsgCh", "readerErrCh", "closeReaderCh", "readerDoneCh"} {
			v, ok := sz[ch]
			c.require(ok && v == 0, rule, "fsm.startReading", "channel "+ch, p.Pos(sr.Pos()), "created per connection in startReading, unbuffered (a buffered hand-off lets a fault or close overtake queued messages)")
		}
		// the Once guarding close(closeReaderCh) is re-armed together with the channel
		re := false
		allInstrs(sr, func(in ssa.Instruction) {
			if st, ok := in.(*ssa.Store); ok {
				if fa, ok := st.Addr.(*ssa.FieldAddr); ok && structFieldName(fa) == "closeReaderOnce" {
					re = true
				}
			}
		})
		c.require(re, rule, "fsm.startReading", "closeReaderOnce re-armed", p.Pos(sr.Pos()), "the sync.Once guarding close(closeReaderCh) is reset whenever a new closeReaderCh is created (the FSM object is reused across connections)")
	}
}

// allocInLoop reports whether the buffer value (slice of new array, or
// makeslice) is allocated in a block that lies on a cycle.
func allocInLoop(v ssa.Value) bool {
	for i := 0; i < 4; i++ {
		switch x := v.(type) {
		case *ssa.Slice:
			v = x.X
		case *ssa.Alloc:
			return inLoop(x.Block())
		case *ssa.MakeSlice:
			return inLoop(x.Block())
		default:
			return false
		}
	}
	return false
}

// countedLoop recognises i := lo; i < hi; i++ from the loop phi.
func countedLoop(phi *ssa.Phi) (lo, hi int64, ok bool) {
	b := phi.Block()
	if len(phi.Edges) != 2 {
		return 0, 0, false
	}
	var init *ssa.Const
	var step ssa.Value
	for i, e := range phi.Edges {
		if b.Dominates(b.Preds[i]) {
			step = e
		} else if cst, isC := e.(*ssa.Const); isC {
			init = cst
		}
	}
	if init == nil || step == nil || init.Value == nil {
		return 0, 0, false
	}
	bo, isB := step.(*ssa.BinOp)
	if !isB || bo.Op != token.ADD || bo.X != ssa.Value(phi) {
		return 0, 0, false
	}
	one, isC := bo.Y.(*ssa.Const)
	if !isC || one.Value == nil || one.Int64() != 1 {
		return 0, 0, false
	}
	// exit condition in the phi's block: phi < const
	iff, isIf := b.Instrs[len(b.Instrs)-1].(*ssa.If)
	if !isIf {
		return 0, 0, false
	}
	cmp, isB := iff.Cond.(*ssa.BinOp)
	if !isB || cmp.Op != token.LSS || cmp.X != ssa.Value(phi) {
		return 0, 0, false
	}
	lim, isC := cmp.Y.(*ssa.Const)
	if !isC || lim.Value == nil {
		return 0, 0, false
	}
	return init.Int64(), lim.Int64(), true
}

// messageDispatch: C08 type dispatch and C03 copy of the UPDATE body.
func (c *Check) messageDispatch(rule string) {
	p := c.P
	fn := p.Fn("messageFromBytes")
	if fn == nil {
		return
	}
	typ := func(e *Expr) bool { return isParamNamed(e, paramName(fn, 1)) }
	known := isRange(1, 4)
	c.runCases(rule, "messageFromBytes", []asmCase{
		{name: "type in 1..4 => never Bad Message Type", hook: rangeHook(typ, known), forbid: forbidNotif(1, 3)},
		{name: "type outside 1..4 => only Bad Message Type", hook: rangeHook(typ, isRange(0, 255).Minus(known)), forbid: func(rs retSite) string {
			if notifIs(rs, 1, 3) && rs.ec.Kind == "notificationError" {
				if o, ok := rs.ec.Out.IsConst(); ok && o == 1 {
					// data: one octet holding the type
					d := rs.ec.Notif.Data
					okD := false
					if d != nil && d.Op == "makeslice" {
						if n, isC := d.Args[0].IsConst(); isC && n == 1 {
							for k, v := range rs.rs.State.mem {
								if me := rs.rs.State.memE[k]; me != nil && me.Op == "ia" && strings.Contains(me.Key, d.Args[1].Key) && typ(v) {
									okD = true
								}
							}
						}
					}
					if !okD {
						root, _, _ := sliceParts(d)
						if root != nil && root.Op == "arr" && root.C == 1 {
							for k, v := range rs.rs.State.mem {
								if me := rs.rs.State.memE[k]; me != nil && me.Op == "ia" && me.Args[0].Key == root.Key && typ(v) {
									okD = true
								}
							}
						}
					}
					if okD {
						return ""
					}
					return "Bad Message Type data is not the single offending type octet"
				}
			}
			return "a return other than notificationError{(1,3), out=true} is reachable: " + rs.ec.Kind
		}},
	})
}

// messageResults: what messageFromBytes returns per known type.
func (c *Check) messageResults(rule string) {
	p := c.P
	fn := p.Fn("messageFromBytes")
	if fn == nil || !c.sig(rule, fn, 2) {
		return
	}
	b := paramExpr(fn, 0)
	typ := func(e *Expr) bool { return isParamNamed(e, paramName(fn, 1)) }
	type kase struct {
		name    string
		typ     int64
		decoder string
		fails   bool
		iface   string
	}
	for _, k := range []kase{
		{"OPEN decoded => that OPEN, no error", p.MustConst("openMessageType"), "openMessage.decode", false, "*openMessage"},
		{"OPEN decode error => nil message, that error", p.MustConst("openMessageType"), "openMessage.decode", true, ""},
		{"NOTIFICATION decoded => that NOTIFICATION, no error", p.MustConst("notificationMessageType"), "Notification.decode", false, "*Notification"},
		{"NOTIFICATION decode error => nil message, that error", p.MustConst("notificationMessageType"), "Notification.decode", true, ""},
		{"KEEPALIVE => a keepalive message, no error", p.MustConst("keepAliveMessageType"), "", false, "*keepAliveMessage"},
		{"UPDATE => a copy of the whole body, no error", p.MustConst("updateMessageType"), "", false, "updateMessage"},
	} {
		a := NewAnalysis(p, fn)
		h := rangeHook(typ, isConst(k.typ))
		if k.decoder != "" {
			h = hooks(h, nnResult(k.decoder, k.fails))
		}
		a.AtomHook = h
		a.Run()
		ok := len(a.Returns) > 0 && len(a.Undecided) == 0
		detail := ""
		for _, r := range a.Returns {
			if len(r.Results) != 2 {
				ok = false
				continue
			}
			m, e := r.Results[0], r.Results[1]
			st := r.State
			if k.fails {
				if !m.IsNil() {
					ok, detail = false, "a message is returned together with a decode error"
				}
				if !(e.Op == "rcall" || e.Op == "ex") || !strings.Contains(e.Key, k.decoder) {
					ok, detail = false, "the error returned is not the decoder's: "+trunc(e.Key, 60)
				}
				continue
			}
			if !e.IsNil() {
				ok, detail = false, "an error is returned for a message that decoded"
			}
			if m.Op != "makeiface" || m.S != k.iface {
				ok, detail = false, "the message returned is not a "+k.iface+": "+trunc(m.Key, 60)
				continue
			}
			if k.decoder != "" {
				// the object the decoder filled
				if !st.must["call:"+k.decoder] || m.Args[0].Op != "alloc" {
					ok, detail = false, "the returned object is not the one the decoder filled"
				}
			}
			if k.iface == "updateMessage" {
				lay, lerr := st.layoutOf(m.Args[0], 0)
				if lerr != "" || len(lay) != 1 || lay[0].Kind != "bytes" || lay[0].Val == nil || lay[0].Val.Key != b.Key {
					ok, detail = false, "the UPDATE handed on is not a copy of the whole body (layout "+layoutString(lay)+" "+lerr+")"
				}
			}
		}
		c.require(ok, rule, "messageFromBytes", k.name, p.Pos(fn.Pos()), detail)
	}
}

// updateBodyPrivate: the slice delivered to the handler is private.
func (c *Check) updateBodyPrivate(rule string) {
	p := c.P
	fn := p.Fn("messageFromBytes")
	if fn == nil {
		return
	}
	a := NewAnalysis(p, fn)
	a.Run()
	b := paramExpr(fn, 0)
	copied := false
	n := 0
	for _, r := range a.Returns {
		if len(r.Results) != 2 || r.Results[0].Op != "makeiface" || r.Results[0].S != "updateMessage" {
			continue
		}
		n++
		inner := r.Results[0].Args[0]
		if inner.Op == "makeslice" {
			sz := r.State.linOf(inner.Args[0]).add(r.State.linOf(mkLen(b)), -1)
			if cv, ok := sz.isConst(); ok && cv == 0 && r.State.must["call:builtin:copy"] {
				copied = true
			}
		}
	}
	rd := p.Fn("fsm.read")
	perIter := false
	if rd != nil {
		for _, cl := range p.callsIn(rd, descIs("messageFromBytes")) {
			if allocInLoop(cl.Common().Args[0]) {
				perIter = true
			}
		}
	}
	c.floor(rule, n, 1, "updateMessage-producing returns of messageFromBytes")
	c.require(copied || perIter, rule, "messageFromBytes", "UPDATE body ownership", p.Pos(fn.Pos()),
		fmt.Sprintf("the delivered body is a fresh copy (copy=%v) or the reader's buffer is allocated per message (per-message=%v); otherwise the next read overwrites what the handler holds", copied, perIter))
}

// constLen resolves len(v) when it is a constant by construction.
func constLen(v ssa.Value) (int64, bool) {
	switch x := v.(type) {
	case *ssa.Slice:
		lo := int64(0)
		if x.Low != nil {
			c, ok := x.Low.(*ssa.Const)
			if !ok || c.Value == nil {
				return 0, false
			}
			lo = c.Int64()
		}
		if x.High != nil {
			c, ok := x.High.(*ssa.Const)
			if !ok || c.Value == nil {
				return 0, false
			}
			return c.Int64() - lo, true
		}
		if n, ok := constLen(x.X); ok {
			return n - lo, true
		}
	case *ssa.Alloc:
		if at, ok := x.Type().Underlying().(*types.Pointer).Elem().Underlying().(*types.Array); ok {
			return at.Len(), true
		}
	case *ssa.MakeSlice:
		if c, ok := x.Len.(*ssa.Const); ok && c.Value != nil {
			return c.Int64(), true
		}
	}
	if pt, ok := v.Type().Underlying().(*types.Pointer); ok {
		if at, ok := pt.Elem().Underlying().(*types.Array); ok {
			return at.Len(), true
		}
	}
	return 0, false
}

func constOrLen(v ssa.Value) (int64, bool) {
	if c, ok := v.(*ssa.Const); ok && c.Value != nil {
		return c.Int64(), true
	}
	if cl, ok := v.(*ssa.Call); ok {
		if b, isB := cl.Call.Value.(*ssa.Builtin); isB && b.Name() == "len" {
			return constLen(cl.Call.Args[0])
		}
	}
	return 0, false
}

// loopSpan returns the half-open interval of values an index takes in a
// step-1 counted loop, for the two shapes the compiler front end produces:
//
//	i := c0; i < N; i++          (idx is the phi)
//	for i := range x / for i, v := range x   (idx is phi+1 with phi starting at -1)
//
// together with the loop header block.
func loopSpan(idx ssa.Value) (lo, hi int64, head *ssa.BasicBlock, ok bool) {
	if phi, isPhi := idx.(*ssa.Phi); isPhi {
		if l, h, okc := countedLoopGen(phi); okc {
			return l, h, phi.Block(), true
		}
		return 0, 0, nil, false
	}
	bo, isB := idx.(*ssa.BinOp)
	if !isB || bo.Op != token.ADD {
		return 0, 0, nil, false
	}
	phi, isPhi := bo.X.(*ssa.Phi)
	one, isC := bo.Y.(*ssa.Const)
	if !isPhi || !isC || one.Value == nil || one.Int64() != 1 || len(phi.Edges) != 2 {
		return 0, 0, nil, false
	}
	b := phi.Block()
	start := int64(0)
	okShape := true
	for i, e := range phi.Edges {
		if b.Dominates(b.Preds[i]) {
			if e != ssa.Value(bo) {
				okShape = false
			}
		} else if c, isC := e.(*ssa.Const); isC && c.Value != nil {
			start = c.Int64() + 1
		} else {
			okShape = false
		}
	}
	if !okShape {
		return 0, 0, nil, false
	}
	iff, isIf := b.Instrs[len(b.Instrs)-1].(*ssa.If)
	if !isIf {
		return 0, 0, nil, false
	}
	cmp, isB := iff.Cond.(*ssa.BinOp)
	if !isB || cmp.Op != token.LSS || cmp.X != ssa.Value(bo) {
		return 0, 0, nil, false
	}
	n, okN := constOrLen(cmp.Y)
	if !okN {
		return 0, 0, nil, false
	}
	return start, n, b, true
}

// countedLoopGen is countedLoop with a bound that may be a constant len().
func countedLoopGen(phi *ssa.Phi) (lo, hi int64, ok bool) {
	if l, h, okc := countedLoop(phi); okc {
		return l, h, true
	}
	b := phi.Block()
	if len(phi.Edges) != 2 {
		return 0, 0, false
	}
	var init *ssa.Const
	var step ssa.Value
	for i, e := range phi.Edges {
		if b.Dominates(b.Preds[i]) {
			step = e
		} else if cst, isC := e.(*ssa.Const); isC {
			init = cst
		}
	}
	if init == nil || step == nil || init.Value == nil {
		return 0, 0, false
	}
	bo, isB := step.(*ssa.BinOp)
	if !isB || bo.Op != token.ADD || bo.X != ssa.Value(phi) {
		return 0, 0, false
	}
	one, isC := bo.Y.(*ssa.Const)
	if !isC || one.Value == nil || one.Int64() != 1 {
		return 0, 0, false
	}
	iff, isIf := b.Instrs[len(b.Instrs)-1].(*ssa.If)
	if !isIf {
		return 0, 0, false
	}
	cmp, isB := iff.Cond.(*ssa.BinOp)
	if !isB || cmp.Op != token.LSS || cmp.X != ssa.Value(phi) {
		return 0, 0, false
	}
	n, okN := constOrLen(cmp.Y)
	if !okN {
		return 0, 0, false
	}
	return init.Int64(), n, true
}

// rootAlloc follows slices to the allocation a buffer value is rooted at.
func rootAlloc(v ssa.Value) ssa.Value {
	for i := 0; i < 6; i++ {
		switch x := v.(type) {
		case *ssa.Slice:
			v = x.X
		default:
			return v
		}
	}
	return v
}

// markerLoopCovers: some IndexAddr into a buffer rooted at a 19-byte array
// uses an index that spans exactly [0,16) and sits on every iteration of its
// loop; `use` decides whether the addressed octet is used as required.
func markerLoopCovers(fn *ssa.Function, use func(ia *ssa.IndexAddr) bool) bool {
	found := false
	allInstrs(fn, func(in ssa.Instruction) {
		ia, ok := in.(*ssa.IndexAddr)
		if !ok {
			return
		}
		lo, hi, head, okS := loopSpan(ia.Index)
		if !okS || lo != 0 || hi != 16 {
			return
		}
		// the buffer is an allocation of this function, or of the caller of a
		// helper that fills the header (19 octets when the size is constant)
		base := rootAlloc(ia.X)
		if curProg != nil {
			base = rootAlloc(curProg.origin(base))
		}
		switch base.(type) {
		case *ssa.Alloc, *ssa.MakeSlice:
		default:
			return
		}
		if n, okN := constLen(base); okN && n != 19 {
			return
		}
		for _, pr := range head.Preds {
			if head.Dominates(pr) && !ia.Block().Dominates(pr) {
				return
			}
		}
		if use(ia) {
			found = true
		}
	})
	return found
}

// exIdx returns the tuple index of an "ex" term, or -1.
func exIdx(v *Expr) int64 {
	if v == nil || v.Op != "ex" || len(v.Args) == 0 {
		return -1
	}
	if len(v.Args) >= 2 {
		if k, ok := v.Args[1].IsConst(); ok {
			return k
		}
		return -1
	}
	return v.C
}
