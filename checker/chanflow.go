package main

// Channel identity (engine G): a flow-insensitive, field-based points-to
// analysis restricted to channel values. A channel is identified by its
// creation site (MakeChan). Creation sites are named by the struct field of a
// known type they are stored in (fsm.closeCh, updateMessageWriter.closeCh ...:
// the field name) or, for channels that only live in locals, by the function
// that creates them and their role (closed by the goroutine started there: a
// done channel; closed by the creating function's own code: a stop channel;
// never closed). Rules name channels through chanKey, so they do not depend
// on how a channel reaches an operation (captured variable, parameter, field
// of a helper struct).

import (
	"fmt"
	"go/types"
	"sort"
	"strings"

	"golang.org/x/tools/go/ssa"
)

// structs whose field names identify a channel
var chanStructs = map[string]bool{"fsm": true, "peer": true, "Server": true, "updateMessageWriter": true}

type chanFlow struct {
	p    *Prog
	pts  map[interface{}]map[*ssa.MakeChan]bool // node -> creation sites
	keys map[*ssa.MakeChan]string
}

func isChanType(t types.Type) bool {
	_, ok := t.Underlying().(*types.Chan)
	return ok
}

// node of an address expression holding a channel
func (cf *chanFlow) addrNode(addr ssa.Value) interface{} {
	switch x := addr.(type) {
	case *ssa.FieldAddr:
		return "F:" + structNameOfPtr(x.X.Type()) + "." + structFieldName(x)
	case *ssa.IndexAddr:
		if n := cf.addrNode(x.X); n != nil {
			return fmt.Sprint(n) + "[]"
		}
		if ld, ok := x.X.(*ssa.UnOp); ok {
			if n := cf.addrNode(ld.X); n != nil {
				return fmt.Sprint(n) + "[]"
			}
		}
	case *ssa.Alloc:
		return x
	case *ssa.FreeVar:
		// a captured cell: the Alloc bound at the closure's creation sites
		fn := x.Parent()
		idx := -1
		for i, fv := range fn.FreeVars {
			if fv == x {
				idx = i
			}
		}
		if par := fn.Parent(); par != nil && idx >= 0 {
			var cell interface{}
			for _, b := range par.Blocks {
				for _, in := range b.Instrs {
					if mc, ok := in.(*ssa.MakeClosure); ok && mc.Fn == ssa.Value(fn) && idx < len(mc.Bindings) {
						cell = cf.addrNode(mc.Bindings[idx])
					}
				}
			}
			if cell != nil {
				return cell
			}
		}
		return x
	case *ssa.Global:
		return x
	}
	return nil
}

func (p *Prog) chanFlow() *chanFlow {
	if p.cflow != nil {
		return p.cflow
	}
	cf := &chanFlow{p: p, pts: map[interface{}]map[*ssa.MakeChan]bool{}, keys: map[*ssa.MakeChan]string{}}
	p.cflow = cf
	type edge struct{ src, dst interface{} }
	var edges []edge
	add := func(src, dst interface{}) {
		if src != nil && dst != nil {
			edges = append(edges, edge{src, dst})
		}
	}
	seed := func(n interface{}, m *ssa.MakeChan) {
		if cf.pts[n] == nil {
			cf.pts[n] = map[*ssa.MakeChan]bool{}
		}
		cf.pts[n][m] = true
	}
	bindCall := func(cc *ssa.CallCommon, callee *ssa.Function) {
		if callee == nil {
			return
		}
		args := cc.Args
		for i, a := range args {
			if i < len(callee.Params) && isChanType(a.Type()) {
				add(a, callee.Params[i])
			}
		}
		if mc, ok := cc.Value.(*ssa.MakeClosure); ok {
			for i, b := range mc.Bindings {
				if i < len(callee.FreeVars) && isChanType(b.Type()) {
					add(b, callee.FreeVars[i])
				}
			}
		}
	}
	for _, fn := range p.AllFuncs {
		for _, b := range fn.Blocks {
			for _, in := range b.Instrs {
				switch x := in.(type) {
				case *ssa.MakeChan:
					seed(x, x)
				case *ssa.Store:
					if isChanType(x.Val.Type()) {
						add(x.Val, cf.addrNode(x.Addr))
					}
				case *ssa.UnOp:
					if x.Op.String() == "*" && isChanType(x.Type()) {
						add(cf.addrNode(x.X), x)
					}
				case *ssa.Field:
					if isChanType(x.Type()) {
						st := x.X.Type().Underlying().(*types.Struct)
						add("F:"+typeNameOf(x.X.Type())+"."+st.Field(x.Field).Name(), x)
					}
				case *ssa.Phi:
					if isChanType(x.Type()) {
						for _, e := range x.Edges {
							add(e, x)
						}
					}
				case *ssa.ChangeType:
					if isChanType(x.Type()) {
						add(x.X, x)
					}
				case *ssa.MakeClosure:
					cl := x.Fn.(*ssa.Function)
					for i, bnd := range x.Bindings {
						if i < len(cl.FreeVars) && isChanType(bnd.Type()) {
							add(bnd, cl.FreeVars[i])
						}
					}
				case ssa.CallInstruction:
					bindCall(x.Common(), p.staticLocalCallee(x))
				}
			}
		}
	}
	for changed := true; changed; {
		changed = false
		for _, e := range edges {
			for m := range cf.pts[e.src] {
				if !cf.pts[e.dst][m] {
					seed(e.dst, m)
					changed = true
				}
			}
		}
	}
	cf.nameSites()
	return cf
}

func typeNameOf(t types.Type) string {
	if n, ok := t.(*types.Named); ok {
		return n.Obj().Name()
	}
	return structNameOfPtr(types.NewPointer(t))
}

// sites returns the creation sites v may denote.
func (cf *chanFlow) sites(v ssa.Value) []*ssa.MakeChan {
	var out []*ssa.MakeChan
	for m := range cf.pts[v] {
		out = append(out, m)
	}
	sort.Slice(out, func(i, j int) bool { return out[i].Pos() < out[j].Pos() })
	return out
}

// ownerTop is the known top-level function a function belongs to: closures
// belong to their top-level parent; a helper or goroutine target the rules do
// not know belongs to the known function that calls / starts it.
func (p *Prog) ownerTop(fn *ssa.Function) *ssa.Function {
	for i := 0; i < 6; i++ {
		top := fn
		for top.Parent() != nil {
			top = top.Parent()
		}
		if knownFuncs[p.Name(top)] {
			return top
		}
		var user *ssa.Function
		for _, g := range p.AllFuncs {
			for _, b := range g.Blocks {
				for _, in := range b.Instrs {
					if ci, ok := in.(ssa.CallInstruction); ok && p.staticLocalCallee(ci) == top && g != top {
						if user == nil {
							user = g
						}
					}
				}
			}
		}
		if user == nil {
			return top
		}
		fn = user
	}
	return fn
}

func (p *Prog) ownerName(fn *ssa.Function) string { return p.Name(p.ownerTop(fn)) }

// nameSites assigns the stable keys.
func (cf *chanFlow) nameSites() {
	p := cf.p
	// fields of known structs a site flows into
	fieldOf := map[*ssa.MakeChan][]string{}
	for n, set := range cf.pts {
		s, ok := n.(string)
		if !ok || !strings.HasPrefix(s, "F:") {
			continue
		}
		tf := strings.TrimPrefix(s, "F:")
		dot := strings.Index(tf, ".")
		if dot < 0 || !chanStructs[tf[:dot]] {
			continue
		}
		for m := range set {
			fieldOf[m] = append(fieldOf[m], tf[dot+1:])
		}
	}
	// closers of each site
	goTargets := map[*ssa.Function]bool{}
	for _, g := range p.AllFuncs {
		for _, b := range g.Blocks {
			for _, in := range b.Instrs {
				if gi, ok := in.(*ssa.Go); ok {
					if t := p.staticLocalCallee(gi); t != nil {
						goTargets[t] = true
					}
				}
			}
		}
	}
	inGoTarget := func(fn *ssa.Function) bool {
		for f := fn; f != nil; f = f.Parent() {
			if goTargets[f] {
				return true
			}
		}
		return false
	}
	type role struct{ byGo, byOwner bool }
	roles := map[*ssa.MakeChan]*role{}
	for _, g := range p.AllFuncs {
		for _, b := range g.Blocks {
			for _, in := range b.Instrs {
				ci, ok := in.(ssa.CallInstruction)
				if !ok || p.calleeDesc(ci) != "builtin:close" || len(ci.Common().Args) != 1 {
					continue
				}
				for m := range cf.pts[ci.Common().Args[0]] {
					if roles[m] == nil {
						roles[m] = &role{}
					}
					if inGoTarget(g) && p.ownerTop(g) == p.ownerTop(m.Parent()) {
						roles[m].byGo = true
					} else {
						roles[m].byOwner = true
					}
				}
			}
		}
	}
	var all []*ssa.MakeChan
	for _, set := range cf.pts {
		for m := range set {
			if _, seen := cf.keys[m]; !seen {
				cf.keys[m] = ""
				all = append(all, m)
			}
		}
	}
	sort.Slice(all, func(i, j int) bool { return all[i].Pos() < all[j].Pos() })
	used := map[string]int{}
	for _, m := range all {
		if fs := fieldOf[m]; len(fs) > 0 {
			sort.Strings(fs)
			cf.keys[m] = fs[0]
			continue
		}
		owner := p.ownerName(m.Parent())
		short := owner
		if i := strings.LastIndex(short, "."); i >= 0 {
			short = short[i+1:]
		}
		r := "plain"
		if ro := roles[m]; ro != nil {
			switch {
			case ro.byGo && !ro.byOwner:
				r = "done"
			case ro.byOwner:
				r = "stop"
			}
		}
		k := short + ":" + r
		used[k]++
		if used[k] > 1 {
			k = fmt.Sprintf("%s#%d", k, used[k])
		}
		cf.keys[m] = k
	}
}

// chanKey names the channel(s) v may denote, or "" when no creation site in
// this package reaches it (timer channels, channels of other packages).
func (p *Prog) chanKey(v ssa.Value) string {
	cf := p.chanFlow()
	for {
		ct, ok := v.(*ssa.ChangeType)
		if !ok {
			break
		}
		v = ct.X
	}
	ms := cf.sites(v)
	if len(ms) == 0 {
		return ""
	}
	seen := map[string]bool{}
	var ks []string
	for _, m := range ms {
		if k := cf.keys[m]; !seen[k] {
			seen[k] = true
			ks = append(ks, k)
		}
	}
	sort.Strings(ks)
	return strings.Join(ks, "|")
}

// chanIsField: every creation site v may denote is stored in field
// structName.field (and there is at least one).
func (p *Prog) chanIsField(v ssa.Value, structName, field string) bool {
	cf := p.chanFlow()
	for {
		ct, ok := v.(*ssa.ChangeType)
		if !ok {
			break
		}
		v = ct.X
	}
	ms := cf.sites(v)
	if len(ms) == 0 {
		return false
	}
	fs := cf.pts["F:"+structName+"."+field]
	for _, m := range ms {
		if !fs[m] {
			return false
		}
	}
	return true
}
