package main

// C11 — reconnection liveness and retry pacing (structure; elapsed-time
// bounds are not decidable statically).

import (
	"fmt"
	"strings"

	"golang.org/x/tools/go/ssa"
)

func init() { register("C11", checkC11) }

func checkC11(c *Check) {
	p := c.P
	rel := c.transitionRelation("C11.1 transition-relation")
	// liveness on the extracted relation: from every state an outbound FSM can
	// be in, connect is reachable without passing disabled
	names := map[int64]string{}
	for _, n := range []string{"idleState", "connectState", "activeState", "openSentState", "openConfirmState", "establishedState"} {
		names[p.MustConst(n)] = "fsm." + strings.TrimSuffix(n, "State")
	}
	connect, disabled := p.MustConst("connectState"), p.MustConst("disabledState")
	for v, fnn := range names {
		if v == connect {
			continue
		}
		seen := map[int64]bool{}
		var dfs func(x int64) bool
		dfs = func(x int64) bool {
			if x == connect {
				return true
			}
			if x == disabled || seen[x] {
				return false
			}
			seen[x] = true
			for _, y := range rel[names[x]] {
				if dfs(y) {
					return true
				}
			}
			return false
		}
		c.require(dfs(v), "C11.1 liveness", fnn, "connect reachable", "-", "from this state the extracted transition relation reaches Connect without passing Disabled (a non-passive peer keeps dialling)")
	}
	isOpt := func(f string) func(*Expr) bool {
		return func(e *Expr) bool { return isLoadOfField(e, f) && e.Args[0].Aux == "peerOptions" }
	}
	// idle(): waits for the idle-hold timer, dials, re-arms the timer
	if fn := p.Fn("fsm.idle"); fn != nil {
		a := NewAnalysis(p, fn)
		a.EventArgs = p.timerEventArgs
		a.Run()
		n := 0
		for _, r := range a.Returns {
			v, isC := r.State.rangeOf(r.Results[0]).IsConst()
			if !isC || v != connect {
				continue
			}
			n++
			st := r.State
			ok := st.must["call:fsm.dialPeer"] && st.must["call:time.Timer.Reset(idleHoldTimer)"] && st.must["assign:connectRetryTimer"]
			c.require(ok, "C11.2 idle-pacing", "fsm.idle", "return connectState", p.InstrPos(r.Instr), "entering Connect dials exactly after the idle-hold timer fired, re-arms the idle-hold timer and arms the connect-retry timer")
		}
		c.floor("C11.2 idle-pacing", n, 1, "connectState returns of idle()")
		// the only wait is a select on closeCh and idleHoldTimer.C
		sels := 0
		allInstrs(fn, func(in ssa.Instruction) {
			if s, ok := in.(*ssa.Select); ok {
				sels++
				var names []string
				for _, ss := range s.States {
					names = append(names, chanNameOf(ss.Chan))
				}
				ok := s.Blocking && len(s.States) == 2 && contains(names, "closeCh") && contains(names, "C")
				c.require(ok, "C11.2 idle-pacing", "fsm.idle", "select", p.InstrPos(in), fmt.Sprintf("idle waits on exactly {closeCh, idleHoldTimer.C}: %v", names))
			}
		})
		for _, cl := range p.callsIn(fn, descIs("time.Timer.Reset")) {
			for _, args := range a.callArgsAt(cl) {
				c.require(len(args) == 2 && isOpt("idleHoldTime")(args[1]), "C11.2 idle-pacing", "fsm.idle", "Reset argument", p.InstrPos(cl.(ssa.Instruction)), "the idle-hold timer is re-armed with options.idleHoldTime")
			}
		}
	}
	if nf := p.Fn("newFSM"); nf != nil {
		a := NewAnalysis(p, nf)
		a.Run()
		ok := false
		for _, cl := range p.callsIn(nf, descIs("time.NewTimer")) {
			for _, args := range a.callArgsAt(cl) {
				if v, isC := args[0].IsConst(); isC && v == 0 {
					ok = true
				}
			}
		}
		c.require(ok, "C11.2 idle-pacing", "newFSM", "first idle-hold is zero", p.Pos(nf.Pos()), "a new FSM does not hold down before its first attempt")
	}
	// every connect-retry timer is armed with options.connectRetryTime
	n := 0
	for _, fnn := range []string{"fsm.idle", "fsm.connect", "fsm.active", "fsm.openSent"} {
		root := p.Fn(fnn)
		if root == nil {
			continue
		}
		for _, fn := range withAnon(root) {
			a := NewAnalysis(p, fn)
			a.Run()
			allInstrs(fn, func(in ssa.Instruction) {
				st, ok := in.(*ssa.Store)
				if !ok {
					return
				}
				fa, ok := st.Addr.(*ssa.FieldAddr)
				if !ok || structFieldName(fa) != "connectRetryTimer" {
					return
				}
				n++
				okA := false
				for _, s := range a.At[in] {
					v := a.exprOf(s, nil, st.Val)
					if v.Op == "call" && v.S == "time.NewTimer" && len(v.Args) == 2 && isOpt("connectRetryTime")(v.Args[1]) {
						okA = true
					}
				}
				c.require(okA, "C11.3 connect-retry", p.Name(fn), "connectRetryTimer armed", p.InstrPos(in), "the connect-retry timer is a fresh timer of options.connectRetryTime")
			})
		}
	}
	c.floor("C11.3 connect-retry", n, 4, "stores to connectRetryTimer")
	// connect(): a redial is preceded by cancelling and consuming the pending dial
	if fn := p.Fn("fsm.connect"); fn != nil {
		a := NewAnalysis(p, fn)
		a.NoInline = map[string]bool{"fsm.sendOpenAndSetHoldTimer": true}
		a.Run()
		for _, cl := range p.callsIn(fn, descIs("fsm.dialPeer")) {
			ok := false
			for _, st := range a.At[cl.(ssa.Instruction)] {
				ok = st.must["call:dyn:context.CancelFunc"]
			}
			// and a receive from dialResultCh dominates it in the same select case
			recv := false
			allInstrs(fn, func(in ssa.Instruction) {
				if u, isU := in.(*ssa.UnOp); isU && u.Op.String() == "<-" && chanNameOf(u.X) == "dialResultCh" && instrDominates(in, cl.(ssa.Instruction)) {
					recv = true
				}
			})
			c.require(ok && recv, "C11.3 connect-retry", "fsm.connect", "redial", p.InstrPos(cl.(ssa.Instruction)), "an expired connect-retry timer cancels the pending dial and consumes its single result before a new dial starts")
		}
	}
	c.dialSingleResult("C11.3 dial-result")
	c.cleanupContract("C11.1 session-end-releases-connection")
	// who may dial: idle, connect, active (conn == nil branch)
	for _, fn := range p.FuncSeq {
		for _, cl := range p.callsIn(fn, descIs("fsm.dialPeer")) {
			switch p.Name(fn) {
			case "fsm.idle", "fsm.connect", "fsm.active":
				c.ok("C11.4 who-may-dial", p.Name(fn), "dialPeer call", p.InstrPos(cl.(ssa.Instruction)), "dialling state")
			default:
				c.fail("C11.4 who-may-dial", p.Name(fn), "dialPeer call", p.InstrPos(cl.(ssa.Instruction)), "dialPeer is called outside Idle/Connect/Active")
			}
		}
	}
	c.activeEntryGuard("C11.4 who-may-dial")
	// an inbound FSM that goes down is disabled (never becomes a dialler) and
	// the outbound FSM is re-enabled
	if fn := p.Fn("peer.handleStateTransition"); fn != nil && c.sig("C11.4 inbound-never-dials", fn, 3) {
		h := c.peerHooks(fn)
		in, out := p.MustConst("in"), p.MustConst("out")
		for _, tr := range [][2]string{{"openSentState", "activeState"}, {"openSentState", "idleState"}, {"openConfirmState", "idleState"}, {"establishedState", "idleState"}, {"activeState", "idleState"}} {
			from, to := p.MustConst(tr[0]), p.MustConst(tr[1])
			ef := c.runHST(hstScenario{i: in, hook: hooks(rangeHook(h.tTo, isConst(to)), rangeHook(h.tFrom, isConst(from)))})
			name := fmt.Sprintf("inbound FSM %s -> %s", tr[0], tr[1])
			if ef == nil || len(ef.a.Undecided) > 0 {
				c.undecided("C11.4 inbound-never-dials", "peer.handleStateTransition", name, p.Pos(fn.Pos()), "undecided")
				continue
			}
			ok := hasArg(ef.calls["peer.disableFSM"], in) && onlyArg(ef.calls["peer.disableFSM"], in) && hasArg(ef.calls["peer.enableFSM"], out) && len(ef.calls["peer.sendTransitionToFSM"]) == 0
			c.require(ok, "C11.4 inbound-never-dials", "peer.handleStateTransition", name, p.Pos(fn.Pos()), "the inbound FSM is disabled, the outbound FSM re-enabled, and the downward transition is never approved")
		}
	}
	c.passiveNeverDials("C11.4 passive-never-dials")
	c.passiveOption("C11.4 passive-option")
	c.capturedVarDiscipline("C11.2 every-listener-served")
	c.inboundLookup("C11.2 inbound-reaches-peer", "C11.2 inbound-reaches-peer")
	c.dampPeerRule("C11.1 cease-not-damped")
	c.peerManagerContracts("C11.2 manager-effects")
	c.fsmContracts("C11.2 fsm-effects")
	// the damping timer re-enables the outbound FSM and clears hold-down
	c.holdDownSemantics("C11.5 resume-after-holddown")
	c.readerHandoff()
	c.timerDiscipline("C11.3 timers-armed")
}

func contains(xs []string, x string) bool {
	for _, y := range xs {
		if y == x {
			return true
		}
	}
	return false
}

// passiveNeverDials: enableFSM, the only creator of outbound FSMs, creates one
// exactly for non-passive peers (whoever calls it).
func (c *Check) passiveNeverDials(rule string) {
	p := c.P
	// enableFSM: passive peers get no outbound FSM
	if fn := p.Fn("peer.enableFSM"); fn != nil {
		for _, pv := range []int64{1, 0} {
			a := NewAnalysis(p, fn)
			iName := paramName(fn, 1)
			a.Init = func(a *Analysis, st *State) {
				st.rng[mkLeaf("param", iName, fn.Params[1].Type()).Key] = isConst(p.MustConst("out"))
			}
			a.AtomHook = func(e *Expr) (ISet, bool) {
				if isFieldRead(e, "passive") {
					return isConst(pv), true
				}
				if e.Op == "nn" && strings.Contains(e.Key, "fa:fsms") {
					return isConst(0), true
				}
				return nil, false
			}
			a.Run()
			created := false
			for _, cl := range p.callsIn(fn, descIs("newFSM")) {
				if a.Reachable(cl.(ssa.Instruction)) {
					created = true
				}
			}
			c.require(created == (pv == 0), rule, "peer.enableFSM", fmt.Sprintf("outbound FSM, passive=%d", pv), p.Pos(fn.Pos()), "an outbound FSM is created exactly for non-passive peers")
		}
	}
}
