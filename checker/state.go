package main

// Engine V (part 3): abstract state — value sets of atoms, relational facts,
// a store-forwarding memory with versioned loads, dynamic-type sets.

import (
	"fmt"
	"go/token"
	"go/types"
	"sort"
	"strings"

	"golang.org/x/tools/go/ssa"
)

// TypeSet describes the possible dynamic types of an interface-valued term.
type TypeSet struct {
	Pos map[string]bool // if non-nil: exactly one of these
	Neg map[string]bool // none of these
}

func (t TypeSet) clone() TypeSet {
	n := TypeSet{}
	if t.Pos != nil {
		n.Pos = map[string]bool{}
		for k := range t.Pos {
			n.Pos[k] = true
		}
	}
	if t.Neg != nil {
		n.Neg = map[string]bool{}
		for k := range t.Neg {
			n.Neg[k] = true
		}
	}
	return n
}

func (t TypeSet) String() string {
	if t.Pos != nil {
		return "in{" + strings.Join(sortedKeys(t.Pos), ",") + "}"
	}
	return "notin{" + strings.Join(sortedKeys(t.Neg), ",") + "}"
}

// State is the abstract state at a program point.
type State struct {
	an     *Analysis
	env    map[ssa.Value]*Expr // term of each SSA value computed so far
	rng    map[string]ISet     // atom key -> value set (ints; bools 0/1; nilness 0=nil 1=non-nil under key "nn:"+key)
	facts  map[string]Fact
	mem    map[string]*Expr  // address key -> stored value term
	memE   map[string]*Expr  // address key -> address term
	ver    map[string]string // alias class -> version token (site of the last may-aliasing write)
	fresh  map[string]bool   // alloc leaf keys that are fresh (zero-initialised, unaliased)
	shared map[string]bool   // captured cells that a closure assigns (forgotten at every call)
	types  map[string]TypeSet
	may    map[string]bool // events that happened on some path to here
	must   map[string]bool // events that happened on every path to here
	tags   map[string]int  // call site of an inlined helper -> which of its returns was taken (partition key)
	dead   bool
	// trail of partition-relevant choices (for reports)
}

func newState(an *Analysis) *State {
	return &State{an: an, env: map[ssa.Value]*Expr{}, rng: map[string]ISet{}, facts: map[string]Fact{},
		mem: map[string]*Expr{}, memE: map[string]*Expr{}, ver: map[string]string{}, fresh: map[string]bool{}, shared: map[string]bool{}, types: map[string]TypeSet{}, may: map[string]bool{}, must: map[string]bool{}, tags: map[string]int{}}
}

func (s *State) clone() *State {
	n := &State{an: s.an, dead: s.dead,
		env: make(map[ssa.Value]*Expr, len(s.env)), rng: make(map[string]ISet, len(s.rng)),
		facts: make(map[string]Fact, len(s.facts)), mem: make(map[string]*Expr, len(s.mem)), memE: make(map[string]*Expr, len(s.memE)),
		ver: make(map[string]string, len(s.ver)), fresh: make(map[string]bool, len(s.fresh)), types: make(map[string]TypeSet, len(s.types)), may: make(map[string]bool, len(s.may)), must: make(map[string]bool, len(s.must))}
	for k := range s.may {
		n.may[k] = true
	}
	for k := range s.must {
		n.must[k] = true
	}
	n.tags = make(map[string]int, len(s.tags))
	for k, v := range s.tags {
		n.tags[k] = v
	}
	for k, v := range s.env {
		n.env[k] = v
	}
	for k, v := range s.rng {
		n.rng[k] = v
	}
	for k, v := range s.facts {
		n.facts[k] = v
	}
	for k, v := range s.mem {
		n.mem[k] = v
	}
	for k, v := range s.memE {
		n.memE[k] = v
	}
	for k, v := range s.ver {
		n.ver[k] = v
	}
	for k, v := range s.fresh {
		n.fresh[k] = v
	}
	n.shared = make(map[string]bool, len(s.shared))
	for k, v := range s.shared {
		n.shared[k] = v
	}
	for k, v := range s.types {
		n.types[k] = v.clone()
	}
	return n
}

// killLeaf removes every piece of information that mentions the leaf key
// (the leaf is about to be redefined, e.g. on a loop back edge).
func (s *State) killLeaf(leafKey string) {
	for k := range s.rng {
		if strings.Contains(k, leafKey) {
			delete(s.rng, k)
		}
	}
	for k, f := range s.facts {
		if f.L.mentions(leafKey) {
			delete(s.facts, k)
		}
	}
	for k, v := range s.mem {
		if strings.Contains(k, leafKey) || v.mentions(leafKey) {
			delete(s.mem, k)
			delete(s.memE, k)
		}
	}
	for k := range s.types {
		if strings.Contains(k, leafKey) {
			delete(s.types, k)
		}
	}
	for k := range s.fresh {
		if strings.Contains(k, leafKey) {
			delete(s.fresh, k)
		}
	}
}

// ---- ranges ---------------------------------------------------------------

func structuralRange(e *Expr) ISet {
	switch e.Op {
	case "len", "cap":
		return isRange(0, posInf)
	case "call":
		switch e.S {
		case "be16":
			return isRange(0, 65535)
		case "be32":
			return isRange(0, (1<<32)-1)
		}
	}
	if isBoolType(e.Typ) {
		return isRange(0, 1)
	}
	return typeRange(e.Typ)
}

// rangeOf returns an over-approximation of the values of integer/bool term e.
func (s *State) rangeOf(e *Expr) ISet { return s.rangeOfD(e, 0) }

func (s *State) rangeOfD(e *Expr, depth int) ISet {
	if e == nil {
		return isTop()
	}
	if c, ok := e.IsConst(); ok {
		return isConst(c)
	}
	r := structuralRange(e)
	if v, ok := s.rng[e.Key]; ok {
		r = r.Intersect(v)
	}
	if s.an != nil && s.an.AtomHook != nil {
		if v, ok := s.an.AtomHook(e); ok {
			r = r.Intersect(v)
		}
	}
	if depth > 6 {
		return r
	}
	switch e.Op {
	case "bin":
		x, y := e.Args[0], e.Args[1]
		rx, ry := s.rangeOfD(x, depth+1), s.rangeOfD(y, depth+1)
		var v ISet
		switch e.binOp() {
		case "+":
			v = rx.Add(ry)
		case "-":
			v = rx.Add(ry.Neg())
		case "*":
			if c, ok := ry.IsConst(); ok {
				v = rx.MulConst(c)
			} else if c, ok := rx.IsConst(); ok {
				v = ry.MulConst(c)
			} else if !rx.Empty() && !ry.Empty() && rx.Lo() >= 0 && ry.Lo() >= 0 {
				v = isRange(satMul(rx.Lo(), ry.Lo()), satMul(rx.Hi(), ry.Hi()))
			} else {
				v = isTop()
			}
		case "/":
			if c, ok := ry.IsConst(); ok && c > 0 {
				v = rx.DivConst(c)
			} else {
				v = isTop()
			}
		case "%":
			if c, ok := ry.IsConst(); ok && c > 0 {
				v = rx.ModConst(c)
			} else {
				v = isTop()
			}
		case "&":
			v = isTop()
			if c, ok := ry.IsConst(); ok && c >= 0 {
				v = isRange(0, c)
			} else if c, ok := rx.IsConst(); ok && c >= 0 {
				v = isRange(0, c)
			}
			if c, ok := rx.IsConst(); ok {
				if d, ok := ry.IsConst(); ok {
					v = isConst(c & d)
				}
			}
		case "|", "^":
			v = isTop()
			if cx, ok := rx.IsConst(); ok {
				if cy, ok := ry.IsConst(); ok {
					if e.binOp() == "|" {
						v = isConst(cx | cy)
					} else {
						v = isConst(cx ^ cy)
					}
				}
			}
			if v.IsTop() && !rx.Empty() && !ry.Empty() && rx.Lo() >= 0 && ry.Lo() >= 0 && rx.Hi() != posInf && ry.Hi() != posInf {
				// both non-negative: the result is below the next power of two
				m := rx.Hi()
				if ry.Hi() > m {
					m = ry.Hi()
				}
				p2 := int64(1)
				for p2 <= m {
					p2 <<= 1
				}
				v = isRange(0, p2-1)
			}
		case ">>":
			if c, ok := ry.IsConst(); ok && c >= 0 && c < 63 && !rx.Empty() && rx.Lo() >= 0 {
				// interval by interval (the shift is monotone)
				v = isEmpty()
				for _, iv := range rx {
					hi := iv.Hi
					if hi != posInf {
						hi = hi >> uint(c)
					}
					v = v.Union(isRange(iv.Lo>>uint(c), hi))
				}
			} else {
				v = isTop()
			}
		case "<<":
			if c, ok := ry.IsConst(); ok && c >= 0 && c < 62 && !rx.Empty() && rx.Lo() >= 0 {
				v = isRange(satMul(rx.Lo(), 1<<uint(c)), satMul(rx.Hi(), 1<<uint(c)))
			} else {
				v = isTop()
			}
		case "==", "!=", "<", "<=":
			v = s.evalBoolD(e, depth+1)
		default:
			v = isTop()
		}
		// bit operations with a constant over a small finite set: exact image
		switch op := e.binOp(); op {
		case "&", "|", "^", ">>", "<<":
			apply := func(a, b int64) int64 {
				switch op {
				case "&":
					return a & b
				case "|":
					return a | b
				case "^":
					return a ^ b
				case ">>":
					return a >> uint(b)
				}
				return a << uint(b)
			}
			if cy, ok := ry.IsConst(); ok && cy >= 0 && cy < 62 {
				if img, ok := rx.mapSmall(func(a int64) int64 { return apply(a, cy) }); ok {
					v = v.Intersect(img)
				}
			} else if cx, ok := rx.IsConst(); ok && cx >= 0 && op != ">>" && op != "<<" {
				if img, ok := ry.mapSmall(func(b int64) int64 { return apply(cx, b) }); ok {
					v = v.Intersect(img)
				}
			}
		}
		// wrap check: if the mathematical result does not fit the type the
		// machine value wraps; fall back to the type's range.
		if !cmpBinOp(e.binOp()) {
			tr := typeRange(e.Typ)
			if !v.SubsetOf(tr) {
				v = tr
			}
		}
		r = r.Intersect(v)
	case "conv":
		rx := s.rangeOfD(e.Args[0], depth+1)
		tr := typeRange(e.Typ)
		if rx.SubsetOf(tr) {
			r = r.Intersect(rx)
		}
	case "not":
		v := s.evalBoolD(e, depth+1)
		r = r.Intersect(v)
	case "call":
		// library summary: IsMulticast of the IPv4 address made of the
		// big-endian octets of x is "x in 224.0.0.0/4"
		if e.S == "netip.Addr.IsMulticast" && len(e.Args) == 1 && isCallNamed(e.Args[0], "netip.AddrFrom4") && len(e.Args[0].Args) == 1 {
			if by := e.Args[0].Args[0]; by.Op == "bytes" && by.S == "be32" && len(by.Args) == 1 {
				rx := s.rangeOfD(by.Args[0], depth+1)
				mc := isRange(0xE0000000, 0xEFFFFFFF)
				switch {
				case !rx.Empty() && rx.SubsetOf(mc):
					r = r.Intersect(isConst(1))
				case rx.Intersect(mc).Empty():
					r = r.Intersect(isConst(0))
				}
			}
		}
		if e.S == "min" && len(e.Args) == 2 {
			a, b := s.rangeOfD(e.Args[0], depth+1), s.rangeOfD(e.Args[1], depth+1)
			if !a.Empty() && !b.Empty() {
				hi := a.Hi()
				if b.Hi() < hi {
					hi = b.Hi()
				}
				lo := a.Lo()
				if b.Lo() < lo {
					lo = b.Lo()
				}
				r = r.Intersect(isRange(lo, hi))
			}
		}
	case "len":
		if isCallNamed(e.Args[0], "netip.Addr.AsSlice") && len(e.Args[0].Args) == 1 {
			// library summary: AsSlice has length 4 for Is4 addresses, else 0 or 16
			r = r.Intersect(isConst(0).Union(isConst(4)).Union(isConst(16)))
			is4 := s.evalBoolD(mkCall("netip.Addr.Is4", types.Typ[types.Bool], e.Args[0].Args[0]), depth+1)
			if c, ok := is4.IsConst(); ok && c == 1 {
				r = isConst(4)
			}
		}
		// len of a slice term: hi-lo
		if depth < 4 {
			l := s.linOf(e)
			if _, isAtom := l.T[e.Key]; !(isAtom && len(l.T) == 1) {
				r = r.Intersect(s.rangeOfLin(l, depth+1))
			}
		}
	}
	// congruence tightening: x % m == c known
	if s.an != nil && !r.Empty() && intTypeInfo(e.Typ).ok {
		for _, m := range s.an.moduli {
			mk := mkBin(token.REM, e, mkConst(m, e.Typ), e.Typ, e.Typ)
			if mv, ok := s.rng[mk.Key]; ok {
				if c, ok := mv.IsConst(); ok && c >= 0 && c < m {
					lo, hi := r.Lo(), r.Hi()
					if lo != negInf && lo >= 0 {
						for lo%m != c {
							lo++
						}
					}
					if hi != posInf && hi >= 0 {
						for hi >= 0 && hi%m != c {
							hi--
						}
					}
					r = r.Intersect(isRange(lo, hi))
				}
			}
		}
	}
	return r
}

func cmpBinOp(op string) bool {
	switch op {
	case "==", "!=", "<", "<=":
		return true
	}
	return false
}

func (s *State) rangeOfLin(l Lin, depth int) ISet {
	r := isConst(l.C)
	for k, c := range l.T {
		r = r.Add(s.rangeOfD(l.E[k], depth+1).MulConst(c))
	}
	return r
}

// linOf linearises integer term e in this state. Narrow arithmetic is
// transparent only when it provably does not wrap here.
func (s *State) linOf(e *Expr) Lin {
	if e == nil {
		return linConst(0)
	}
	if c, ok := e.IsConst(); ok {
		return linConst(c)
	}
	switch e.Op {
	case "bin":
		op := e.binOp()
		switch op {
		case "+", "-", "*":
			x, y := e.Args[0], e.Args[1]
			var cand Lin
			okc := true
			switch op {
			case "+":
				cand = s.linOf(x).add(s.linOf(y), 1)
			case "-":
				cand = s.linOf(x).add(s.linOf(y), -1)
			case "*":
				if c, ok := y.IsConst(); ok {
					cand = s.linOf(x).scale(c)
				} else if c, ok := x.IsConst(); ok {
					cand = s.linOf(y).scale(c)
				} else {
					okc = false
				}
			}
			if okc {
				ii := intTypeInfo(e.Typ)
				if ii.ok && ii.bits >= 64 && !ii.unsigned {
					return cand
				}
				if s.rangeOfLin(cand, 1).SubsetOf(typeRange(e.Typ)) {
					return cand
				}
			}
		}
	case "conv":
		if s.rangeOfD(e.Args[0], 1).SubsetOf(typeRange(e.Typ)) {
			return s.linOf(e.Args[0])
		}
	case "call":
		// min/max whose order is decided in this state denote one operand
		if (e.S == "min" || e.S == "max") && len(e.Args) == 2 {
			la, lb := s.linOf(e.Args[0]), s.linOf(e.Args[1])
			aLEb := s.impliedGEBasic(lb.add(la, -1))
			bLEa := s.impliedGEBasic(la.add(lb, -1))
			switch {
			case aLEb && e.S == "min", bLEa && e.S == "max":
				return la
			case bLEa && e.S == "min", aLEb && e.S == "max":
				return lb
			}
		}
	case "len":
		x := e.Args[0]
		switch x.Op {
		case "slice":
			root, lo, hi := sliceParts(x)
			var l Lin
			if hi != nil {
				l = s.linOf(hi)
			} else {
				l = s.linOf(mkLen(root))
			}
			if lo != nil {
				l = l.add(s.linOf(lo), -1)
			}
			return l
		case "append":
			return s.linOf(mkLen(x.Args[0])).add(s.linOf(mkLen(x.Args[1])), 1)
		case "append1":
			return s.linOf(mkLen(x.Args[0])).add(linConst(int64(len(x.Args)-1)), 1)
		case "arr":
			return linConst(x.C)
		}
	}
	return linAtom(e)
}

// impliedGE reports whether l >= 0 holds in every concrete state described.
func (s *State) impliedGE(l Lin) bool {
	if s.impliedGEBasic(l) {
		return true
	}
	return s.impliedGECongruent(l)
}

func (s *State) impliedGEBasic(l Lin) bool {
	if c, ok := l.isConst(); ok {
		return c >= 0
	}
	if r := s.rangeOfLin(l, 0); !r.Empty() && r.Lo() >= 0 {
		return true
	}
	var ges []Fact
	for _, k := range sortedKeys(s.facts) {
		f := s.facts[k]
		if !f.NE && shareAtom(l, f.L) {
			ges = append(ges, f)
		}
	}
	// integer division atoms q = x/c (x >= 0) satisfy c*q <= x <= c*q + c-1
	ges = append(ges, s.divisionFacts(l, ges)...)
	for _, f := range ges {
		for _, k := range factMultipliers(l, f.L) {
			d := l.add(f.L, -k)
			if r := s.rangeOfLin(d, 0); !r.Empty() && r.Lo() >= 0 {
				return true
			}
		}
	}
	if len(ges) <= 24 {
		var all []Fact
		for _, k := range sortedKeys(s.facts) {
			if f := s.facts[k]; !f.NE {
				all = append(all, f)
			}
		}
		all = append(all, ges...)
		for _, f := range ges {
			for _, k := range factMultipliers(l, f.L) {
				d := l.add(f.L, -k)
				for _, g := range all {
					if !shareAtom(d, g.L) {
						continue
					}
					for _, k2 := range factMultipliers(d, g.L) {
						d2 := d.add(g.L, -k2)
						if r := s.rangeOfLin(d2, 0); !r.Empty() && r.Lo() >= 0 {
							return true
						}
					}
				}
			}
		}
	}
	return false
}

// impliedGECongruent strengthens a lower bound by a known congruence: with
// l = V + C, if V ≡ r (mod m) is determined and V >= k0 is provable for some
// k0 whose next value congruent to r is already >= -C, then l >= 0.
// (i < len(b), len(b)%4 == 0, i%4 == 0  =>  len(b)-i >= 4.)
func (s *State) impliedGECongruent(l Lin) bool {
	if s.an == nil || len(l.T) == 0 || len(l.T) > 3 {
		return false
	}
	v := l
	v.C = 0
	need := -l.C // V >= need
	for _, m := range s.an.moduli {
		if m > 64 {
			continue
		}
		cg := s.an.congruences(s, v)
		r, ok := cg[m]
		if !ok {
			continue
		}
		for k0 := need - m + 1; k0 < need; k0++ {
			// smallest x >= k0 with x ≡ r (mod m)
			x := k0 + (((r-k0)%m)+m)%m
			if x < need {
				continue
			}
			t := v
			t.C = -k0
			if s.impliedGEBasic(t) {
				return true
			}
		}
	}
	return false
}

// factMultipliers: the positive multiples k of fact f worth subtracting from
// goal l (k = 1, and every k that cancels a shared atom exactly).
func factMultipliers(l, f Lin) []int64 {
	ks := []int64{1}
	for a, cf := range f.T {
		cl, ok := l.T[a]
		if !ok || cf == 0 || cl%cf != 0 {
			continue
		}
		k := cl / cf
		if k > 1 && k <= 64 {
			dup := false
			for _, x := range ks {
				if x == k {
					dup = true
				}
			}
			if !dup {
				ks = append(ks, k)
			}
		}
	}
	return ks
}

// divisionFacts derives, for every atom q = x / c (c a positive constant, x
// provably non-negative) mentioned by the goal or by a fact sharing atoms
// with it, the facts x - c*q >= 0 and c*q + (c-1) - x >= 0.
func (s *State) divisionFacts(l Lin, ges []Fact) []Fact {
	var out []Fact
	seen := map[string]bool{}
	consider := func(e *Expr) {
		if e == nil || seen[e.Key] {
			return
		}
		// m = min(a, b): a - m >= 0, b - m >= 0 (max symmetrically)
		if e.Op == "call" && (e.S == "min" || e.S == "max") && len(e.Args) == 2 {
			seen[e.Key] = true
			m := linAtom(e)
			for _, x := range e.Args {
				lx := s.linOf(x)
				if e.S == "min" {
					out = append(out, Fact{L: lx.add(m, -1)})
				} else {
					out = append(out, Fact{L: m.add(lx, -1)})
				}
			}
			return
		}
		if e.Op != "bin" || e.binOp() != "/" || len(e.Args) != 2 {
			return
		}
		seen[e.Key] = true
		c, isC := e.Args[1].IsConst()
		if !isC || c <= 0 || c > 4096 {
			return
		}
		x := s.linOf(e.Args[0])
		if r := s.rangeOfLin(x, 1); r.Empty() || r.Lo() < 0 {
			return
		}
		q := linAtom(e)
		out = append(out, Fact{L: x.add(q, -c)}, Fact{L: q.scale(c).add(linConst(c-1), 1).add(x, -1)})
	}
	for _, e := range l.E {
		consider(e)
	}
	for _, f := range ges {
		for _, e := range f.L.E {
			consider(e)
		}
	}
	return out
}

func shareAtom(a, b Lin) bool {
	for k := range a.T {
		if _, ok := b.T[k]; ok {
			return true
		}
	}
	return false
}

func (s *State) impliedNE(l Lin) bool {
	if c, ok := l.isConst(); ok {
		return c != 0
	}
	if r := s.rangeOfLin(l, 0); !r.Contains(0) {
		return true
	}
	if _, ok := s.facts[Fact{L: l, NE: true}.key()]; ok {
		return true
	}
	// l >= 1 or -l >= 1
	if s.impliedGE(l.add(linConst(1), -1)) || s.impliedGE(l.neg().add(linConst(1), -1)) {
		return true
	}
	return false
}

// addFact records a fact and refines atom ranges with it.
func (s *State) addFact(f Fact) {
	if c, ok := f.L.isConst(); ok {
		if (!f.NE && c < 0) || (f.NE && c == 0) {
			s.dead = true
		}
		return
	}
	if f.NE {
		// single atom: punch a hole
		if len(f.L.T) == 1 {
			for k, a := range f.L.T {
				if f.L.C%a == 0 {
					v := -f.L.C / a
					e := f.L.E[k]
					r := s.rangeOf(e).Minus(isConst(v))
					s.rng[k] = r
					if r.Empty() {
						s.dead = true
					}
					return
				}
			}
		}
		if r := s.rangeOfLin(f.L, 0); r.Equal(isConst(0)) {
			s.dead = true
			return
		}
		if s.impliedGE(f.L) && s.impliedGE(f.L.neg()) {
			s.dead = true
			return
		}
		s.facts[f.key()] = f
		return
	}
	// GE fact
	if r := s.rangeOfLin(f.L, 0); r.Empty() || r.Hi() < 0 {
		s.dead = true
		return
	}
	// contradiction with existing facts: -L-1 >= 0 implied?
	if s.impliedGE(f.L.neg().add(linConst(1), -1)) {
		s.dead = true
		return
	}
	if len(f.L.T) > 1 || true {
		s.facts[f.key()] = f
	}
	s.refineFrom(f)
	// L>=0 and -L>=0 with NE(L) is a contradiction
	if ne, ok := s.facts[Fact{L: f.L, NE: true}.key()]; ok && ne.NE {
		if s.impliedGE(f.L) && s.impliedGE(f.L.neg()) {
			s.dead = true
		}
	}
}

// refineFrom tightens the ranges of the atoms of a GE fact.
func (s *State) refineFrom(f Fact) {
	for k, a := range f.L.T {
		e := f.L.E[k]
		rest := f.L.clone()
		delete(rest.T, k)
		delete(rest.E, k)
		rr := s.rangeOfLin(rest, 1)
		if rr.Empty() {
			s.dead = true
			return
		}
		// a*x + rest >= 0  =>  a*x >= -hi(rest)
		hi := rr.Hi()
		if hi == posInf {
			continue
		}
		cur := s.rangeOf(e)
		var nr ISet
		if a > 0 {
			// x >= ceil(-hi/a)
			b := -hi
			q := floorDiv(b+a-1, a)
			nr = cur.Intersect(isRange(q, posInf))
		} else {
			// x <= floor(hi/(-a))
			q := floorDiv(hi, -a)
			nr = cur.Intersect(isRange(negInf, q))
		}
		if !nr.Equal(cur) {
			s.rng[k] = nr
			if nr.Empty() {
				s.dead = true
				return
			}
		}
	}
}

// ---- booleans ---------------------------------------------------------------

func boolSet(t, f bool) ISet {
	switch {
	case t && f:
		return isRange(0, 1)
	case t:
		return isConst(1)
	case f:
		return isConst(0)
	}
	return isEmpty()
}

func (s *State) evalBool(e *Expr) ISet { return s.evalBoolD(e, 0) }

func isIntExpr(e *Expr) bool {
	if e == nil {
		return false
	}
	if e.Op == "const" && !isBoolType(e.Typ) {
		return true
	}
	return intTypeInfo(e.Typ).ok
}

func (s *State) evalBoolD(e *Expr, depth int) ISet {
	if c, ok := e.IsConst(); ok {
		return isConst(c)
	}
	if v, ok := s.rng[e.Key]; ok {
		if _, isC := v.IsConst(); isC {
			return v
		}
	}
	if s.an != nil && s.an.AtomHook != nil && depth < 8 {
		if v, ok := s.an.AtomHook(e); ok {
			if _, isC := v.IsConst(); isC {
				return v.Intersect(isRange(0, 1))
			}
		}
	}
	if depth > 8 {
		return isRange(0, 1)
	}
	switch e.Op {
	case "not":
		v := s.evalBoolD(e.Args[0], depth+1)
		return boolSet(v.Contains(0), v.Contains(1))
	case "bin":
		x, y := e.Args[0], e.Args[1]
		op := e.binOp()
		switch {
		case isIntExpr(x) && isIntExpr(y) && cmpBinOp(op):
			d := s.linOf(x).add(s.linOf(y), -1) // x - y
			if op == "==" || op == "!=" {
				// c*(v/c) against v: decided by what is known of v % c
				if xv, cv, ok := quotientTimesDivisor(d); ok {
					rem := mkBin(token.REM, xv, mkConst(cv, xv.Typ), xv.Typ, xv.Typ)
					r, has := s.rng[rem.Key]
					if !has && s.an != nil && s.an.AtomHook != nil {
						r, has = s.an.AtomHook(rem)
					}
					if has && !r.Empty() {
						if z, isC := r.IsConst(); isC && z == 0 {
							return isConst(b2i(op == "=="))
						}
						if !r.Contains(0) {
							return isConst(b2i(op == "!="))
						}
					}
				}
			}
			switch op {
			case "<":
				t := s.impliedGE(d.neg().add(linConst(1), -1)) // y-x-1>=0
				f := s.impliedGE(d)
				return boolSet(!f, !t)
			case "<=":
				t := s.impliedGE(d.neg())
				f := s.impliedGE(d.add(linConst(1), -1))
				return boolSet(!f, !t)
			case "==":
				t := s.impliedGE(d) && s.impliedGE(d.neg())
				f := s.impliedNE(d)
				return boolSet(!f, !t)
			case "!=":
				f := s.impliedGE(d) && s.impliedGE(d.neg())
				t := s.impliedNE(d)
				return boolSet(!f, !t)
			}
		case (op == "==" || op == "!=") && (x.IsNil() || y.IsNil()):
			o := x
			if x.IsNil() {
				o = y
			}
			nn := s.nonNil(o)
			isNilPossible, isNonNilPossible := nn.Contains(0), nn.Contains(1)
			if op == "==" {
				return boolSet(isNilPossible, isNonNilPossible)
			}
			return boolSet(isNonNilPossible, isNilPossible)
		case (op == "==" || op == "!=") && isBoolType(x.Typ):
			a, b := s.evalBoolD(x, depth+1), s.evalBoolD(y, depth+1)
			ca, oka := a.IsConst()
			cb, okb := b.IsConst()
			if oka && okb {
				if op == "==" {
					return isConst(b2i(ca == cb))
				}
				return isConst(b2i(ca != cb))
			}
		case op == "==" || op == "!=":
			if x.Key == y.Key {
				return isConst(b2i(op == "=="))
			}
		}
	case "istype":
		ts, ok := s.types[e.Args[0].Key]
		if !ok {
			ts = s.structuralType(e.Args[0])
		}
		if ts.Pos != nil {
			if ts.Pos[e.S] && len(ts.Pos) == 1 {
				return isConst(1)
			}
			if !ts.Pos[e.S] {
				return isConst(0)
			}
		}
		if ts.Neg[e.S] {
			return isConst(0)
		}
	}
	if v, ok := s.rng[e.Key]; ok {
		return v.Intersect(isRange(0, 1))
	}
	if s.an != nil && s.an.AtomHook != nil {
		if v, ok := s.an.AtomHook(e); ok {
			return v.Intersect(isRange(0, 1))
		}
	}
	return isRange(0, 1)
}

func b2i(b bool) int64 {
	if b {
		return 1
	}
	return 0
}

// structuralType returns the dynamic type of an interface-valued term when
// it is evident from the term (makeiface).
func (s *State) structuralType(e *Expr) TypeSet {
	if e.Op == "makeiface" {
		return TypeSet{Pos: map[string]bool{e.S: true}}
	}
	if e.IsNil() {
		return TypeSet{Pos: map[string]bool{}}
	}
	return TypeSet{}
}

// nonNil returns {1} if e is certainly non-nil, {0} if certainly nil.
func (s *State) nonNil(e *Expr) ISet {
	switch e.Op {
	case "nil":
		return isConst(0)
	case "ld":
		if s.an != nil && len(e.Args) == 1 && e.Args[0].Op == "global" && s.an.P.nonNilGlobals()[strings.TrimSuffix(e.Args[0].S, "#")] {
			return isConst(1)
		}
	case "alloc", "makeiface", "fa", "ia", "makeslice", "makechan", "makemap", "closure", "fn", "slice", "append", "append1", "struct":
		if e.Op == "makeiface" {
			// an interface holding a typed nil pointer is non-nil as an interface
			return isConst(1)
		}
		if e.Op == "slice" || e.Op == "append" || e.Op == "append1" {
			return isRange(0, 1)
		}
		return isConst(1)
	case "call":
		switch e.S {
		case "errors.New", "fmt.Errorf", "time.NewTimer":
			return isConst(1)
		case "errors.Join":
			any1, all0 := false, true
			for _, a := range e.Args {
				v := s.nonNil(a)
				if c, ok := v.IsConst(); ok && c == 1 {
					any1 = true
				}
				if c, ok := v.IsConst(); !ok || c != 0 {
					all0 = false
				}
			}
			if any1 {
				return isConst(1)
			}
			if all0 {
				return isConst(0)
			}
		}
	}
	if v, ok := s.rng["nn:"+e.Key]; ok {
		return v
	}
	if s.an != nil && s.an.AtomHook != nil {
		if v, ok := s.an.AtomHook(mk("nn", nil, "", 0, e)); ok {
			return v
		}
	}
	return isRange(0, 1)
}

// assume refines the state with the truth value of boolean term e.
func (s *State) assume(e *Expr, truth bool) {
	if s.dead {
		return
	}
	if c, ok := e.IsConst(); ok {
		if (c != 0) != truth {
			s.dead = true
		}
		return
	}
	cur := s.evalBool(e)
	if !cur.Contains(b2i(truth)) {
		s.dead = true
		return
	}
	switch e.Op {
	case "not":
		s.assume(e.Args[0], !truth)
		return
	case "bin":
		x, y := e.Args[0], e.Args[1]
		op := e.binOp()
		switch {
		case isIntExpr(x) && isIntExpr(y) && cmpBinOp(op):
			d := s.linOf(x).add(s.linOf(y), -1) // x - y
			switch {
			case (op == "<" && truth) || false:
				s.addFact(Fact{L: d.neg().add(linConst(1), -1)})
			case op == "<" && !truth:
				s.addFact(Fact{L: d})
			case op == "<=" && truth:
				s.addFact(Fact{L: d.neg()})
			case op == "<=" && !truth:
				s.addFact(Fact{L: d.add(linConst(1), -1)})
			case (op == "==" && truth) || (op == "!=" && !truth):
				s.addFact(Fact{L: d})
				if !s.dead {
					s.addFact(Fact{L: d.neg()})
				}
			default:
				s.addFact(Fact{L: d, NE: true})
			}
			// c*(x/c) compared with x itself decides x % c
			if op == "==" || op == "!=" {
				if xv, cv, ok := quotientTimesDivisor(d); ok {
					rem := mkBin(token.REM, xv, mkConst(cv, xv.Typ), xv.Typ, xv.Typ)
					if (op == "==") == truth {
						s.rng[rem.Key] = isConst(0)
					} else if lo := s.rangeOf(xv).Lo(); lo != negInf && lo >= 0 {
						s.rng[rem.Key] = isRange(1, cv-1)
					}
				}
			}
			// derived terms: x % m relation when x becomes constant etc. is
			// handled by rangeOf on demand.
		case (op == "==" || op == "!=") && (x.IsNil() || y.IsNil()):
			o := x
			if x.IsNil() {
				o = y
			}
			wantNil := (op == "==") == truth
			nn := s.nonNil(o)
			var want ISet
			if wantNil {
				want = isConst(0)
			} else {
				want = isConst(1)
			}
			r := nn.Intersect(want)
			if r.Empty() {
				s.dead = true
				return
			}
			s.rng["nn:"+o.Key] = r
			if wantNil && o.Typ != nil {
				if _, isIface := o.Typ.Underlying().(*types.Interface); isIface {
					s.types[o.Key] = TypeSet{Pos: map[string]bool{}}
				}
			}
		case (op == "==" || op == "!=") && isBoolType(x.Typ):
			a, b := s.evalBool(x), s.evalBool(y)
			same := (op == "==") == truth
			if ca, ok := a.IsConst(); ok {
				s.assume(y, (ca != 0) == same)
			} else if cb, ok := b.IsConst(); ok {
				s.assume(x, (cb != 0) == same)
			}
		}
	case "istype":
		k := e.Args[0].Key
		ts, ok := s.types[k]
		if !ok {
			ts = s.structuralType(e.Args[0])
		}
		ts = ts.clone()
		if truth {
			ts.Pos = map[string]bool{e.S: true}
			s.rng["nn:"+k] = isConst(1)
		} else {
			if ts.Pos != nil {
				delete(ts.Pos, e.S)
			} else {
				if ts.Neg == nil {
					ts.Neg = map[string]bool{}
				}
				ts.Neg[e.S] = true
			}
		}
		s.types[k] = ts
	}
	if s.dead {
		return
	}
	s.rng[e.Key] = isConst(b2i(truth))
}

// quotientTimesDivisor recognises d = ±(c*(x/c) - x): the difference between a
// value and its quotient by a positive constant multiplied back.
func quotientTimesDivisor(d Lin) (x *Expr, c int64, ok bool) {
	if d.C != 0 || len(d.T) != 2 {
		return nil, 0, false
	}
	for k, coef := range d.T {
		q := d.E[k]
		if q == nil || q.Op != "bin" || q.binOp() != "/" || len(q.Args) != 2 {
			continue
		}
		cv, isC := q.Args[1].IsConst()
		if !isC || cv <= 1 || (coef != cv && coef != -cv) {
			continue
		}
		for k2, coef2 := range d.T {
			if k2 != k && k2 == q.Args[0].Key && coef2 == -coef/cv {
				return q.Args[0], cv, true
			}
		}
	}
	return nil, 0, false
}

// ---- memory -----------------------------------------------------------------

func aliasClass(addr *Expr) string {
	switch addr.Op {
	case "fa":
		return "F:" + addr.Aux + "." + addr.S
	case "bea", "cpa":
		return "E:*uint8"
	case "ia":
		if addr.Typ != nil {
			// byte and uint8 are one type
			return "E:" + strings.ReplaceAll(types.TypeString(addr.Typ, nil), "byte", "uint8")
		}
		return "E:?"
	case "alloc":
		return "A:" + addr.Key
	case "global":
		return "G:" + addr.Key
	}
	if addr.Typ != nil {
		return "P:" + types.TypeString(addr.Typ, nil)
	}
	return "P:?"
}

func ownerName(t types.Type) string {
	if n, ok := t.(*types.Named); ok {
		return n.Obj().Name()
	}
	return types.TypeString(t, nil)
}

// rootOf returns the innermost base of an address term.
func rootOf(addr *Expr) *Expr {
	for addr != nil && (addr.Op == "fa" || addr.Op == "ia" || addr.Op == "arr" || addr.Op == "bea" || addr.Op == "cpa") {
		addr = addr.Args[0]
	}
	return addr
}

func zeroValue(t types.Type) *Expr {
	switch u := t.Underlying().(type) {
	case *types.Basic:
		switch {
		case u.Info()&types.IsBoolean != 0:
			return mkBool(false)
		case u.Info()&types.IsInteger != 0:
			return mkConst(0, t)
		case u.Info()&types.IsString != 0:
			return mkStr("")
		}
	case *types.Pointer, *types.Slice, *types.Map, *types.Chan, *types.Interface, *types.Signature:
		return mkNil(t)
	}
	return mk("zero", t, types.TypeString(t, nil), 0)
}

func (s *State) load(addr *Expr, typ types.Type) *Expr {
	if v, ok := s.mem[addr.Key]; ok {
		return v
	}
	// element of a constant package-level table at a known index
	if s.an != nil && addr.Op == "ia" && len(addr.Args) == 2 {
		base := addr.Args[0]
		if base.Op == "arr" && len(base.Args) > 0 {
			base = base.Args[0]
		}
		if base.Op == "global" {
			if tab, ok := s.an.P.constGlobals()[strings.TrimSuffix(base.S, "#")]; ok {
				if i, isC := s.rangeOf(addr.Args[1]).IsConst(); isC {
					if v, has := tab[i]; has {
						return mkConst(v, typ)
					}
				}
			}
		}
	}
	if addr.Op == "fa" {
		if whole, ok := s.mem[addr.Args[0].Key]; ok {
			if s.an != nil && whole.Op == "ld" && len(whole.Args) == 1 && whole.Args[0].Op == "global" {
				// a copy of a package-level struct of constants
				if v, ok := s.an.P.constStructField(strings.TrimSuffix(whole.Args[0].S, "#"), addr.S, typ); ok {
					return mkConst(v, typ)
				}
			}
			return mkField(whole, addr.S, 0, typ)
		}
		if s.an != nil && addr.Args[0].Op == "global" {
			if v, ok := s.an.P.constStructField(strings.TrimSuffix(addr.Args[0].S, "#"), addr.S, typ); ok {
				return mkConst(v, typ)
			}
		}
	}
	root := rootOf(addr)
	if root != nil && s.fresh[root.Key] && addr.Op == "alloc" {
		// whole-value load of a local object: rebuild it from its parts
		if at, ok := typ.Underlying().(*types.Array); ok {
			var beas []*Expr
			for k := range s.mem {
				if me := s.memE[k]; me != nil && me.Op == "bea" && rootOf2(me.Args[0]) != nil && rootOf2(me.Args[0]).Key == root.Key {
					beas = append(beas, me)
				}
			}
			if len(beas) == 1 {
				w := map[string]int64{"be16": 2, "be32": 4, "be64": 8}[beas[0].S]
				if c, isC := beas[0].Args[1].IsConst(); isC && c == 0 && w == at.Len() {
					return mk("bytes", typ, beas[0].S, 0, s.mem[beas[0].Key])
				}
			}
			// written octet by octet: byte(x>>24), byte(x>>16), byte(x>>8), byte(x)
			if n := at.Len(); len(beas) == 0 && (n == 2 || n == 4 || n == 8) {
				arr := mk("arr", types.NewPointer(typ), "", n, addr)
				var vals []*Expr
				for i := int64(0); i < n; i++ {
					ia := mkIndexAddr(arr, mkConst(i, intT), types.NewPointer(at.Elem()))
					v, has := s.mem[ia.Key]
					if !has {
						break
					}
					vals = append(vals, v)
				}
				if int64(len(vals)) == n {
					if x, ok := beOctets(vals); ok {
						return mk("bytes", typ, fmt.Sprintf("be%d", 8*n), 0, x)
					}
				}
			}
		}
		if at, ok := typ.Underlying().(*types.Array); ok && at.Len() >= 1 && at.Len() <= 8 {
			// a small table of values, every element known: `for _, c := range
			// [...]T{…}` reads it back by constant index
			if _, isBasic := at.Elem().Underlying().(*types.Basic); !isBasic {
				if v, ok := s.rebuild(addr, typ, 0); ok {
					return v
				}
			}
		}
		if st, ok := typ.Underlying().(*types.Struct); ok {
			var args []*Expr
			all := true
			for i := 0; i < st.NumFields(); i++ {
				f := st.Field(i)
				fa := mkFieldAddr(addr, f.Name(), i, types.NewPointer(f.Type()), ownerName(typ))
				v, has := s.mem[fa.Key]
				if !has {
					all = false
					break
				}
				args = append(args, mkStr(f.Name()), v)
			}
			if all {
				return mk("struct", typ, types.TypeString(typ, nil), 0, args...)
			}
		}
	}

	cls := aliasClass(addr)
	return mk("ld", typ, "@"+s.ver[cls], 0, addr)
}

// rebuild reassembles the value stored at addr from the cells below it
// (fields of structs, elements of small arrays).
func (s *State) rebuild(addr *Expr, typ types.Type, depth int) (*Expr, bool) {
	if v, ok := s.mem[addr.Key]; ok {
		return v, true
	}
	if depth > 3 {
		return nil, false
	}
	switch u := typ.Underlying().(type) {
	case *types.Struct:
		var args []*Expr
		for i := 0; i < u.NumFields(); i++ {
			f := u.Field(i)
			fa := mkFieldAddr(addr, f.Name(), i, types.NewPointer(f.Type()), ownerName(typ))
			v, ok := s.rebuild(fa, f.Type(), depth+1)
			if !ok {
				return nil, false
			}
			args = append(args, mkStr(f.Name()), v)
		}
		return mk("struct", typ, types.TypeString(typ, nil), 0, args...), true
	case *types.Array:
		if u.Len() < 1 || u.Len() > 8 {
			return nil, false
		}
		arr := mk("arr", types.NewPointer(typ), "", u.Len(), addr)
		var vals []*Expr
		for i := int64(0); i < u.Len(); i++ {
			ia := mkIndexAddr(arr, mkConst(i, intT), types.NewPointer(u.Elem()))
			v, ok := s.rebuild(ia, u.Elem(), depth+1)
			if !ok {
				return nil, false
			}
			vals = append(vals, v)
		}
		return mk("arrval", typ, "", 0, vals...), true
	}
	return nil, false
}

// zeroInit records the zero value of a freshly allocated object explicitly
// (field-wise for structs, element-wise for small arrays), so that absence of
// an entry always means "unknown".
func (s *State) zeroInit(addr *Expr, t types.Type, site string) {
	switch u := t.Underlying().(type) {
	case *types.Struct:
		for i := 0; i < u.NumFields(); i++ {
			f := u.Field(i)
			fa := mkFieldAddr(addr, f.Name(), i, types.NewPointer(f.Type()), ownerName(t))
			s.mem[fa.Key] = zeroValue(f.Type())
			s.memE[fa.Key] = fa
		}
	case *types.Array:
		if u.Len() <= 32 {
			arr := mk("arr", types.NewPointer(t), "", u.Len(), addr)
			for i := int64(0); i < u.Len(); i++ {
				ia := mkIndexAddr(arr, mkConst(i, intT), types.NewPointer(u.Elem()))
				s.mem[ia.Key] = zeroValue(u.Elem())
				s.memE[ia.Key] = ia
			}
		}
	default:
		s.mem[addr.Key] = zeroValue(t)
		s.memE[addr.Key] = addr
	}
}

func mayAlias(s *State, a, b *Expr) bool {
	if a.Key == b.Key {
		return true
	}
	if aliasClass(a) != aliasClass(b) {
		return false
	}
	ra, rb := rootOf(a), rootOf(b)
	if ra != nil && rb != nil && ra.Key != rb.Key && (s.fresh[ra.Key] || s.fresh[rb.Key]) {
		return false
	}
	// byte ranges within the same root: [off, off+width)
	span := func(e *Expr) (root string, lo, hi int64, ok bool) {
		switch e.Op {
		case "ia":
			c, isC := e.Args[1].IsConst()
			if !isC && s != nil {
				// an index known to lie in a finite range touches only that
				// range (a fill loop over 0..15 leaves octets 16.. alone)
				if r := s.rangeOf(e.Args[1]); !r.Empty() && r.Lo() != negInf && r.Hi() != posInf && r.Lo() >= 0 && r.Hi()-r.Lo() <= 4096 {
					return e.Args[0].Key, r.Lo(), r.Hi() + 1, true
				}
			}
			return e.Args[0].Key, c, c + 1, isC
		case "bea":
			c, isC := e.Args[1].IsConst()
			w := map[string]int64{"be16": 2, "be32": 4, "be64": 8}[e.S]
			return e.Args[0].Key, c, c + w, isC
		case "cpa":
			c, isC := e.Args[1].IsConst()
			return e.Args[0].Key, c, posInf, isC
		}
		return "", 0, 0, false
	}
	if ra, la, ha, oka := span(a); oka {
		if rb, lb, hb, okb := span(b); okb && ra == rb {
			if ha <= lb || hb <= la {
				return false
			}
		}
	}
	if a.Op == "fa" && b.Op == "fa" && a.Args[0].Key == b.Args[0].Key {
		return a.S == b.S
	}
	if a.Op == "fa" && b.Op == "fa" {
		// fields of distinct elements of one array
		if ra, la, ha, oka := span(a.Args[0]); oka {
			if rb, lb, hb, okb := span(b.Args[0]); okb && ra == rb {
				if ha <= lb || hb <= la {
					return false
				}
			}
		}
	}
	return true
}

func (s *State) store(addr, val *Expr, site string) {
	for k := range s.mem {
		e := s.memE[k]
		if e == nil {
			delete(s.mem, k)
			continue
		}
		if k == addr.Key {
			continue
		}
		// entries below the stored address (fields of a stored struct)
		if strings.Contains(k, addr.Key) && k != addr.Key {
			delete(s.mem, k)
			delete(s.memE, k)
			continue
		}
		// whole-value entry above a stored field
		if strings.Contains(addr.Key, k) {
			delete(s.mem, k)
			delete(s.memE, k)
			continue
		}
		if mayAlias(s, e, addr) {
			delete(s.mem, k)
			delete(s.memE, k)
		}
	}
	s.mem[addr.Key] = val
	s.memE[addr.Key] = addr
	s.ver[aliasClass(addr)] = site
}

// killClass forgets everything stored in an alias class.
func (s *State) killClass(cls string, site string) {
	for k := range s.mem {
		e := s.memE[k]
		if e == nil || aliasClass(e) == cls {
			delete(s.mem, k)
			delete(s.memE, k)
		}
	}
	s.ver[cls] = site
}

// escape marks an alloc as no longer fresh/unaliased and forgets its content.
func (s *State) escape(root *Expr, forget bool) {
	if root == nil {
		return
	}
	if forget {
		for k := range s.mem {
			if strings.Contains(k, root.Key) {
				delete(s.mem, k)
				delete(s.memE, k)
			}
		}
		delete(s.fresh, root.Key)
	}
}

// ---- join -------------------------------------------------------------------

// join merges o into s (same partition). It reports whether s changed.
func (s *State) join(o *State, widen bool, joinTok string) bool {
	changed := false
	keep := map[string]bool{}
	for v, e := range s.env {
		oe, ok := o.env[v]
		if ok && oe.Key == e.Key {
			continue
		}
		if phi, isPhi := v.(*ssa.Phi); isPhi && ok {
			// generalise to the phi leaf, carrying the union of what is known
			leaf := mkLeaf("phi", phi.Name(), phi.Type())
			if e.Key != leaf.Key {
				s.transferTo(leaf, e, s)
			}
			tmp := newState(s.an)
			tmp.transferTo(leaf, oe, o)
			for k, r := range tmp.rng {
				if cur, has := s.rng[k]; has {
					s.rng[k] = cur.Union(r)
					keep[k] = true
				}
			}
			for k := range s.rng {
				if strings.Contains(k, leaf.Key) {
					if _, has := tmp.rng[k]; !has {
						delete(s.rng, k)
					}
				}
			}
			if ts, has := s.types[leaf.Key]; has {
				if ots, has2 := tmp.types[leaf.Key]; has2 && ts.Pos != nil && ots.Pos != nil {
					for x := range ots.Pos {
						ts.Pos[x] = true
					}
				} else {
					delete(s.types, leaf.Key)
				}
			}
			s.env[v] = leaf
			keep["T:"+leaf.Key] = true
			changed = true
			continue
		}
		if ok {
			// same instruction evaluated under a newer memory version or a
			// more general operand: adopt the newer term (facts about the
			// old one that the other state does not share are dropped below)
			s.env[v] = oe
		} else {
			delete(s.env, v)
		}
		changed = true
	}
	// memory cells holding different scalar / slice values: generalise to a
	// per-join leaf carrying the union of what is known (the memory analogue
	// of the phi generalisation above; named results and struct fields of
	// helpers need it where the original code had an SSA phi)
	for k, v := range s.mem {
		ov, ok := o.mem[k]
		if !ok || ov.Key == v.Key || v.Typ == nil || ov.Typ == nil {
			continue
		}
		// the cell's declared type (value-preserving conversions leave the
		// stored terms with narrower types)
		lt := v.Typ
		if me := s.memE[k]; me != nil && me.Typ != nil {
			if pt, isP := me.Typ.Underlying().(*types.Pointer); isP {
				lt = pt.Elem()
			}
		}
		joinable := false
		switch {
		case isBoolType(lt):
			joinable = isBoolType(v.Typ) && isBoolType(ov.Typ)
		case intTypeInfo(lt).ok:
			joinable = isIntExpr(v) && isIntExpr(ov)
		default:
			if _, isSl := lt.Underlying().(*types.Slice); isSl {
				joinable = types.Identical(v.Typ, ov.Typ)
			}
		}
		if !joinable {
			continue
		}
		leaf := mkLeaf("mphi", k+"@"+joinTok, lt)
		side := func(val *Expr, src *State) map[string]ISet {
			tmp := newState(s.an)
			if val.Key != leaf.Key {
				tmp.transferTo(leaf, val, src)
				return tmp.rng
			}
			out := map[string]ISet{}
			for rk, r := range src.rng {
				if strings.Contains(rk, leaf.Key) {
					out[rk] = r
				}
			}
			return out
		}
		a, b := side(v, s), side(ov, o)
		for rk := range s.rng {
			if strings.Contains(rk, leaf.Key) {
				delete(s.rng, rk)
			}
		}
		for rk, ra := range a {
			rb, has := b[rk]
			if !has {
				continue
			}
			u := ra.Union(rb)
			if widen && !u.Equal(ra) {
				continue // growing at a loop head: give the range up
			}
			s.rng[rk] = u
			keep[rk] = true
		}
		s.mem[k] = leaf
		o2 := ov
		_ = o2
		changed = changed || v.Key != leaf.Key
	}
	for k, r := range s.rng {
		if keep[k] {
			continue
		}
		or, ok := o.rng[k]
		if !ok {
			delete(s.rng, k)
			changed = true
			continue
		}
		u := r.Union(or)
		if !u.Equal(r) {
			if widen && !u.Empty() && !r.Empty() {
				// interval widening: only the unstable bound is given up
				lo, hi := r.Lo(), r.Hi()
				if u.Lo() < lo {
					lo = negInf
				}
				if u.Hi() > hi {
					hi = posInf
				}
				w := isRange(lo, hi)
				if w.IsTop() {
					delete(s.rng, k)
				} else {
					s.rng[k] = w
				}
			} else {
				s.rng[k] = u
			}
			changed = true
		}
	}
	for k := range s.facts {
		if _, ok := o.facts[k]; !ok {
			delete(s.facts, k)
			changed = true
		}
	}
	for k, v := range s.mem {
		ov, ok := o.mem[k]
		if ok && v.Op == "mphi" && strings.HasSuffix(v.S, "@"+joinTok+"#") {
			continue // generalised above
		}
		if !ok || ov.Key != v.Key {
			e := s.memE[k]
			delete(s.mem, k)
			delete(s.memE, k)
			if e != nil {
				cls := aliasClass(e)
				s.ver[cls] = unionTok(unionTok(s.ver[cls], o.ver[cls]), joinTok)
			}
			changed = true
		}
	}
	for k, v := range o.ver {
		if u := unionTok(s.ver[k], v); u != s.ver[k] {
			s.ver[k] = u
			changed = true
		}
	}
	for k, v := range s.ver {
		if _, ok := o.ver[k]; !ok {
			if u := unionTok(v, ""); u != v {
				s.ver[k] = u
				changed = true
			}
		}
	}
	for k := range s.fresh {
		if !o.fresh[k] {
			delete(s.fresh, k)
			changed = true
		}
	}
	for k := range o.shared {
		if !s.shared[k] {
			s.shared[k] = true
			changed = true
		}
	}
	for k := range o.may {
		if !s.may[k] {
			s.may[k] = true
			changed = true
		}
	}
	for k := range s.must {
		if !o.must[k] {
			delete(s.must, k)
			changed = true
		}
	}
	for k, t := range s.types {
		if keep["T:"+k] {
			continue
		}
		ot, ok := o.types[k]
		if !ok {
			delete(s.types, k)
			changed = true
			continue
		}
		nt := TypeSet{}
		if t.Pos != nil && ot.Pos != nil {
			nt.Pos = map[string]bool{}
			for x := range t.Pos {
				nt.Pos[x] = true
			}
			for x := range ot.Pos {
				nt.Pos[x] = true
			}
		} else {
			nt.Neg = map[string]bool{}
			if t.Neg != nil && ot.Neg != nil {
				for x := range t.Neg {
					if ot.Neg[x] {
						nt.Neg[x] = true
					}
				}
			}
		}
		if nt.String() != t.String() {
			s.types[k] = nt
			changed = true
		}
	}
	return changed
}

// transferTo records on `leaf` what state src knows about term e (value
// set, length, nilness, dynamic type).
func (s *State) transferTo(leaf, e *Expr, src *State) {
	t := leaf.Typ
	switch {
	case isBoolType(t):
		s.rng[leaf.Key] = src.evalBool(e)
	case intTypeInfo(t).ok:
		s.rng[leaf.Key] = src.rangeOf(e)
	default:
		if t != nil {
			if _, ok := t.Underlying().(*types.Slice); ok {
				s.rng[mkLen(leaf).Key] = src.rangeOf(mkLen(e))
			}
		}
		nn := src.nonNil(e)
		s.rng["nn:"+leaf.Key] = nn
		if ts, ok := src.types[e.Key]; ok {
			s.types[leaf.Key] = ts.clone()
		} else if e.Op == "makeiface" || e.IsNil() {
			s.types[leaf.Key] = src.structuralType(e)
		}
	}
}

// event records that an event happened.
func (s *State) event(name string) {
	s.may[name] = true
	s.must[name] = true
}

// fingerprint renders everything that matters for change detection.
func (s *State) fingerprint() string {
	var sb strings.Builder
	sb.WriteString(s.digest())
	sb.WriteString("#M")
	for _, k := range sortedKeys(s.mem) {
		sb.WriteString(k + "=" + s.mem[k].Key + ";")
	}
	sb.WriteString("#V")
	for _, k := range sortedKeys(s.ver) {
		sb.WriteString(k + "=" + s.ver[k] + ";")
	}
	sb.WriteString("#T")
	for _, k := range sortedKeys(s.types) {
		sb.WriteString(k + "=" + s.types[k].String() + ";")
	}
	sb.WriteString("#E")
	es := make([]string, 0, len(s.env))
	for v, e := range s.env {
		es = append(es, v.Name()+"="+e.Key)
	}
	sort.Strings(es)
	sb.WriteString(strings.Join(es, ";"))
	sb.WriteString("#Y")
	sb.WriteString(strings.Join(sortedKeys(s.may), ","))
	sb.WriteString("#U")
	sb.WriteString(strings.Join(sortedKeys(s.must), ","))
	sb.WriteString("#F")
	sb.WriteString(strings.Join(sortedKeys(s.fresh), ","))
	return sb.String()
}

// unionTok joins two memory-version tokens. A token is a "|"-separated sorted
// set of write-site names ("0" stands for the function entry); the union is
// a finite lattice, so fixpoint iteration converges and the same set of
// possible memory contents gets the same name in every block.
func unionTok(a, b string) string {
	if a == b {
		return a
	}
	set := map[string]bool{}
	for _, t := range []string{a, b} {
		if t == "" {
			set["0"] = true
			continue
		}
		for _, x := range strings.Split(t, "|") {
			set[x] = true
		}
	}
	ks := make([]string, 0, len(set))
	for k := range set {
		ks = append(ks, k)
	}
	sort.Strings(ks)
	return strings.Join(ks, "|")
}

// digest is a canonical rendering of the state (debugging / reports).
func (s *State) digest() string {
	var sb strings.Builder
	for _, k := range sortedKeys(s.rng) {
		fmt.Fprintf(&sb, "%s∈%s; ", k, s.rng[k])
	}
	fs := make([]string, 0, len(s.facts))
	for _, f := range s.facts {
		fs = append(fs, f.String())
	}
	sort.Strings(fs)
	sb.WriteString(strings.Join(fs, "; "))
	return sb.String()
}
