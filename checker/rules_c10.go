package main

func init() { register("C10", checkC10) }

func checkC10(c *Check) {
	c.checkOwnership("C10.1 ownership")
	c.checkSpawnJoin("C10.4 spawn-join")
	c.readerHandoff()
	c.blockingInventory("C10.2 interruptible-waits")
	c.dialSingleResult("C10.2 dial-result")
	c.midTransitionCease("C10.3 cease-before-close")
	c.peerStopDisablesBoth("C10.3 stop-joins-everything")
	c.serveShutdown("C10.3 stop-joins-everything")
	c.cleanupOnExit("C10.5 cleanup-completeness")
	c.openAbortOnError("C10.5 connection-released-on-abort")
	c.disableStopsAndJoins("C10.3 stop-joins-everything")
	c.packageState("C10.1 package-state")
	c.rendezvousChannels("C10.3 nothing-parked-at-stop", "inConnCh")
	c.serverContracts("C10.3 shutdown-protocol")
	c.peerManagerContracts("C10.3 manager-effects")
	c.fsmContracts("C10.5 fsm-effects")
	c.noWaitUnderLock("C10.3 no-wait-under-lock")
}
