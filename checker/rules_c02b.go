package main

// C02 continued: structural OPEN decoding and the OpenSent reaction.

import (
	"fmt"
	"go/types"
	"strings"

	"golang.org/x/tools/go/ssa"
)

// paramExpr returns the leaf term of fn's i-th parameter.
func paramExpr(fn *ssa.Function, i int) *Expr {
	if fn == nil || i >= len(fn.Params) {
		return mkLeaf("param", "?", nil)
	}
	return mkLeaf("param", fn.Params[i].Name(), fn.Params[i].Type())
}

// byteLoad is the term of b[i] for a byte slice term b at function entry.
func byteLoad(b *Expr, i int64) *Expr {
	u8 := types.Typ[types.Uint8]
	return mk("ld", u8, "@", 0, mkIndexAddr(b, mkConst(i, intT), types.NewPointer(u8)))
}

// lenAtLeastOneHook decides comparisons of a len(...) term with a constant
// under the assumption that the length is >= 1 ("bytes remain").
func lenAtLeastOneHook(e *Expr) (ISet, bool) {
	op, x, y, ok := cmpOf(e)
	if !ok {
		return nil, false
	}
	isLen := func(t *Expr) bool { return t.Op == "len" }
	var c int64
	lenLeft := false
	switch {
	case isLen(x):
		cv, isC := y.IsConst()
		if !isC {
			return nil, false
		}
		c, lenLeft = cv, true
	case isLen(y):
		cv, isC := x.IsConst()
		if !isC {
			return nil, false
		}
		c = cv
	default:
		return nil, false
	}
	switch op {
	case "==":
		if c < 1 {
			return isConst(0), true
		}
	case "!=":
		if c < 1 {
			return isConst(1), true
		}
	case "<":
		if lenLeft && c <= 1 {
			return isConst(0), true
		}
		if !lenLeft && c < 1 {
			return isConst(1), true
		}
	case "<=":
		if lenLeft && c < 1 {
			return isConst(0), true
		}
		if !lenLeft && c <= 1 {
			return isConst(1), true
		}
	}
	return nil, false
}

// tlvLoopRules checks a <code,len,value> consumption loop: it may finish
// successfully only when no byte remains, and it advances by exactly 2+len.
func (c *Check) tlvLoopRules(rule, fnName string, bParam int) {
	p := c.P
	fn := p.Fn(fnName)
	if fn == nil {
		return
	}
	// strictness
	c.runCases(rule+" strict-consumption", fnName, []asmCase{
		{name: "bytes remain after every advance => no successful return", hook: lenAtLeastOneHook, forbid: forbidAccept},
	})
	// advance: the cursor phi's back-edge operand is cursor[2+int(cursor[1]):]
	fn, bParam = p.loopDelegate(fn, bParam)
	a := NewAnalysis(p, fn)
	a.Run()
	for _, u := range a.Undecided {
		c.undecided(rule+" advance", fnName, "analysis", p.Pos(fn.Pos()), u)
	}
	found := 0
	for _, b := range fn.Blocks {
		for _, in := range b.Instrs {
			phi, ok := in.(*ssa.Phi)
			if !ok {
				break
			}
			if _, isSlice := phi.Type().Underlying().(*types.Slice); !isSlice || !inLoop(b) {
				continue
			}
			// cursor: entry operand is the byte-slice parameter
			isCursor := false
			for i, e := range phi.Edges {
				if !b.Dominates(b.Preds[i]) && e == ssa.Value(fn.Params[bParam]) {
					isCursor = true
				}
			}
			if !isCursor {
				continue
			}
			found++
			leaf := mkLeaf("phi", phi.Name(), phi.Type())
			for i, e := range phi.Edges {
				pred := b.Preds[i]
				if !b.Dominates(pred) {
					continue
				}
				sts := a.EdgeOut[[2]int{pred.Index, b.Index}]
				if len(sts) == 0 {
					c.undecided(rule+" advance", fnName, "cursor back edge", p.InstrPos(phi), "back edge not reachable in the analysis")
					continue
				}
				for _, st := range sts {
					ne := a.exprOf(st, nil, e)
					// len(new) == len(cursor) - 2 - cursor[1]
					lenByte := mk("ld", types.Typ[types.Uint8], "@"+st.ver["E:*uint8"], 0, mkIndexAddr(leaf, mkConst(1, intT), nil))
					want := st.linOf(mkLen(leaf)).add(linConst(2), -1).add(st.linOf(lenByte), -1)
					got := st.linOf(mkLen(ne))
					d := got.add(want, -1)
					root, _, hi := sliceParts(ne)
					okAdv := false
					if cv, isC := d.isConst(); isC && cv == 0 && root.Key == leaf.Key && hi == nil {
						okAdv = true
					}
					c.require(okAdv, rule+" advance", fnName, "cursor advance", p.InstrPos(phi),
						fmt.Sprintf("next cursor must be cursor[2+int(cursor[1]):]; got %s", trunc(ne.Key, 120)))
				}
			}
		}
	}
	c.floor(rule+" advance", found, 1, "TLV cursor phi in "+fnName)
}

// tlvExactFit: a last element that exactly fills the rest of the block is
// accepted (when its own decoder accepts it), and an element decoder's error
// is this decoder's error. The assumption is placed on the cursor at the loop
// head: len(cursor) == 2 + int(cursor[1]).
func (c *Check) tlvExactFit(rule, fnName string, bParam int, inner string, typeOctet int64) {
	p := c.P
	fn := p.Fn(fnName)
	if fn == nil {
		return
	}
	fn, bParam = p.loopDelegate(fn, bParam)
	var cursor *ssa.Phi
	for _, b := range fn.Blocks {
		for _, in := range b.Instrs {
			phi, ok := in.(*ssa.Phi)
			if !ok {
				break
			}
			if _, isSlice := phi.Type().Underlying().(*types.Slice); !isSlice || !inLoop(b) {
				continue
			}
			for i, e := range phi.Edges {
				if !b.Dominates(b.Preds[i]) && e == ssa.Value(fn.Params[bParam]) {
					cursor = phi
				}
			}
		}
	}
	if cursor == nil {
		c.undecided(rule, fnName, "cursor", p.Pos(fn.Pos()), "no cursor over the block parameter found")
		return
	}
	leaf := mkLeaf("phi", cursor.Name(), cursor.Type())
	isOctet := func(k int64) func(e *Expr) bool {
		return func(e *Expr) bool {
			if e.Op != "ld" || e.Args[0].Op != "ia" || e.Args[0].Args[0].Key != leaf.Key {
				return false
			}
			iv, isC := e.Args[0].Args[1].IsConst()
			return isC && iv == k
		}
	}
	maxLen := int64(253)
	if r, has := p.entryLenFacts(fn, map[*ssa.Function]*Analysis{})[bParam]; has && !r.Empty() && r.Hi() != posInf && r.Hi()-2 < maxLen {
		maxLen = r.Hi() - 2
	}
	exact := func(from, to *ssa.BasicBlock, st *State) {
		if to != cursor.Block() {
			return
		}
		// the element looked at first is the one that fills the block; what
		// later iterations see is kept apart (a loop that tests its condition
		// at the head comes back here with nothing left)
		if to.Dominates(from) {
			st.tags["first"] = 0
			return
		}
		st.tags["first"] = 1
		lenByte := mk("ld", types.Typ[types.Uint8], "@"+st.ver["E:*uint8"], 0, mkIndexAddr(leaf, mkConst(1, intT), nil))
		d := st.linOf(mkLen(leaf)).add(linConst(2), -1).add(st.linOf(lenByte), -1)
		st.addFact(Fact{L: d})
		st.addFact(Fact{L: d.neg()})
	}
	for _, innerFails := range []bool{false, true} {
		if innerFails && inner == "" {
			continue
		}
		a := NewAnalysis(p, fn)
		lo := int64(2)
		if inner == "" {
			lo = 0 // an element without a value (a capability of length 0) is complete too
		}
		h := rangeHook(isOctet(1), isRange(lo, maxLen))
		if typeOctet >= 0 {
			h = hooks(h, rangeHook(isOctet(0), isConst(typeOctet)))
		}
		if inner != "" {
			h = hooks(h, nnResult(inner, innerFails))
		}
		a.AtomHook = h
		a.AfterFlow = exact
		a.Run()
		if len(a.Undecided) > 0 {
			c.undecided(rule, fnName, "exact fit", p.Pos(fn.Pos()), a.Undecided[0])
			continue
		}
		acc, rej := 0, 0
		for _, rs := range p.errReturns(a) {
			if isAccept(rs) {
				acc++
			} else if rs.rs.State.tags["first"] == 1 {
				rej++
			}
		}
		if innerFails {
			c.require(acc == 0 && rej > 0, rule, fnName, "element decoder fails => error", p.Pos(fn.Pos()), "the element decoder's error is returned; nothing is accepted")
		} else {
			c.require(acc > 0 && rej == 0, rule, fnName, "last element fills the block exactly => accepted", p.Pos(fn.Pos()),
				fmt.Sprintf("with len(rest) == 2+len octet the element is complete: %d accepting and %d rejecting return(s) reachable", acc, rej))
		}
	}
}

func checkC02Decode(c *Check) {
	p := c.P
	dec := p.Fn("openMessage.decode")
	if dec != nil && c.sig("C02.3 open-body-structure", dec, 2) {
		b := paramExpr(dec, 1)
		lenB := mkLen(b)
		b9 := byteLoad(b, 9)
		only := func(code, sub int64) func(rs retSite) string {
			return func(rs retSite) string {
				if rs.ec.Notif != nil {
					cc, ok1 := rs.ec.Notif.Code.IsConst()
					ss, ok2 := rs.ec.Notif.Sub.IsConst()
					if ok1 && ok2 && cc == code && ss == sub {
						return ""
					}
				}
				return fmt.Sprintf("a return other than NOTIFICATION (%d,%d) is reachable: %s %v", code, sub, rs.ec.Kind, rs.ec.Notif)
			}
		}
		c.runCases("C02.3 open-body-structure", "openMessage.decode", []asmCase{
			{name: "body shorter than 10 => only (1,2)", init: func(a *Analysis, st *State) {
				st.addFact(Fact{L: linConst(9).add(st.linOf(lenB), -1)})
			}, forbid: only(1, 2)},
			{name: "opt-param length octet != len-10 => only (2,0)", init: func(a *Analysis, st *State) {
				st.addFact(Fact{L: st.linOf(lenB).add(linConst(10), -1)})
				st.addFact(Fact{L: st.linOf(b9).add(st.linOf(lenB), -1).add(linConst(10), 1), NE: true})
			}, forbid: only(2, 0)},
		})
		// accept state and field provenance
		a := NewAnalysis(p, dec)
		a.Run()
		o := paramExpr(dec, 0)
		accepts := 0
		for _, rs := range p.errReturns(a) {
			if !isAccept(rs) {
				continue
			}
			accepts++
			st := rs.rs.State
			okLen := st.impliedGE(st.linOf(lenB).add(linConst(10), -1))
			d := st.linOf(b9).add(st.linOf(lenB), -1).add(linConst(10), 1)
			okEq := st.impliedGE(d) && st.impliedGE(d.neg())
			c.require(okLen && okEq, "C02.3 open-body-structure", "openMessage.decode", "accepting return", rs.pos,
				"accept implies len(body) >= 10 and int(body[9]) == len(body)-10")
			want := map[string]string{
				"version":  byteLoad(b, 0).Key,
				"asn":      mk("call", nil, "be16", 0, b, mkConst(1, intT), mkStr("")).Key,
				"holdTime": mk("call", nil, "be16", 0, b, mkConst(3, intT), mkStr("")).Key,
				"bgpID":    mk("call", nil, "be32", 0, b, mkConst(5, intT), mkStr("")).Key,
			}
			for _, f := range []string{"version", "asn", "holdTime", "bgpID"} {
				got := p.loadField(st, o, "openMessage", f)
				gk := "<nil>"
				if got != nil {
					gk = got.Key
				}
				c.require(gk == want[f], "C02.3 open-field-layout", "openMessage.decode", "field "+f, rs.pos,
					fmt.Sprintf("decoded from %s (want %s)", trunc(gk, 80), want[f]))
			}
		}
		c.floor("C02.3 open-body-structure", accepts, 1, "accepting returns of openMessage.decode")
		// the optional parameters are decoded from body[10:]
		calls := p.callsIn(dec, descIs("decodeOptionalParams"))
		c.floor("C02.3 open-field-layout", len(calls), 1, "decodeOptionalParams call in openMessage.decode")
		for _, cl := range calls {
			for _, args := range a.callArgsAt(cl) {
				root, lo, hi := sliceParts(args[0])
				ok := root.Key == b.Key && hi == nil && lo != nil
				if ok {
					cv, isC := lo.IsConst()
					ok = isC && cv == 10
				}
				c.require(ok, "C02.3 open-field-layout", "openMessage.decode", "optional parameters slice", p.InstrPos(cl.(ssa.Instruction)),
					"decodeOptionalParams receives body[10:]; got "+trunc(args[0].Key, 80))
			}
		}
	}
	c.openBytesStable("C02.6 open-bytes-stable")
	c.holdTimerRestartDiscipline("C02.5 accepted-open-proceeds")
	c.disableEnablePairing("C02.5 accepted-open-approved")
	c.tlvLoopRules("C02.4 optional-parameters", "decodeOptionalParams", 0)
	c.tlvLoopRules("C02.4 capabilities", "capabilityOptionalParam.decode", 1)
	c.tlvExactFit("C02.4 optional-parameters exact-fit", "decodeOptionalParams", 0, "capabilityOptionalParam.decode", p.MustConst("capabilityOptionalParamType"))
	c.tlvExactFit("C02.4 capabilities exact-fit", "capabilityOptionalParam.decode", 1, "", -1)

	// the value handed to the capability-parameter decoder is cursor[2:2+len]
	// (two cases on the length octet, as for capabilities)
	if fn := p.Fn("decodeOptionalParams"); fn != nil {
		isLenOctet := func(e *Expr) bool {
			if e.Op != "ld" || e.Args[0].Op != "ia" {
				return false
			}
			iv, isC := e.Args[0].Args[1].IsConst()
			return isC && iv == 1 && e.Args[0].Args[0].Op == "phi"
		}
		n := 0
		for _, withValue := range []bool{true, false} {
			a := NewAnalysis(p, fn)
			if withValue {
				maxLen := int64(255)
				if r, has := p.entryLenFacts(fn, map[*ssa.Function]*Analysis{})[0]; has && !r.Empty() && r.Hi() != posInf && r.Hi()-2 < maxLen {
					maxLen = r.Hi() - 2
				}
				a.AtomHook = rangeHook(isLenOctet, isRange(1, maxLen))
			} else {
				a.AtomHook = rangeHook(isLenOctet, isConst(0))
			}
			a.Run()
			for _, cl := range p.callsIn(fn, descIs("capabilityOptionalParam.decode", "invoke:optionalParam.decode")) {
				for _, st := range a.At[cl.(ssa.Instruction)] {
					n++
					args := a.argExprs(st, nil, cl.Common())
					val := args[len(args)-1]
					r, lo, hi := sliceParts(val)
					ok := false
					if withValue {
						if r.Op == "phi" && lo != nil && hi != nil {
							l := st.linOf(hi).add(st.linOf(lo), -1)
							ok = len(l.T) == 1 && l.C == 0
							for k, coef := range l.T {
								if coef != 1 || !isLenOctet(l.E[k]) || l.E[k].Args[0].Args[0].Key != r.Key {
									ok = false
								}
							}
							lv, isC := lo.IsConst()
							ok = ok && isC && lv == 2
						}
					} else {
						z, isZ := st.rangeOf(mkLen(val)).IsConst()
						ok = isZ && z == 0
					}
					c.require(ok, "C02.4 optional-parameters value", "decodeOptionalParams", fmt.Sprintf("parameter value (non-empty=%v)", withValue), p.InstrPos(cl.(ssa.Instruction)),
						"the capability parameter is decoded from cursor[2:2+len] (empty for len 0); got "+trunc(val.Key, 80))
				}
			}
		}
		c.floor("C02.4 optional-parameters value", n, 2, "capability-parameter decode calls analysed")
	}

	// parameter type dispatch: non-capability parameter => (2,4); capability => never (2,4)
	capType := p.MustConst("capabilityOptionalParamType")
	firstByte := func(e *Expr) bool {
		if e.Op != "ld" || e.Args[0].Op != "ia" {
			return false
		}
		cv, isC := e.Args[0].Args[1].IsConst()
		return isC && cv == 0
	}
	c.runCases("C02.4 optional-parameters type", "decodeOptionalParams", []asmCase{
		{name: "parameter type != 2 => never accepted", hook: rangeHook(firstByte, isRange(0, 255).Minus(isConst(capType))), forbid: forbidAccept, noBackEdge: true},
		{name: "parameter type == 2 => no (2,4)", hook: rangeHook(firstByte, isConst(capType)), forbid: forbidNotif(2, 4)},
	})
}

// closureWithCall returns the closure nested in parent that contains a call
// satisfying pred.
func (p *Prog) closureWithCall(parent *ssa.Function, pred func(string) bool) *ssa.Function {
	if parent == nil {
		return nil
	}
	for _, f := range withAnon(parent) {
		if len(p.callsIn(f, pred)) > 0 {
			return f
		}
	}
	return nil
}

func checkC02OpenSent(c *Check) {
	p := c.P
	c.cleanupContract("C02.5 refusal-closes-connection")
	c.messageResults("C02.3 decode-result-used")
	c.codecContracts("C02.3 codec-effects")
	c.readerFraming("C02.3 open-reaches-decoder")
	c.accumulatorsStartEmpty("C02.3 accumulators", "decodeOptionalParams", "capabilityOptionalParam.decode", "openMessage.getCapabilities")
	c.specConstants("C02.1 spec-constants", "NOTIF_CODE_OPEN_MESSAGE_ERR", "NOTIF_SUBCODE_UNSUPPORTED_VERSION_NUM", "NOTIF_SUBCODE_BAD_PEER_AS", "NOTIF_SUBCODE_BAD_BGP_ID", "NOTIF_SUBCODE_UNSUPPORTED_OPTIONAL_PARAM", "NOTIF_SUBCODE_UNACCEPTABLE_HOLD_TIME", "NOTIF_SUBCODE_UNSUPPORTED_CAPABILITY", "asTrans", "capabilityOptionalParamType", "CAP_FOUR_OCTET_AS", "openMessageType")
	outer := p.Fn("fsm.openSent")
	if outer == nil {
		return
	}
	onOpen := "invoke:Plugin.OnOpenMessage"
	p.IfaceMethod("Plugin", "OnOpenMessage")
	fn := p.closureWithCall(outer, descIs(onOpen))
	if fn == nil {
		c.undecided("C02.5 opensent-reaction", "fsm.openSent", "OnOpenMessage call", p.Pos(outer.Pos()), "no call of Plugin.OnOpenMessage found in openSent")
		return
	}
	fnName := p.Name(fn)
	idle, openConfirm := p.MustConst("idleState"), p.MustConst("openConfirmState")
	sites := p.callsIn(fn, descIs(onOpen))
	c.require(len(sites) == 1 && !inLoop(sites[0].Block()), "C02.5 opensent-reaction", fnName, "OnOpenMessage call sites", p.Pos(fn.Pos()),
		fmt.Sprintf("exactly one call site of OnOpenMessage, not in a loop (found %d)", len(sites)))
	vcalls := p.callsIn(fn, descIs("openMessage.validate"))
	c.require(len(vcalls) == 1, "C02.5 opensent-reaction", fnName, "validate call sites", p.Pos(fn.Pos()), fmt.Sprintf("exactly one validate call (found %d)", len(vcalls)))

	isValidateRes := func(e *Expr) bool { return e.Op == "rcall" && e.S == "openMessage.validate" }
	isOnOpenRes := func(e *Expr) bool { return e.Op == "rcall" && e.S == onOpen }
	isKARes := func(e *Expr) bool { return e.Op == "rcall" && e.S == "fsm.sendKeepAlive" }
	nnOf := func(pred func(*Expr) bool, v int64) func(e *Expr) (ISet, bool) {
		return func(e *Expr) (ISet, bool) {
			if e.Op == "nn" && pred(e.Args[0]) {
				return isConst(v), true
			}
			return nil, false
		}
	}
	type want struct {
		name    string
		hook    func(e *Expr) (ISet, bool)
		state   int64
		must    []string
		mustNot []string
		errKind string
	}
	cases := []want{
		{name: "validate fails", hook: nnOf(isValidateRes, 1), state: idle,
			must: []string{"call:fsm.handleNotificationInErr"}, mustNot: []string{"call:" + onOpen, "call:fsm.sendKeepAlive"}, errKind: "non-nil"},
		{name: "validate ok, plugin returns a notification", hook: hooks(nnOf(isValidateRes, 0), nnOf(isOnOpenRes, 1)), state: idle,
			must: []string{"call:" + onOpen, "call:fsm.sendNotification"}, mustNot: []string{"call:fsm.sendKeepAlive"}, errKind: "plugin-notification"},
		{name: "validate ok, plugin ok, keepalive sent", hook: hooks(nnOf(isValidateRes, 0), nnOf(isOnOpenRes, 0), nnOf(isKARes, 0)), state: openConfirm,
			must: []string{"call:" + onOpen, "call:fsm.sendKeepAlive"}, mustNot: []string{"call:fsm.sendNotification"}, errKind: "nil"},
		{name: "validate ok, plugin ok, keepalive write fails", hook: hooks(nnOf(isValidateRes, 0), nnOf(isOnOpenRes, 0), nnOf(isKARes, 1)), state: idle,
			must: []string{"call:" + onOpen, "call:fsm.sendKeepAlive"}, mustNot: nil, errKind: "non-nil"},
	}
	for _, w := range cases {
		a := NewAnalysis(p, fn)
		a.AtomHook = w.hook
		a.Run()
		if len(a.Undecided) > 0 {
			c.undecided("C02.5 opensent-reaction", fnName, w.name, p.Pos(fn.Pos()), a.Undecided[0])
			continue
		}
		n := 0
		for _, r := range a.Returns {
			if !r.State.may["call:openMessage.validate"] {
				continue
			}
			n++
			st := r.State
			var probs []string
			sv, isC := st.rangeOf(r.Results[0]).IsConst()
			if !isC || sv != w.state {
				probs = append(probs, fmt.Sprintf("next state %s, want %d", st.rangeOf(r.Results[0]), w.state))
			}
			for _, m := range w.must {
				if !st.must[m] {
					probs = append(probs, "missing on some path: "+m)
				}
			}
			for _, m := range w.mustNot {
				if st.may[m] {
					probs = append(probs, "must not happen: "+m)
				}
			}
			ec := p.classifyErr(st, r.Results[1])
			switch w.errKind {
			case "nil":
				if ec.Kind != "nil" {
					probs = append(probs, "error result must be nil, is "+ec.Kind)
				}
			case "non-nil":
				if v, ok := st.nonNil(r.Results[1]).IsConst(); !ok || v != 1 {
					probs = append(probs, "error result must be non-nil")
				}
			case "plugin-notification":
				okp := false
				if ec.Kind == "notificationError" && r.Results[1].Args[0].Op == "alloc" {
					n := p.loadField(st, r.Results[1].Args[0], "notificationError", "notification")
					if n != nil && isOnOpenRes(n) {
						if o, isC := ec.Out.IsConst(); isC && o == 1 {
							okp = true
						}
					}
				}
				if !okp {
					probs = append(probs, "error must be notificationError{the plugin's notification, out=true}")
				}
			}
			c.require(len(probs) == 0, "C02.5 opensent-reaction", fnName, w.name, p.InstrPos(r.Instr), strings.Join(probs, "; "))
		}
		if n == 0 {
			c.undecided("C02.5 opensent-reaction", fnName, w.name, p.Pos(fn.Pos()), "no return reachable after validate under this assumption")
		}
	}
	// argument provenance of validate and OnOpenMessage / sendNotification
	a := NewAnalysis(p, fn)
	a.Run()
	for _, cl := range vcalls {
		for _, args := range a.callArgsAt(cl) {
			ok := len(args) == 4 && isFieldRead(args[1], "id") && isFieldRead(args[2], "LocalAS") && isFieldRead(args[3], "RemoteAS")
			c.require(ok, "C02.5 opensent-arguments", fnName, "validate arguments", p.InstrPos(cl.(ssa.Instruction)),
				"validate(peer.id, config.LocalAS, config.RemoteAS)")
		}
	}
	for _, cl := range sites {
		for _, args := range a.callArgsAt(cl) {
			// args: plugin, config, routerID, capabilities
			ok := len(args) == 4
			if ok {
				rid := args[2]
				ok = isCallNamed(rid, "netip.AddrFrom4") && strings.Contains(rid.Key, "bytes:be32(") && strings.Contains(rid.Key, "bgpID")
				caps := args[3]
				ok = ok && caps.Op == "rcall" && caps.S == "openMessage.getCapabilities"
			}
			c.require(ok, "C02.5 opensent-arguments", fnName, "OnOpenMessage arguments", p.InstrPos(cl.(ssa.Instruction)),
				"OnOpenMessage(config, AddrFrom4(be32 bytes of m.bgpID), m.getCapabilities())")
		}
	}
	// getCapabilities appends every capability parameter's list in order
	if gc := p.Fn("openMessage.getCapabilities"); gc != nil {
		apps := p.callsIn(gc, descIs("builtin:append"))
		okA := len(apps) == 1 && inLoop(apps[0].Block())
		c.require(okA, "C02.5 opensent-arguments", "openMessage.getCapabilities", "append in loop", p.Pos(gc.Pos()),
			"capabilities of every capability parameter are appended in order inside the parameter loop")
	}
}

// byteRoots collects the roots of a []byte value through slicing and phis.
func byteRoots(v ssa.Value, seen map[ssa.Value]bool, out *[]ssa.Value) {
	if seen[v] {
		return
	}
	seen[v] = true
	switch x := v.(type) {
	case *ssa.Slice:
		byteRoots(x.X, seen, out)
	case *ssa.Phi:
		for _, e := range x.Edges {
			byteRoots(e, seen, out)
		}
	default:
		*out = append(*out, v)
	}
}

// openBytesStable: what validate() and OnOpenMessage look at must be the
// bytes of the OPEN that was received. Capability values are sub-slices of
// the decoder's input wherever a store to Capability.Value is rooted at a
// []byte parameter; then the reader must hand the decoder a buffer that is
// allocated per message (the reader reads the next message while the FSM
// goroutine is still validating / inside the plugin callback).
func (c *Check) openBytesStable(rule string) {
	p := c.P
	aliases := []string{}
	n := 0
	for _, fn := range p.FuncSeq {
		allInstrs(fn, func(in ssa.Instruction) {
			st, ok := in.(*ssa.Store)
			if !ok {
				return
			}
			fa, ok := st.Addr.(*ssa.FieldAddr)
			if !ok || structFieldName(fa) != "Value" || structNameOfPtr(fa.X.Type()) != "Capability" {
				return
			}
			n++
			var roots []ssa.Value
			byteRoots(st.Val, map[ssa.Value]bool{}, &roots)
			for _, r := range roots {
				if pr, isP := r.(*ssa.Parameter); isP {
					aliases = append(aliases, p.Name(fn)+":"+pr.Name())
				}
			}
		})
	}
	rd := p.Fn("fsm.read")
	perIter := false
	if rd != nil {
		for _, cl := range p.callsIn(rd, descIs("messageFromBytes")) {
			if allocInLoop(cl.Common().Args[0]) {
				perIter = true
			}
		}
	}
	c.floor(rule, n, 1, "stores to Capability.Value")
	pos := "-"
	if rd != nil {
		pos = p.Pos(rd.Pos())
	}
	c.require(len(aliases) == 0 || perIter, rule, "fsm.read", "decoded OPEN does not alias a reused buffer", pos,
		fmt.Sprintf("Capability.Value aliases the decoder input at %v; the reader's body buffer is allocated per message = %v (otherwise the next read rewrites the capabilities under validate()/OnOpenMessage)", dedup(aliases), perIter))
}

// validateArguments: the received OPEN is validated against this speaker's
// identifier and the configured local and remote AS, in that order (the RFC
// 6286 rule "equal identifiers only matter within one AS" and the collision
// tie-break on equal identifiers both depend on it).
func (c *Check) validateArguments(rule string) {
	p := c.P
	outer := p.Fn("fsm.openSent")
	if outer == nil {
		return
	}
	fn := p.closureWithCall(outer, descIs("openMessage.validate"))
	if fn == nil {
		c.undecided(rule, "fsm.openSent", "validate call", p.Pos(outer.Pos()), "no call of openMessage.validate found in openSent")
		return
	}
	a := NewAnalysis(p, fn)
	a.Run()
	n := 0
	for _, cl := range p.callsIn(fn, descIs("openMessage.validate")) {
		for _, args := range a.callArgsAt(cl) {
			n++
			ok := len(args) == 4 && isFieldRead(args[1], "id") && isFieldRead(args[2], "LocalAS") && isFieldRead(args[3], "RemoteAS")
			c.require(ok, rule, p.Name(fn), "validate arguments", p.InstrPos(cl.(ssa.Instruction)), "validate(peer.id, config.LocalAS, config.RemoteAS)")
		}
	}
	c.floor(rule, n, 1, "validate call sites in openSent")
}

// loopDelegate: when fn has no loop of its own and hands its parameter k, with
// its whole job, to one helper the rule sets do not know (`return helper(b,
// …)`), the loop rules are applied to that helper.
func (p *Prog) loopDelegate(fn *ssa.Function, k int) (*ssa.Function, int) {
	for _, b := range fn.Blocks {
		if inLoop(b) {
			return fn, k
		}
	}
	var site *ssa.Call
	n := 0
	ownInstrs(fn, func(in ssa.Instruction) {
		cl, ok := in.(*ssa.Call)
		if !ok {
			return
		}
		h := cl.Call.StaticCallee()
		if h == nil || !p.IsLocal(h) || h.Parent() != nil || knownFuncs[p.Name(h)] || len(h.Blocks) == 0 {
			return
		}
		for _, a := range cl.Call.Args {
			if a == ssa.Value(fn.Params[k]) {
				site = cl
				n++
			}
		}
	})
	if n != 1 {
		return fn, k
	}
	// its result is this function's result
	direct := false
	for _, r := range *site.Referrers() {
		if ret, ok := r.(*ssa.Return); ok && len(ret.Results) == 1 && ret.Results[0] == ssa.Value(site) {
			direct = true
		}
	}
	if !direct {
		return fn, k
	}
	h := site.Call.StaticCallee()
	for i, a := range site.Call.Args {
		if a == ssa.Value(fn.Params[k]) {
			return h, i
		}
	}
	return fn, k
}
