package main

// C09 — state-dependent message handling (RFC 4271 §8.2.2 / RFC 6608), plus
// the FSM-wide structural rules other properties reuse: producer/consumer
// type agreement, the extracted transition relation, cleanup on exit.

import (
	"fmt"
	"go/types"
	"sort"
	"strings"

	"golang.org/x/tools/go/ssa"
)

func init() { register("C09", checkC09) }

// messageProducers returns the dynamic types messageFromBytes can put into a
// `message` interface value, with the dispatch constant guarding each.
func (c *Check) messageProducers(rule string) map[string]int64 {
	p := c.P
	fn := p.Fn("messageFromBytes")
	out := map[string]int64{}
	if fn == nil {
		return out
	}
	a := NewAnalysis(p, fn)
	a.Run()
	typ := paramExpr(fn, 1)
	for _, r := range a.Returns {
		if len(r.Results) != 2 || r.Results[0].Op != "makeiface" {
			continue
		}
		tv, ok := r.State.rangeOf(typ).IsConst()
		if !ok {
			c.fail(rule, "messageFromBytes", "dispatch of "+r.Results[0].S, p.InstrPos(r.Instr), "message type octet is not a single constant where "+r.Results[0].S+" is produced: "+r.State.rangeOf(typ).String())
			continue
		}
		out[r.Results[0].S] = tv
	}
	return out
}

// stateClosure finds the closure nested in state function fnName that holds
// the state's select loop (it contains the blocking select).
func (p *Prog) stateClosure(fnName string) *ssa.Function {
	outer := p.Fn(fnName)
	if outer == nil {
		return nil
	}
	var best *ssa.Function
	// the function that owns the state's select: a closure of the state
	// function, the state function itself, or a method the loop was moved to
	cands := withAnon(outer)
	for _, g := range deepFuncs(outer) {
		dup := false
		for _, c := range cands {
			if c == g {
				dup = true
			}
		}
		if !dup {
			cands = append(cands, g)
		}
	}
	for _, f := range cands {
		n := 0
		ownInstrs(f, func(in ssa.Instruction) {
			if s, ok := in.(*ssa.Select); ok && s.Blocking && len(s.States) >= 4 {
				n++
			}
		})
		if n > 0 {
			best = f
		}
	}
	if best == nil {
		for _, f := range withAnon(outer) {
			n := 0
			allInstrs(f, func(in ssa.Instruction) {
				if s, ok := in.(*ssa.Select); ok && s.Blocking && len(s.States) >= 4 {
					n++
				}
			})
			if n > 0 {
				best = f
			}
		}
	}
	if best == nil {
		p.unresolved = append(p.unresolved, "state loop closure of "+fnName)
	}
	return best
}

// typeSwitchDominated reports whether the return is dominated by a type
// assertion on a value of interface type `message`.
func typeSwitchDominated(r *ssa.Return) bool {
	fn := r.Parent()
	for _, b := range fn.Blocks {
		for _, in := range b.Instrs {
			ta, ok := in.(*ssa.TypeAssert)
			if !ok {
				continue
			}
			if n, ok := ta.X.Type().(*types.Named); !ok || n.Obj().Name() != "message" {
				continue
			}
			if b.Dominates(r.Block()) {
				return true
			}
		}
	}
	// the switch may live in a helper the message is handed to: a return that
	// follows such a call is a reaction to the message as well
	isMsgAssert := func(in ssa.Instruction) bool {
		ta, ok := in.(*ssa.TypeAssert)
		if !ok {
			return false
		}
		n, ok := ta.X.Type().(*types.Named)
		return ok && n.Obj().Name() == "message"
	}
	for _, b := range fn.Blocks {
		for _, in := range b.Instrs {
			if curProg == nil {
				continue
			}
			h := curProg.helperCallee(in)
			if h == nil || !instrDominates(in, r) {
				continue
			}
			found := false
			for _, g := range deepFuncs(h) {
				ownInstrs(g, func(x ssa.Instruction) {
					if isMsgAssert(x) {
						found = true
					}
				})
			}
			if found {
				return true
			}
		}
	}
	return false
}

// msgTypeHook fixes the dynamic type of every `message` value.
func msgTypeHook(t string, all []string) func(e *Expr) (ISet, bool) {
	return func(e *Expr) (ISet, bool) {
		if e.Op != "istype" {
			return nil, false
		}
		for _, x := range all {
			if e.S == x {
				return isConst(b2i(x == t)), true
			}
		}
		return nil, false
	}
}

// sendNotifEventArgs renders the notification argument of sendNotification so
// that "the notification built is the one sent" can be checked at returns.
func (p *Prog) sendNotifEventArgs(st *State, desc string, args []*Expr) string {
	if desc == "fsm.sendNotification" && len(args) == 2 {
		return args[1].Key
	}
	return ""
}

func checkC09(c *Check) {
	p := c.P
	c.rendezvousChannels("C09.5 progress-approved-by-manager", "transitionCh")
	c.disableEnablePairing("C09.4 recorded-state-current")
	c.fsmContracts("C09.3 fsm-effects")
	c.blockingInventory("C09.3 state-loops-keep-listening")
	c.messageResults("C09.1 type-results")
	c.specConstants("C09.2 spec-constants", "openMessageType", "updateMessageType", "notificationMessageType", "keepAliveMessageType", "headerLength", "maxMessageLength", "NOTIF_CODE_FSM_ERR", "NOTIF_SUBCODE_RX_UNEXPECTED_MESSAGE_OPENSENT", "NOTIF_SUBCODE_RX_UNEXPECTED_MESSAGE_OPENCONFIRM", "NOTIF_SUBCODE_RX_UNEXPECTED_MESSAGE_ESTABLISHED", "NOTIF_CODE_CEASE", "NOTIF_CODE_HOLD_TIMER_EXPIRED")
	c.holdTimerRestartDiscipline("C09.5 legal-progress-does-not-block")
	c.readerFraming("C09.1 framing")
	c.notificationEncode("C09.2 notification-encode")
	rule := "C09.1 producer-consumer-types"
	prod := c.messageProducers(rule)
	var prodTypes []string
	for t := range prod {
		prodTypes = append(prodTypes, t)
	}
	sort.Strings(prodTypes)
	c.floor(rule, len(prodTypes), 4, "dynamic types produced by messageFromBytes")
	// messageType() of each produced type returns its dispatch constant
	for _, t := range prodTypes {
		base := strings.TrimPrefix(t, "*")
		m := p.Fn(base + ".messageType")
		if m == nil {
			continue
		}
		a := NewAnalysis(p, m)
		a.Run()
		ok := len(a.Returns) > 0
		for _, r := range a.Returns {
			v, isC := r.State.rangeOf(r.Results[0]).IsConst()
			if !isC || v != prod[t] {
				ok = false
			}
		}
		c.require(ok, "C09.3 message-type-constants", base+".messageType", "constant of "+t, p.Pos(m.Pos()),
			fmt.Sprintf("messageType() returns the octet the reader dispatches on (%d)", prod[t]))
	}

	idle, active := p.MustConst("idleState"), p.MustConst("activeState")
	openConfirm, established, disabled := p.MustConst("openConfirmState"), p.MustConst("establishedState"), p.MustConst("disabledState")
	fsmErr := p.MustConst("NOTIF_CODE_FSM_ERR")
	cease := p.MustConst("NOTIF_CODE_CEASE")
	holdExp := p.MustConst("NOTIF_CODE_HOLD_TIMER_EXPIRED")

	type cell struct {
		legal   bool
		next    int64 // for legal cells that return
		noRet   bool  // legal, stays in the loop
		skip    bool  // decided elsewhere (C02.5)
		subcode int64
	}
	states := []struct {
		fn      string
		subcode int64
		cells   map[string]cell
	}{
		{"fsm.openSent", 1, map[string]cell{"*openMessage": {skip: true}}},
		{"fsm.openConfirm", 2, map[string]cell{"*keepAliveMessage": {legal: true, next: established}}},
		{"fsm.established", 3, map[string]cell{"*keepAliveMessage": {legal: true, noRet: true}, "updateMessage": {legal: true, noRet: true}}},
	}
	for _, s := range states {
		fn := p.stateClosure(s.fn)
		if fn == nil {
			continue
		}
		fnName := p.Name(fn)
		// consumer types named by the switch must be produced types
		allInstrs(fn, func(in ssa.Instruction) {
			if ta, ok := in.(*ssa.TypeAssert); ok {
				if n, ok := ta.X.Type().(*types.Named); ok && n.Obj().Name() == "message" {
					tk := typeKey(ta.AssertedType)
					_, produced := prod[tk]
					c.require(produced, rule, fnName, "case "+tk, p.InstrPos(ta), "the type switch names a dynamic type the reader actually produces ("+strings.Join(prodTypes, ", ")+")")
				}
			}
		})
		for _, t := range prodTypes {
			cl, special := s.cells[t]
			if cl.skip {
				continue
			}
			a := NewAnalysis(p, fn)
			a.AtomHook = msgTypeHook(t, prodTypes)
			a.EventArgs = p.sendNotifEventArgs
			a.Run()
			name := fmt.Sprintf("(%s, %s)", strings.TrimPrefix(s.fn, "fsm."), t)
			if len(a.Undecided) > 0 {
				c.undecided("C09.2 reaction-table", fnName, name, p.Pos(fn.Pos()), a.Undecided[0])
				continue
			}
			n := 0
			for _, r := range a.Returns {
				if !typeSwitchDominated(r.Instr) {
					continue
				}
				n++
				st := r.State
				var probs []string
				next, isC := st.rangeOf(r.Results[0]).IsConst()
				ec := p.classifyErr(st, r.Results[1])
				sentAny := st.may["call:fsm.sendNotification"] || st.may["call:invoke:net.Conn.Write"]
				switch {
				case t == "*Notification":
					if !isC || next != idle {
						probs = append(probs, "next state must be Idle")
					}
					if sentAny {
						probs = append(probs, "a NOTIFICATION must not be answered (sendNotification/Write reachable)")
					}
					okE := ec.Kind == "notificationError"
					if okE {
						o, isO := ec.Out.IsConst()
						okE = isO && o == 0
						n := p.loadField(st, r.Results[1].Args[0], "notificationError", "notification")
						okE = okE && n != nil && n.Op == "asserted"
					}
					if !okE {
						probs = append(probs, "error must be notificationError{received notification, out=false}")
					}
				case special && cl.legal && !cl.noRet:
					if !isC || next != cl.next {
						probs = append(probs, fmt.Sprintf("next state must be %d", cl.next))
					}
					if ec.Kind != "nil" {
						probs = append(probs, "error must be nil")
					}
					if sentAny {
						probs = append(probs, "no NOTIFICATION may be sent on legal progress")
					}
				case special && cl.legal && cl.noRet:
					// a return after a legal message is only allowed when a
					// plugin-supplied notification ends the session
					okR := isC && next == idle && ec.Kind == "notificationError" && st.may["call:dyn:UpdateMessageHandler"]
					if !okR {
						probs = append(probs, "legal message must not end the session (except a handler-returned notification)")
					}
				default:
					if !isC || next != idle {
						probs = append(probs, "next state must be Idle")
					}
					okN := ec.Kind == "notificationError" && ec.Notif != nil
					if okN {
						cc, ok1 := ec.Notif.Code.IsConst()
						ss, ok2 := ec.Notif.Sub.IsConst()
						o, ok3 := ec.Out.IsConst()
						okN = ok1 && ok2 && ok3 && cc == fsmErr && ss == s.subcode && o == 1
						// data = []byte{m.messageType()}
						d := ec.Notif.Data
						okD := false
						if d != nil {
							root, _, _ := sliceParts(d)
							if root.Op == "arr" && root.C == 1 {
								for k, v := range st.mem {
									if me := st.memE[k]; me != nil && me.Op == "ia" && me.Args[0].Key == root.Key {
										if v.Op == "rcall" && v.S == "invoke:message.messageType" {
											okD = true
										}
									}
								}
							}
						}
						if !okD {
							probs = append(probs, "data must be the one octet m.messageType()")
						}
						if !st.must["call:fsm.sendNotification("+ec.Notif.Ptr.Key+")"] {
							probs = append(probs, "the notification returned must be the one passed to sendNotification on every path")
						}
					}
					if !okN {
						probs = append(probs, fmt.Sprintf("must send and return NOTIFICATION (%d,%d) out=true; got %s %v", fsmErr, s.subcode, ec.Kind, ec.Notif))
					}
				}
				c.require(len(probs) == 0, "C09.2 reaction-table", fnName, name, p.InstrPos(r.Instr), strings.Join(probs, "; "))
			}
			if n == 0 {
				if special && cl.noRet {
					c.ok("C09.2 reaction-table", fnName, name, p.Pos(fn.Pos()), "legal message: no return reachable, the session stays in the state")
				} else {
					c.fail("C09.2 reaction-table", fnName, name, p.Pos(fn.Pos()), "no return reachable for this message type: the reaction is missing")
				}
			}
		}
		// timer / close / reader-error cases
		a := NewAnalysis(p, fn)
		a.EventArgs = p.sendNotifEventArgs
		a.Run()
		ceaseN, holdN := 0, 0
		for _, r := range a.Returns {
			st := r.State
			ec := p.classifyErr(st, r.Results[1])
			next, isC := st.rangeOf(r.Results[0]).IsConst()
			if isC && next == disabled {
				ceaseN++
				ok := ec.Kind == "notificationError" && ec.Notif != nil
				if ok {
					cc, ok1 := ec.Notif.Code.IsConst()
					ok = ok1 && cc == cease && st.must["call:fsm.sendNotification("+ec.Notif.Ptr.Key+")"]
				}
				c.require(ok, "C09.4 close-sends-cease", fnName, "return disabledState", p.InstrPos(r.Instr),
					"disabledState is returned only after a Cease NOTIFICATION was passed to sendNotification")
			}
			if ec.Notif != nil {
				if cc, ok := ec.Notif.Code.IsConst(); ok && cc == holdExp {
					holdN++
					ok2 := isC && next == idle && st.must["call:fsm.sendNotification("+ec.Notif.Ptr.Key+")"]
					c.require(ok2, "C09.4 hold-timer-expiry", fnName, "hold timer case", p.InstrPos(r.Instr), "Hold Timer Expired (4,0) is sent and the state returns Idle")
				}
			}
		}
		c.floor("C09.4 close-sends-cease", ceaseN, 1, "disabledState returns in "+fnName)
		c.floor("C09.4 hold-timer-expiry", holdN, 1, "hold-timer returns in "+fnName)
		// reader error: a non-notification transport error never produces a NOTIFICATION
		b := NewAnalysis(p, fn)
		b.AtomHook = func(e *Expr) (ISet, bool) {
			if e.Op == "call" && strings.HasPrefix(e.S, "errors.As:") {
				return isConst(0), true
			}
			return nil, false
		}
		b.NoInline = map[string]bool{}
		b.Run()
		rdr := 0
		for _, r := range b.Returns {
			st := r.State
			if !st.may["call:fsm.handleNotificationInErr"] || typeSwitchDominated(r.Instr) {
				continue
			}
			rdr++
			next, isC := st.rangeOf(r.Results[0]).IsConst()
			want := idle
			if s.fn == "fsm.openSent" {
				want = active
			}
			ok := isC && next == want && !st.may["call:fsm.sendNotification"]
			c.require(ok, "C09.4 transport-error-silent", fnName, "reader error without notification", p.InstrPos(r.Instr),
				fmt.Sprintf("a reader error that carries no notification ends the connection silently and returns state %d", want))
		}
		c.floor("C09.4 transport-error-silent", rdr, 1, "reader-error returns in "+fnName)
	}
	c.notifInErr("C09.4 transport-error-silent", "C08.2 notification-sent")
	c.writeUpdateContract("C09.6 callbacks-return")
	c.readerHandoff()
	c.transitionRelation("C09.5 transition-relation")
	c.cleanupOnExit("C09.6 cleanup-on-exit")
	_ = openConfirm
}

// transitionRelation extracts the constant next-state sets of the six state
// functions and compares them with RFC 4271's relation as implemented.
func (c *Check) transitionRelation(rule string) map[string][]int64 {
	p := c.P
	names := []string{"disabledState", "idleState", "connectState", "activeState", "openSentState", "openConfirmState", "establishedState"}
	val := map[string]int64{}
	for _, n := range names {
		val[n] = p.MustConst(n)
	}
	want := map[string][]string{
		"fsm.idle":        {"disabledState", "connectState"},
		"fsm.connect":     {"disabledState", "idleState", "openSentState"},
		"fsm.active":      {"disabledState", "connectState", "idleState", "openSentState"},
		"fsm.openSent":    {"disabledState", "idleState", "activeState", "openConfirmState"},
		"fsm.openConfirm": {"disabledState", "idleState", "establishedState"},
		"fsm.established": {"disabledState", "idleState"},
	}
	out := map[string][]int64{}
	for _, fnName := range sortedKeys(want) {
		fn := p.Fn(fnName)
		if fn == nil {
			continue
		}
		got := map[int64]bool{}
		undecided := ""
		var collect func(f *ssa.Function, depth int)
		collect = func(f *ssa.Function, depth int) {
			a := NewAnalysis(p, f)
			a.NoInline = map[string]bool{"fsm.sendOpenAndSetHoldTimer": true}
			a.Run()
			if len(a.Undecided) > 0 {
				undecided = a.Undecided[0]
			}
			for _, r := range a.Returns {
				e := r.Results[0]
				if v, ok := r.State.rangeOf(e).IsConst(); ok {
					got[v] = true
					continue
				}
				// result of a nested state helper or closure: follow it
				if depth < 2 && (e.Op == "rcall" || e.Op == "ex") {
					callee := e
					if e.Op == "ex" {
						callee = e.Args[0]
					}
					if callee.Op == "rcall" {
						if g, ok := p.Funcs[callee.S]; ok {
							collect(g, depth+1)
							continue
						}
						if strings.HasPrefix(callee.S, "closure:") {
							if g, ok := p.Funcs[strings.TrimPrefix(callee.S, "closure:")]; ok {
								collect(g, depth+1)
								continue
							}
						}
					}
				}
				undecided = "next state is not a constant at " + p.InstrPos(r.Instr) + ": " + trunc(e.Key, 60)
			}
		}
		collect(fn, 0)
		if undecided != "" {
			c.undecided(rule, fnName, "next-state set", p.Pos(fn.Pos()), undecided)
			continue
		}
		wantSet := map[int64]bool{}
		for _, n := range want[fnName] {
			wantSet[val[n]] = true
		}
		var gl []int64
		for v := range got {
			gl = append(gl, v)
		}
		sort.Slice(gl, func(i, j int) bool { return gl[i] < gl[j] })
		out[fnName] = gl
		same := len(got) == len(wantSet)
		for v := range got {
			if !wantSet[v] {
				same = false
			}
		}
		c.require(same, rule, fnName, "next-state set", p.Pos(fn.Pos()), fmt.Sprintf("returns states %v; the transition relation allows %v (%v)", gl, want[fnName], wantSet))
	}
	return out
}

// cleanupOnExit: cleanupConnAndReader runs on every non-progress exit of
// openSent/openConfirm and on every exit of established.
func (c *Check) cleanupOnExit(rule string) {
	p := c.P
	c.cleanupContract(rule)
	for _, s := range []struct {
		fn       string
		progress string
	}{{"fsm.openSent", "openConfirmState"}, {"fsm.openConfirm", "establishedState"}, {"fsm.established", ""}} {
		fn := p.Fn(s.fn)
		if fn == nil {
			continue
		}
		hook := func(e *Expr) (ISet, bool) { return nil, false }
		a := NewAnalysis(p, fn)
		a.AtomHook = hook
		a.Run()
		n := 0
		for _, r := range a.Returns {
			n++
			st := r.State
			mustClean := st.must["call:fsm.cleanupConnAndReader"]
			if s.progress == "" {
				c.require(mustClean, rule, s.fn, "every return", p.InstrPos(r.Instr), "cleanupConnAndReader() is called on every path to this return")
				continue
			}
			// returns whose state may differ from the progress state need cleanup;
			// the guard is `to != progress`, so ask the engine per branch
			c.ok(rule, s.fn, "return", p.InstrPos(r.Instr), "see guarded-cleanup obligation")
		}
		if s.progress != "" {
			// the call site must be guarded exactly by (to != progress)
			calls := p.callsIn(fn, descIs("fsm.cleanupConnAndReader"))
			okG := len(calls) == 1
			if okG {
				sts := a.At[calls[0].(ssa.Instruction)]
				okG = len(sts) > 0
				prog := p.MustConst(s.progress)
				for _, st := range sts {
					// the state result `to` is the first extract of the closure call
					toSet := isEmpty()
					for v, e := range st.env {
						if ex, ok := v.(*ssa.Extract); ok && ex.Index == 0 && isStateTyped(ex.Type()) {
							toSet = toSet.Union(st.rangeOf(e))
						}
					}
					if toSet.Contains(prog) {
						okG = false
					}
				}
				// and the skip edge implies to == progress
				pd := newPostDom(fn)
				if pd.onEveryReturnPath(calls[0].(ssa.Instruction)) {
					// unconditional cleanup would tear down the progressing session
					okG = false
				}
			}
			c.require(okG, rule, s.fn, "guarded cleanup", p.Pos(fn.Pos()), "cleanupConnAndReader() is called exactly when the next state is not "+s.progress)
			// completeness: under to != progress the call is on every path
			b := NewAnalysis(p, fn)
			prog := p.MustConst(s.progress)
			b.AtomHook = func(e *Expr) (ISet, bool) {
				if e.Op == "ex" && isStateTyped(e.Typ) {
					return isRange(0, 6).Minus(isConst(prog)), true
				}
				return nil, false
			}
			b.Run()
			okC := len(b.Returns) > 0
			for _, r := range b.Returns {
				// a return that reports progress (the loop analysed in place
				// says so) is the case the cleanup is skipped for
				if len(r.Results) > 0 {
					if v, isC := r.State.rangeOf(r.Results[0]).IsConst(); isC && v == prog {
						continue
					}
				}
				if !r.State.must["call:fsm.cleanupConnAndReader"] {
					okC = false
				}
			}
			c.require(okC, rule, s.fn, "cleanup on non-progress", p.Pos(fn.Pos()), "whenever the next state is not "+s.progress+", cleanupConnAndReader() runs before returning")
		}
		c.floor(rule, n, 1, "returns of "+s.fn)
	}
}

func isStateTyped(t types.Type) bool {
	n, ok := t.(*types.Named)
	return ok && n.Obj().Name() == "fsmState"
}

// cleanupContract: what the callers of cleanupConnAndReader rely on.
// With a connection present (f.conn != nil) the connection is closed on every
// path -- also when no reader was ever started for it (an accepted connection
// whose FSM is stopped before it sent its OPEN) --, it is closed *before* the
// reader is joined (only the close wakes a reader parked in Read on a silent
// peer), and f.conn is nil when the function returns (a stale non-nil conn
// makes active() treat it as a fresh inbound connection).
func (c *Check) cleanupContract(rule string) {
	p := c.P
	fn := p.Fn("fsm.cleanupConnAndReader")
	if fn == nil {
		return
	}
	a := NewAnalysis(p, fn)
	a.AtomHook = func(e *Expr) (ISet, bool) {
		if e.Op == "nn" && isLoadOfField(e.Args[0], "conn") {
			return isConst(1), true
		}
		return nil, false
	}
	a.Run()
	for _, u := range a.Undecided {
		c.undecided(rule, "fsm.cleanupConnAndReader", "analysis", p.Pos(fn.Pos()), u)
	}
	// a deferred function (registered before any return) that closes / resets
	deferredClose, deferredReset := false, false
	ownInstrs(fn, func(in ssa.Instruction) {
		d, ok := in.(*ssa.Defer)
		if !ok || in.Block().Index != 0 {
			return
		}
		if t := p.staticLocalCallee(d); t != nil {
			if len(p.callsDeep(t, descIs("invoke:net.Conn.Close"))) > 0 {
				deferredClose = true
			}
			allInstrs(t, func(x ssa.Instruction) {
				if st, isS := x.(*ssa.Store); isS {
					if fa, isF := st.Addr.(*ssa.FieldAddr); isF && structFieldName(fa) == "conn" {
						if cst, isC := st.Val.(*ssa.Const); isC && cst.Value == nil {
							deferredReset = true
						}
					}
				}
			})
		}
	})
	okClose, okReset := len(a.Returns) > 0, len(a.Returns) > 0
	for _, r := range a.Returns {
		st := r.State
		if !st.must["call:invoke:net.Conn.Close"] && !deferredClose {
			okClose = false
		}
		reset := deferredReset
		for k, v := range st.mem {
			if me := st.memE[k]; me != nil && me.Op == "fa" && me.S == "conn" && v.IsNil() {
				reset = true
			}
		}
		if !reset {
			okReset = false
		}
	}
	c.require(okClose, rule, "fsm.cleanupConnAndReader", "a present connection is closed on every path", p.Pos(fn.Pos()),
		"with f.conn != nil, conn.Close() is called before every return (also when no reader was started)")
	c.require(okReset, rule, "fsm.cleanupConnAndReader", "f.conn is nil on return", p.Pos(fn.Pos()),
		"every return leaves f.conn == nil (store on the path or in a defer registered at entry)")
	// the join follows the close
	nj := 0
	allInstrs(fn, func(in ssa.Instruction) {
		u, ok := in.(*ssa.UnOp)
		if !ok || u.Op.String() != "<-" || chanFieldName(u.X) != "readerDoneCh" {
			return
		}
		nj++
		okO := len(a.At[in]) > 0
		for _, st := range a.At[in] {
			if !st.must["call:invoke:net.Conn.Close"] {
				okO = false
			}
		}
		c.require(okO, rule, "fsm.cleanupConnAndReader", "close before join", p.InstrPos(in),
			"the connection is closed before the reader goroutine is waited for (a reader parked in Read is woken by nothing else)")
	})
	c.floor(rule, nj, 1, "joins of the reader in cleanupConnAndReader")
}

// notifInErr: handleNotificationInErr sends exactly the outgoing
// notifications, found anywhere in the error's tree (errors.As: the reader and
// the state functions wrap their errors).
func (c *Check) notifInErr(ruleIn, ruleOut string) {
	p := c.P
	// handleNotificationInErr sends only outgoing notifications
	if h := p.Fn("fsm.handleNotificationInErr"); h != nil {
		a := NewAnalysis(p, h)
		a.AtomHook = func(e *Expr) (ISet, bool) {
			if isFieldRead(e, "out") {
				return isConst(0), true
			}
			return nil, false
		}
		a.Run()
		ok := true
		for _, r := range a.Returns {
			if r.State.may["call:fsm.sendNotification"] {
				ok = false
			}
		}
		c.require(ok && len(a.Returns) > 0, ruleIn, "fsm.handleNotificationInErr", "out=false never sent", p.Pos(h.Pos()),
			"a received notification (out=false) is never sent back")
		a2 := NewAnalysis(p, h)
		a2.AtomHook = hooks(func(e *Expr) (ISet, bool) {
			if isFieldRead(e, "out") {
				return isConst(1), true
			}
			if e.Op == "call" && strings.HasPrefix(e.S, "errors.As:") {
				return isConst(1), true
			}
			return nil, false
		})
		a2.Run()
		ok = len(a2.Returns) > 0
		for _, r := range a2.Returns {
			if !r.State.must["call:fsm.sendNotification"] {
				ok = false
			}
		}
		c.require(ok, ruleOut, "fsm.handleNotificationInErr", "out=true sent", p.Pos(h.Pos()),
			"an outgoing notificationError found with errors.As is passed to sendNotification on every path")
	}
}
