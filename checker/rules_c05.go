package main

// C05 — no remote input or API sequence can crash or wedge the process.

import (
	"sort"

	"golang.org/x/tools/go/ssa"
)

func init() { register("C05", checkC05) }

// allTopLevel returns every top-level function/method name of the package.
func (p *Prog) allTopLevel() []string {
	var out []string
	for n, f := range p.Funcs {
		if f.Parent() == nil {
			out = append(out, n)
		}
	}
	sort.Strings(out)
	return out
}

func checkC05(c *Check) {
	c.checkBounds("C05.1", c.P.allTopLevel(), 120)
	c.timerDiscipline("C05.1 nil-dereference")
	c.dispatchTables("C05.1 nil-function-call")
	c.blockingInventory("C05.2 interruptible-waits")
	c.dialSingleResult("C05.2 dial-result")
	c.checkSpawnJoin("C05.2 spawn-join")
	c.readerHandoffRule("C05.2 reader-join")
	c.rendezvousChannels("C05.2 rendezvous-channels")
	c.registryLocked("C05.2 lock-released")
	c.noWaitUnderLock("C05.2 no-wait-under-lock")
	c.fsmContracts("C05.1 fsm-effects")
	c.closeOnce("C05.1 close-once")
	c.disableEnablePairing("C05.1 fsm-table-consistent")
	_ = ssa.BuilderMode(0)
}
