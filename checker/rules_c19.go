package main

// C19 — prefix, NLRI, add-path and MP_REACH/MP_UNREACH decoders are exact.

import (
	"fmt"
	"go/token"
	"go/types"
	"os"
	"strings"

	"golang.org/x/tools/go/ssa"
)

func init() { register("C19", checkC19) }

func checkC19(c *Check) {
	p := c.P
	c.decodePrefixRules("C19.1 prefix")
	c.accumulatorsStartEmpty("C19.1 accumulators", "decodePrefixes", "decodeAddPathPrefixes", "DecodeMPReachIPv6NextHops")
	c.setDecoderShape("C19.3 next-hop-list", "DecodeMPReachIPv6NextHops", 16)
	c.specConstants("C19.3 spec-constants", "NOTIF_CODE_UPDATE_MESSAGE_ERR", "NOTIF_SUBCODE_MALFORMED_ATTR_LIST", "NOTIF_SUBCODE_UNRECOGNIZED_WELL_KNOWN_ATTR", "NOTIF_SUBCODE_MISSING_WELL_KNOWN_ATTR", "NOTIF_SUBCODE_ATTR_FLAGS_ERR", "NOTIF_SUBCODE_ATTR_LEN_ERR", "NOTIF_SUBCODE_INVALID_ORIGIN_ATTR", "NOTIF_SUBCODE_INVALID_NEXT_HOP_ATTR", "NOTIF_SUBCODE_OPTIONAL_ATTR_ERR", "NOTIF_SUBCODE_INVALID_NETWORK_FIELD", "NOTIF_SUBCODE_MALFORMED_AS_PATH", "PATH_ATTR_MP_REACH_NLRI", "PATH_ATTR_MP_UNREACH_NLRI", "AFI_IPV4", "AFI_IPV6", "SAFI_UNICAST")
	c.prefixLoops("C19.1 prefix-lists")
	c.nlriWrappers("C19.2 wrappers")
	c.mpSplitters("C19.3 mp-splitters")
	c.checkBounds("C19.4", []string{"decodePrefix", "decodePrefixes", "decodeAddPathPrefixes", "NewNLRIDecodeFn", "NewNLRIAddPathDecodeFn", "NewWithdrawnRoutesDecodeFn",
		"NewWithdrawnAddPathRoutesDecodeFn", "NewMPReachNLRIDecodeFn", "NewMPUnreachNLRIDecodeFn", "DecodeMPReachIPv6NextHops", "DecodeMPIPv6Prefixes", "DecodeMPIPv6AddPathPrefixes", "PathAttrFlags.Validate", "notifDataForAttrBasedErr"}, 20)
	_ = p
}

func (c *Check) decodePrefixRules(rule string) {
	p := c.P
	fn := p.Fn("decodePrefix")
	if fn == nil {
		return
	}
	// the field and the family flag, wherever they stand in the signature
	bi, vi := -1, -1
	for i, prm := range fn.Params {
		if sl, ok := prm.Type().Underlying().(*types.Slice); ok && bi < 0 && typeKey(sl.Elem()) == "byte" || (ok && bi < 0 && typeKey(sl.Elem()) == "uint8") {
			bi = i
		}
		if isBoolType(prm.Type()) && vi < 0 {
			vi = i
		}
	}
	if bi < 0 || vi < 0 {
		c.undecided(rule, "decodePrefix", "signature", p.Pos(fn.Pos()), "expected a []byte field and a bool family parameter")
		return
	}
	b := paramExpr(fn, bi)
	v6 := paramExpr(fn, vi)
	bl := byteLoad(b, 0)
	isBL := func(e *Expr) bool { return e.Key == bl.Key }
	fam := func(v int64) func(a *Analysis, st *State) {
		return func(a *Analysis, st *State) {
			st.rng[v6.Key] = isConst(v)
			st.rng[mkLen(b).Key] = isRange(1, posInf)
		}
	}
	// the error result is the third value
	c.runCases(rule, "decodePrefix", []asmCase{
		{name: "IPv4 length octet > 32 => error", hook: rangeHook(isBL, isRange(33, 255)), init: fam(0), forbid: forbidAccept},
		{name: "IPv6 length octet > 128 => error", hook: rangeHook(isBL, isRange(129, 255)), init: fam(1), forbid: forbidAccept},
		{name: "empty input => error", init: func(a *Analysis, st *State) { st.rng[mkLen(b).Key] = isConst(0) }, forbid: forbidAccept},
	})
	// acceptance: a length octet within the family's range with all its
	// address octets present is decoded (the boundaries /32, /128, the /0 entry
	// of one octet, and the exact fit are inside these ranges)
	mustAccept := func(rs retSite) string {
		if !isAccept(rs) {
			return "rejected"
		}
		return ""
	}
	lenIs := func(v6v int64, set ISet) func(a *Analysis, st *State) {
		return func(a *Analysis, st *State) {
			st.rng[v6.Key] = isConst(v6v)
			st.rng[mkLen(b).Key] = set
		}
	}
	c.runCases(rule, "decodePrefix", []asmCase{
		{name: "IPv4, length octet 0..32, 5 or more octets => accepted", hook: rangeHook(isBL, isRange(0, 32)), init: lenIs(0, isRange(5, posInf)), forbid: mustAccept},
		{name: "IPv6, length octet 0..128, 17 or more octets => accepted", hook: rangeHook(isBL, isRange(0, 128)), init: lenIs(1, isRange(17, posInf)), forbid: mustAccept},
		{name: "IPv4 /0 in one octet => accepted", hook: rangeHook(isBL, isConst(0)), init: lenIs(0, isConst(1)), forbid: mustAccept},
		{name: "IPv6 /0 in one octet => accepted", hook: rangeHook(isBL, isConst(0)), init: lenIs(1, isConst(1)), forbid: mustAccept},
		{name: "IPv4 /1../8 in two octets => accepted", hook: rangeHook(isBL, isRange(1, 8)), init: lenIs(0, isConst(2)), forbid: mustAccept},
		{name: "IPv6 /121../128 in exactly 17 octets => accepted", hook: rangeHook(isBL, isRange(121, 128)), init: lenIs(1, isConst(17)), forbid: mustAccept},
	})
	// field ends inside the entry => error: len(rest) < ceil(bl/8)
	for _, fv := range []int64{0, 1} {
		maxBL := int64(32)
		if fv == 1 {
			maxBL = 128
		}
		a := NewAnalysis(p, fn)
		a.AtomHook = rangeHook(isBL, isRange(0, maxBL))
		a.Init = fam(fv)
		a.Run()
		n := 0
		for _, r := range a.Returns {
			if !r.Results[2].IsNil() {
				continue
			}
			n++
			st := r.State
			// octets = (bl+7)/8 ; facts: len(b)-1 >= octets
			// ceil(bits/8), computed in the octet's own type or widened to int
			// first (the same number: bits+7 <= 135 does not wrap)
			oct := mkBin(token.QUO, mkBin(token.ADD, bl, mkConst(7, bl.Typ), bl.Typ, bl.Typ), mkConst(8, bl.Typ), bl.Typ, bl.Typ)
			octW := mkBin(token.QUO, mkBin(token.ADD, bl, mkConst(7, intT), intT, intT), mkConst(8, intT), intT, intT)
			if !st.impliedGE(st.linOf(mkLen(b)).add(linConst(1), -1).add(st.linOf(oct), -1)) && st.impliedGE(st.linOf(mkLen(b)).add(linConst(1), -1).add(st.linOf(octW), -1)) {
				oct = octW
			}
			need := st.linOf(mkLen(b)).add(linConst(1), -1).add(st.linOf(oct), -1)
			ok := st.impliedGE(need)
			c.require(ok, rule, "decodePrefix", fmt.Sprintf("success implies enough octets (ipv6=%d)", fv), p.InstrPos(r.Instr), "on success len(field)-1 >= ceil(bits/8): the address octets are all present")
			// results: PrefixFrom(addr, int(bl)) and the remainder after exactly 1+octets
			pf := r.Results[0]
			okP := isCallNamed(pf, "netip.PrefixFrom") && len(pf.Args) == 2 && st.linOf(pf.Args[1]).add(st.linOf(bl), -1).key() == linConst(0).key()
			c.require(okP, rule, "decodePrefix", fmt.Sprintf("prefix length is the length octet (ipv6=%d)", fv), p.InstrPos(r.Instr), "PrefixFrom(addr, int(length octet)); got "+trunc(pf.Key, 80))
			rest := r.Results[1]
			lo := linConst(1).add(st.linOf(oct), 1)
			okR, d := sliceIs(st, rest, b, lo, nil)
			c.require(okR, rule, "decodePrefix", fmt.Sprintf("remainder after 1+ceil(bits/8) octets (ipv6=%d)", fv), p.InstrPos(r.Instr), d)
			// the address is built from exactly `octets` octets copied into a zeroed array
			okC := st.must["call:builtin:copy"]
			want := "netip.AddrFrom4"
			if fv == 1 {
				want = "netip.AddrFrom16"
			}
			okC = okC && strings.Contains(pf.Key, want)
			c.require(okC, rule, "decodePrefix", fmt.Sprintf("address family (ipv6=%d)", fv), p.InstrPos(r.Instr), "the address octets are copied into a zero-padded "+want+" array")
			// zero padding: the array is a variable of this call (zeroed when
			// the call starts), not storage that outlives it
			okZ := false
			if isCallNamed(pf, "netip.PrefixFrom") && len(pf.Args) == 2 && isCallNamed(pf.Args[0], want) && len(pf.Args[0].Args) == 1 {
				arr := pf.Args[0].Args[0]
				if arr.Op == "ld" && arr.Args[0].Op == "alloc" && st.fresh[arr.Args[0].Key] {
					okZ = true
				}
			}
			c.require(okZ, rule, "decodePrefix", fmt.Sprintf("zero padding (ipv6=%d)", fv), p.InstrPos(r.Instr),
				"the array handed to "+want+" is allocated (hence zeroed) by this call: octets beyond ceil(bits/8) are 0, not leftovers of an earlier prefix")
		}
		if n == 0 {
			c.fail(rule, "decodePrefix", fmt.Sprintf("success reachable (ipv6=%d)", fv), p.Pos(fn.Pos()), "no successful return")
		}
		// the copy copies exactly b[1 : 1+octets]
		for _, cl := range p.callsIn(fn, descIs("builtin:copy")) {
			for _, st := range a.At[cl.(ssa.Instruction)] {
				args := a.argExprs(st, nil, cl.Common())
				oct := mkBin(token.QUO, mkBin(token.ADD, bl, mkConst(7, bl.Typ), bl.Typ, bl.Typ), mkConst(8, bl.Typ), bl.Typ, bl.Typ)
				hi := linConst(1).add(st.linOf(oct), 1)
				ok, d := sliceIs(st, args[1], b, linConst(1), &hi)
				if !ok {
					octW := mkBin(token.QUO, mkBin(token.ADD, bl, mkConst(7, intT), intT, intT), mkConst(8, intT), intT, intT)
					hiW := linConst(1).add(st.linOf(octW), 1)
					if okW, _ := sliceIs(st, args[1], b, linConst(1), &hiW); okW {
						ok = true
					}
				}
				c.require(ok, rule, "decodePrefix", "address octets copied", p.InstrPos(cl.(ssa.Instruction)), "copy source is field[1 : 1+ceil(bits/8)] — "+d)
			}
		}
	}
}

func (c *Check) prefixLoops(rule string) {
	p := c.P
	for _, s := range []struct {
		fn      string
		addPath bool
	}{{"decodePrefixes", false}, {"decodeAddPathPrefixes", true}} {
		fn := p.Fn(s.fn)
		if fn == nil {
			continue
		}
		isDPErr := func(e *Expr) bool {
			return e.Op == "nn" && e.Args[0].Op == "ex" && e.Args[0].Args[0].Op == "rcall" && e.Args[0].Args[0].S == "decodePrefix"
		}
		// an entry error aborts with (nil, err): no partial list
		a := NewAnalysis(p, fn)
		a.AtomHook = rangeHook(isDPErr, isConst(1))
		a.Init = func(a *Analysis, st *State) { st.rng[mkLen(paramExpr(fn, 0)).Key] = isRange(5, posInf) }
		a.Run()
		ok := len(a.Returns) > 0
		for _, r := range a.Returns {
			if !r.Results[0].IsNil() {
				ok = false
			}
			if v, isC := r.State.nonNil(r.Results[1]).IsConst(); !isC || v != 1 {
				ok = false
			}
		}
		c.require(ok, rule, s.fn, "entry error => (nil, error)", p.Pos(fn.Pos()), "a malformed entry aborts the whole list: nil list and a non-nil error")
		// success: loop exits only when nothing remains
		b := NewAnalysis(p, fn)
		b.AtomHook = hooks(rangeHook(isDPErr, isConst(0)), func(e *Expr) (ISet, bool) {
			// the remainder returned by decodePrefix is never empty
			if op, x, y, ok := cmpOf(e); ok {
				for _, t := range []*Expr{x, y} {
					if t.Op == "len" && (t.Args[0].Op == "phi" || t.Args[0].Op == "ex") {
						_ = op
						return lenAtLeastOneHook(e)
					}
				}
			}
			return nil, false
		})
		b.Init = func(a *Analysis, st *State) { st.rng[mkLen(paramExpr(fn, 0)).Key] = isRange(5, posInf) }
		b.Run()
		okS := true
		for _, r := range b.Returns {
			if r.Results[1].IsNil() && !r.Results[0].IsNil() {
				okS = false
			}
		}
		c.require(okS, rule, s.fn, "whole field consumed", p.Pos(fn.Pos()), "a non-nil list is returned only after the field is consumed completely")
		// a field of one octet (plain) / five octets (add-path) is an entry,
		// not "nothing": it is decoded; shorter add-path fields are errors
		first := int64(1)
		if s.addPath {
			first = 5
		}
		{
			d := NewAnalysis(p, fn)
			d.AtomHook = rangeHook(isDPErr, isConst(0))
			d.Init = func(a *Analysis, st *State) { st.rng[mkLen(paramExpr(fn, 0)).Key] = isConst(first) }
			// the first iteration is kept apart from the later ones (a tag set
			// on the edge entering the loop, cleared on its back edge)
			d.AfterFlow = func(from, to *ssa.BasicBlock, st *State) {
				if to.Parent() != fn {
					return
				}
				isHead := false
				for _, pr := range to.Preds {
					if to.Dominates(pr) {
						isHead = true
					}
				}
				if !isHead {
					return
				}
				if to.Dominates(from) {
					st.tags["first"] = 0
				} else {
					st.tags["first"] = 1
				}
			}
			d.Run()
			okF := len(d.Returns) > 0 && len(d.Undecided) == 0
			entered := false
			for _, r := range d.Returns {
				if r.State.tags["first"] != 1 {
					// before the loop: "empty field" for a field that has an entry
					if _, inLoopOrAfter := r.State.tags["first"]; !inLoopOrAfter {
						okF = false
					}
					continue
				}
				// a way out during the first iteration: only through the entry's decoder
				if !r.State.must["call:decodePrefix"] {
					okF = false
				}
			}
			for in, sts := range d.At {
				if ci, isC := in.(ssa.CallInstruction); isC && p.calleeDesc(ci) == "builtin:append" {
					for _, st := range sts {
						if st.tags["first"] == 1 {
							entered = true
						}
					}
				}
			}
			okF = okF && entered
			c.require(okF, rule, s.fn, fmt.Sprintf("field of %d octet(s) is one entry", first), p.Pos(fn.Pos()),
				"the shortest possible entry (a /0 prefix) is decoded and appended, not skipped as an empty field or refused")
			if s.addPath {
				e := NewAnalysis(p, fn)
				e.Init = func(a *Analysis, st *State) { st.rng[mkLen(paramExpr(fn, 0)).Key] = isRange(1, 4) }
				e.Run()
				okE := len(e.Returns) > 0
				for _, r := range e.Returns {
					if v, isC := r.State.nonNil(r.Results[1]).IsConst(); !isC || v != 1 || !r.Results[0].IsNil() {
						okE = false
					}
				}
				c.require(okE, rule, s.fn, "1..4 octets => error", p.Pos(fn.Pos()), "a field too short for a path identifier and a length octet is an error, not an empty list")
			}
		}
		// order-preserving unconditional append of each decoded entry
		apps := p.callsIn(fn, descIs("builtin:append"))
		okA := len(apps) == 1 && inLoop(apps[0].Block()) && everyIteration(apps[0].(ssa.Instruction))
		c.require(okA, rule, s.fn, "append every entry in order", p.Pos(fn.Pos()), "one append per decoded entry, in wire order")
		// the next entry starts at the remainder decodePrefix returned
		plain := NewAnalysis(p, fn)
		plain.Run()
		for _, blk := range fn.Blocks {
			for _, in := range blk.Instrs {
				phi, isPhi := in.(*ssa.Phi)
				if !isPhi {
					break
				}
				if _, isSlice := phi.Type().Underlying().(*types.Slice); !isSlice || !inLoop(blk) || typeKey(phi.Type()) != "[]byte" {
					continue
				}
				for i, e := range phi.Edges {
					if !blk.Dominates(blk.Preds[i]) {
						continue
					}
					ex, isEx := e.(*ssa.Extract)
					okN := isEx && ex.Index == 1
					if okN {
						cl, isCall := ex.Tuple.(*ssa.Call)
						okN = isCall && p.calleeDesc(cl) == "decodePrefix"
					}
					c.require(okN, rule, s.fn, "cursor is decodePrefix's remainder", p.InstrPos(phi), "the next entry starts exactly where the previous one ended")
				}
			}
		}
		if s.addPath {
			// path id: be32 of the first four octets, guarded by len >= 5; prefix from b[4:]
			for _, cl := range p.callsIn(fn, descIs("decodePrefix")) {
				for _, st := range plain.At[cl.(ssa.Instruction)] {
					args := plain.argExprs(st, nil, cl.Common())
					r, lo, hi := sliceParts(args[0])
					okP := r.Op == "phi" && hi == nil && lo != nil
					if okP {
						cv, isC := lo.IsConst()
						okP = isC && cv == 4
					}
					g := st.impliedGE(st.linOf(mkLen(r)).add(linConst(5), -1))
					c.require(okP && g, rule, s.fn, "path id then prefix", p.InstrPos(cl.(ssa.Instruction)), "the prefix is decoded from entry[4:] after at least 5 octets were seen")
				}
			}
			ids := 0
			allInstrs(fn, func(in ssa.Instruction) {
				if st, isS := in.(*ssa.Store); isS {
					if fa, isF := st.Addr.(*ssa.FieldAddr); isF && structFieldName(fa) == "ID" {
						ids++
						cl, isC := st.Val.(*ssa.Call)
						okI := isC && p.calleeDesc(cl) == "binary.bigEndian.Uint32"
						if okI {
							_, isPhi := cl.Call.Args[1].(*ssa.Phi)
							okI = isPhi
						}
						c.require(okI, rule, s.fn, "path id", p.InstrPos(in), "ID is the big-endian uint32 at the start of the entry")
					}
				}
			})
			c.floor(rule, ids, 1, "path id stores")
		}
	}
}

// nlriWrappers: the exported decode-function constructors.
func (c *Check) nlriWrappers(rule string) {
	p := c.P
	type w struct {
		outer, helper string
		ipv6          int64
		code, sub     int64
		closure       bool
	}
	ws := []w{
		{"NewNLRIDecodeFn", "decodePrefixes", 0, 3, 10, true},
		{"NewNLRIAddPathDecodeFn", "decodeAddPathPrefixes", 0, 3, 10, true},
		{"NewWithdrawnRoutesDecodeFn", "decodePrefixes", 0, 3, 0, true},
		{"NewWithdrawnAddPathRoutesDecodeFn", "decodeAddPathPrefixes", 0, 3, 0, true},
		{"DecodeMPIPv6Prefixes", "decodePrefixes", 1, 3, 0, false},
		{"DecodeMPIPv6AddPathPrefixes", "decodeAddPathPrefixes", 1, 3, 0, false},
	}
	for _, x := range ws {
		fn := p.Fn(x.outer)
		if fn == nil {
			continue
		}
		// the decoder the constructor returns: a closure created here or in a
		// helper, with its captured variables bound as at creation
		var bound map[ssa.Value]*Expr
		var boundMem map[string][2]*Expr
		if x.closure {
			oa := NewAnalysis(p, fn)
			oa.Run()
			var cl *Expr
			for _, r := range oa.Returns {
				if res := r.Results[0]; res.Op == "closure" {
					cl = res
				}
			}
			var cf *ssa.Function
			if cl != nil {
				cf = p.Funcs[cl.S]
			}
			if cf == nil || len(oa.Returns) != 1 {
				c.fail(rule, x.outer, "closure", p.Pos(fn.Pos()), "expected the constructor to return one closure")
				continue
			}
			bound = map[ssa.Value]*Expr{}
			for i, fv := range cf.FreeVars {
				if i < len(cl.Args) {
					bound[fv] = cl.Args[i]
				}
			}
			// captured cells keep the values they hold when the closure is returned
			boundMem = map[string][2]*Expr{}
			rst := oa.Returns[0].State
			for k, me := range rst.memE {
				if me == nil {
					continue
				}
				root := rootOf(me)
				for _, b := range cl.Args {
					if root != nil && root.Key == b.Key {
						boundMem[k] = [2]*Expr{me, rst.mem[k]}
					}
				}
			}
			fn = cf
		}
		name := p.Name(fn)
		initBound := func(a *Analysis, st *State) {
			for fv, e := range bound {
				st.env[fv] = e
			}
			for k, mv := range boundMem {
				st.memE[k] = mv[0]
				st.mem[k] = mv[1]
			}
		}
		isErr := func(e *Expr) bool {
			return e.Op == "nn" && e.Args[0].Op == "ex" && e.Args[0].Args[0].Op == "rcall" && e.Args[0].Args[0].S == x.helper
		}
		for _, ev := range []int64{1, 0} {
			a := NewAnalysis(p, fn)
			a.AtomHook = rangeHook(isErr, isConst(ev))
			a.Init = initBound
			a.Run()
			if os.Getenv("CBGP_DEBUG") != "" {
				for _, rr := range a.Returns {
					fmt.Printf("DEBUG %s ev=%d: %v\n", name, ev, rr.Results)
				}
				fmt.Printf("DEBUG boundMem %v\n", boundMem)
			}
			ok := len(a.Returns) > 0
			detail := ""
			for _, r := range a.Returns {
				res := r.Results[len(r.Results)-1]
				st := r.State
				userCalled := false
				for ev2 := range st.may {
					if strings.HasPrefix(ev2, "call:dyn:func(") {
						userCalled = true
					}
				}
				if ev == 1 {
					ec := p.classifyErr(st, res)
					good := ec.Kind == "Notification" && ec.Notif != nil
					if good {
						cc, _ := ec.Notif.Code.IsConst()
						ss, _ := ec.Notif.Sub.IsConst()
						good = cc == x.code && ss == x.sub
					}
					if !good || userCalled {
						ok = false
						detail = fmt.Sprintf("a syntax error must yield *Notification (%d,%d) without calling the user function; got %s %v", x.code, x.sub, ec.Kind, ec.Notif)
					}
					if !x.closure && !r.Results[0].IsNil() {
						ok, detail = false, "no partial result with an error"
					}
				} else if x.closure {
					good := res.Op == "rcall" && strings.HasPrefix(res.S, "dyn:func(") && len(res.Args) >= 3 && res.Args[len(res.Args)-1].Op == "ex"
					if !good {
						ok, detail = false, "on success the user function's result is returned and it receives the decoded list; got "+trunc(res.Key, 80)
					}
				} else if !res.IsNil() || r.Results[0].Op != "ex" {
					ok, detail = false, "on success the decoded list and a nil error are returned"
				}
			}
			c.require(ok, rule, name, fmt.Sprintf("helper error=%d", ev), p.Pos(fn.Pos()), detail)
		}
		// the helper is called with the whole field and the right family
		a := NewAnalysis(p, fn)
		a.Init = initBound
		a.Run()
		nh := 0
		for _, cl := range p.callsIn(fn, func(string) bool { return true }) {
			for i, st := range a.At[cl.(ssa.Instruction)] {
				// the call may be static or through a captured func value
				callee := ""
				if f := p.staticLocalCallee(cl); f != nil {
					callee = p.Name(f)
				} else if !cl.Common().IsInvoke() {
					if fv := a.ExprAt(st, cl.Common().Value); fv != nil && fv.Op == "fn" {
						callee = strings.TrimSuffix(fv.S, "#")
					}
				}
				if callee != x.helper {
					continue
				}
				nh++
				args := a.callArgsAt(cl)[i]
				fv, isC := args[1].IsConst()
				okH := args[0].Op == "param" && isC && fv == x.ipv6
				c.require(okH, rule, name, "helper arguments", p.InstrPos(cl.(ssa.Instruction)), fmt.Sprintf("%s(whole field, ipv6=%v)", x.helper, x.ipv6 == 1))
			}
		}
		c.require(nh > 0, rule, name, "helper called", p.Pos(fn.Pos()), "the list decoder "+x.helper+" is called")
	}
	// IPv6 next hops: 16 or 32 octets only
	if fn := p.Fn("DecodeMPReachIPv6NextHops"); fn != nil {
		nh := paramExpr(fn, 0)
		bad := isRange(0, posInf).Minus(isConst(16)).Minus(isConst(32))
		c.runCases(rule, "DecodeMPReachIPv6NextHops", []asmCase{
			{name: "length not 16 or 32 => *Notification (3,0)", init: func(a *Analysis, st *State) { st.rng[mkLen(nh).Key] = bad }, forbid: func(rs retSite) string {
				if rs.ec.Kind == "Notification" && rs.ec.Notif != nil {
					cc, _ := rs.ec.Notif.Code.IsConst()
					ss, _ := rs.ec.Notif.Sub.IsConst()
					if cc == 3 && ss == 0 {
						return ""
					}
				}
				return "must be *Notification (3,0); got " + rs.ec.Kind
			}},
			{name: "length 16 or 32 => accepted", init: func(a *Analysis, st *State) { st.rng[mkLen(nh).Key] = isConst(16).Union(isConst(32)) }, forbid: func(rs retSite) string {
				if !isAccept(rs) {
					return "rejected"
				}
				return ""
			}},
		})
	}
}

// mpSplitters: MP_REACH_NLRI / MP_UNREACH_NLRI.
func (c *Check) mpSplitters(rule string) {
	p := c.P
	for _, s := range []struct {
		outer string
		reach bool
		code  string
	}{{"NewMPReachNLRIDecodeFn", true, "PATH_ATTR_MP_REACH_NLRI"}, {"NewMPUnreachNLRIDecodeFn", false, "PATH_ATTR_MP_UNREACH_NLRI"}} {
		outer := p.Fn(s.outer)
		if outer == nil || len(outer.AnonFuncs) != 1 {
			continue
		}
		fn := outer.AnonFuncs[0]
		name := p.Name(fn)
		if len(fn.Params) != 3 {
			continue
		}
		b := paramExpr(fn, 2)
		lenB := mkLen(b)
		isVal := func(e *Expr) bool { return e.Op == "rcall" && e.S == "PathAttrFlags.Validate" }
		minLen := int64(3)
		if s.reach {
			minLen = 5
		}
		n := byteLoad(b, 3)
		// (1) too short => Join(flags error, (3,5)) and no callback
		for _, short := range []string{"short", "nexthop-overrun"} {
			if short == "nexthop-overrun" && !s.reach {
				continue
			}
			a := NewAnalysis(p, fn)
			a.Init = func(a *Analysis, st *State) {
				if short == "short" {
					st.rng[lenB.Key] = isRange(0, minLen-1)
				} else {
					st.rng[lenB.Key] = isRange(5, posInf)
					// len(b)-4 < n+1  <=>  n + 4 - len(b) >= 0
					st.addFact(Fact{L: st.linOf(n).add(linConst(4), 1).add(st.linOf(lenB), -1)})
				}
			}
			a.Run()
			ok := len(a.Returns) > 0
			detail := ""
			for _, r := range a.Returns {
				res := r.Results[0]
				good := res.Op == "call" && res.S == "errors.Join" && len(res.Args) == 2 && isVal(res.Args[0])
				if good {
					nv, isN := p.notifAt(r.State, res.Args[1])
					good = isN
					if isN {
						cc, _ := nv.Code.IsConst()
						ss, _ := nv.Sub.IsConst()
						good = cc == 3 && ss == 5
					}
				}
				for ev := range r.State.may {
					if strings.HasPrefix(ev, "call:dyn:func(") {
						good = false
					}
				}
				if !good {
					ok, detail = false, "must return errors.Join(flags error, *Notification (3,5)) without calling the user function; got "+trunc(res.Key, 80)
				}
			}
			c.require(ok, rule, name, "attribute too short: "+short, p.Pos(fn.Pos()), detail)
		}
		// (2) long enough => the callback runs whatever the flags check said, with exact pieces
		a := NewAnalysis(p, fn)
		a.Init = func(a *Analysis, st *State) {
			st.rng[lenB.Key] = isRange(minLen, posInf)
			if s.reach {
				st.addFact(Fact{L: st.linOf(lenB).add(linConst(5), -1).add(st.linOf(n), -1)}) // len-4 >= n+1
			}
		}
		a.AtomHook = func(e *Expr) (ISet, bool) {
			if e.Op == "nn" && isVal(e.Args[0]) {
				return isConst(1), true
			}
			return nil, false
		}
		a.Run()
		ok := len(a.Returns) > 0
		detail := ""
		for _, r := range a.Returns {
			res := r.Results[0]
			good := res.Op == "call" && res.S == "errors.Join" && len(res.Args) == 2 && isVal(res.Args[0]) && res.Args[1].Op == "rcall" && strings.HasPrefix(res.Args[1].S, "dyn:func(")
			if good {
				args := res.Args[1].Args[1:] // after the call leaf
				// t, afi, safi, (nh, nlri | withdrawn)
				st := r.State
				afi := mk("call", types.Typ[types.Uint16], "be16", 0, b, mkConst(0, intT), mkStr(""))
				safi := byteLoad(b, 2)
				if args[1].Key != afi.Key || args[2].Key != safi.Key {
					good, detail = false, "AFI must be be16(attr,0) and SAFI octet 2"
				}
				if s.reach && good {
					hi := linConst(4).add(st.linOf(n), 1)
					if okS, d := sliceIs(st, args[3], b, linConst(4), &hi); !okS {
						good, detail = false, "next hop must be attr[4:4+n]: "+d
					}
					if okS, d := sliceIs(st, args[4], b, linConst(5).add(st.linOf(n), 1), nil); !okS {
						good, detail = false, "NLRI must be attr[4+n+1:] (reserved octet skipped): "+d
					}
				}
				if !s.reach && good {
					if okS, d := sliceIs(st, args[3], b, linConst(3), nil); !okS {
						good, detail = false, "withdrawn routes must be attr[3:]: "+d
					}
				}
			} else {
				detail = "with a well-sized attribute the user function is called even when the flags are wrong, and its result joined with the flags error; got " + trunc(res.Key, 90)
			}
			if !good {
				ok = false
			}
		}
		c.require(ok, rule, name, "callback pieces and error join", p.Pos(fn.Pos()), detail)
		// (3) flags row
		plain := NewAnalysis(p, fn)
		plain.Run()
		for _, cl := range p.callsIn(fn, descIs("PathAttrFlags.Validate")) {
			for _, args := range plain.callArgsAt(cl) {
				cv, isC := args[1].IsConst()
				o, _ := args[3].IsConst()
				t, _ := args[4].IsConst()
				c.require(isC && cv == p.MustConst(s.code) && o == 1 && t == 0, rule, name, "flags row", p.InstrPos(cl.(ssa.Instruction)), "MP attributes are optional non-transitive and validated with their own code")
			}
		}
	}
	if fn := p.Fn("mpLenErr"); fn != nil {
		a := NewAnalysis(p, fn)
		a.Run()
		ok := false
		for _, r := range a.Returns {
			if nv, isN := p.notifAt(r.State, r.Results[0]); isN {
				cc, _ := nv.Code.IsConst()
				ss, _ := nv.Sub.IsConst()
				ok = cc == 3 && ss == 5
			}
		}
		c.require(ok, rule, "mpLenErr", "(3,5)", p.Pos(fn.Pos()), "UPDATE Message Error / Attribute Length Error")
	}
}
