package main

// C13 — only connections from configured peers to the configured address are
// served; everything else is closed, exactly once, with nothing sent.

import (
	"fmt"
	"sort"
	"strings"

	"golang.org/x/tools/go/ssa"
)

func init() { register("C13", checkC13) }

// inboundAdmission: the inConnCh case of the peer manager (C01.4, C13.3).
func (c *Check) inboundAdmission(rule string) {
	p := c.P
	run := p.Fn("peer.run")
	if run == nil {
		return
	}
	in := p.MustConst("in")
	est := p.MustConst("establishedState")
	a := NewAnalysis(p, run)
	a.Run()
	n := 0
	var enable ssa.Instruction
	for _, cl := range p.callsIn(run, descIs("peer.enableFSM")) {
		for _, st := range a.At[cl.(ssa.Instruction)] {
			args := a.argExprs(st, nil, cl.Common())
			if v, ok := st.rangeOf(args[1]).IsConst(); !ok || v != in {
				continue
			}
			n++
			enable = cl.(ssa.Instruction)
			// conditions implied by the state at the call
			var hold, slotNil, outEst ISet
			hold, slotNil, outEst = isRange(0, 1), isRange(0, 1), isRange(0, 1)
			for k, r := range st.rng {
				switch {
				case strings.HasPrefix(k, "ld:") && strings.Contains(k, "fa:inHoldDown("):
					hold = r
				case strings.HasPrefix(k, "nn:ld:") && strings.Contains(k, "fa:fsms(") && strings.Contains(k, fmt.Sprintf("const:%d))", in)):
					slotNil = r
				case strings.HasPrefix(k, "bin:==") && strings.Contains(k, "fa:fsmState(") && strings.Contains(k, fmt.Sprintf("const:%d,", est)):
					outEst = r
				}
			}
			// the same facts in their other shapes: `!=` instead of `==`, or
			// the refined range of the recorded state itself
			narrowed := false
			var keys []string
			for k := range st.rng {
				keys = append(keys, k)
			}
			sort.Strings(keys)
			for i, j := 0, len(keys)-1; i < j; i, j = i+1, j-1 {
				keys[i], keys[j] = keys[j], keys[i] // "ld:" before "bin:"
			}
			for _, k := range keys {
				r := st.rng[k]
				switch {
				case strings.HasPrefix(k, "bin:!=") && strings.Contains(k, "fa:fsmState(") && strings.Contains(k, fmt.Sprintf("const:%d,", est)):
					if v, isC := r.IsConst(); isC && !narrowed {
						outEst = isConst(1 - v)
					}
				case strings.HasPrefix(k, "ld:") && strings.Contains(k, "fa:fsmState(") && strings.HasSuffix(k, fmt.Sprintf("const:%d))", p.MustConst("out"))):
					// excluded: Established, and nothing but Established (a
					// guard that also refuses OpenConfirm keeps a late inbound
					// connection out of collision resolution)
					all := !r.Contains(est)
					for sv := int64(0); sv < est; sv++ {
						if !r.Contains(sv) {
							all = false
						}
					}
					if all {
						outEst = isConst(0)
					} else {
						outEst = isRange(0, 1)
						narrowed = true
					}
				}
			}
			h, ok1 := hold.IsConst()
			s, ok2 := slotNil.IsConst()
			e, ok3 := outEst.IsConst()
			c.require(ok1 && h == 0, rule, "peer.run", "admission: not in hold-down", p.InstrPos(enable), "an inbound connection is handed to a new FSM only when the peer is not held down")
			c.require(ok2 && s == 0, rule, "peer.run", "admission: inbound slot empty", p.InstrPos(enable), "…only when fsms[in] == nil (enableFSM ignores the connection otherwise and it would leak)")
			c.require(ok3 && e == 0, rule, "peer.run", "admission: outbound not Established", p.InstrPos(enable), "…only when the outbound FSM is not Established")
			// the connection handed over is the one received
			okConn := len(args) == 3 && (args[2].Op == "ex" || args[2].Op == "val")
			c.require(okConn, rule, "peer.run", "admission: connection handed over", p.InstrPos(enable), "the received connection itself is given to the new FSM")
		}
	}
	c.floor(rule, n, 1, "enableFSM(in, conn) sites in peer.run")
	if enable == nil {
		return
	}
	// close-or-hand-off exactly once: from the receive of the connection, every
	// path to the next loop iteration passes exactly one of Close / enableFSM
	var sel *ssa.Select
	allInstrs(run, func(x ssa.Instruction) {
		if s, ok := x.(*ssa.Select); ok {
			sel = s
		}
	})
	if sel == nil {
		return
	}
	// the case block: dominated by the comparison index == k for the inConnCh state
	caseIdx := -1
	for i, ss := range sel.States {
		if chanFieldName(ss.Chan) == "inConnCh" {
			caseIdx = i
		}
	}
	var caseBlock *ssa.BasicBlock
	allInstrs(run, func(x ssa.Instruction) {
		iff, ok := x.(*ssa.If)
		if !ok {
			return
		}
		bo, ok := iff.Cond.(*ssa.BinOp)
		if !ok {
			return
		}
		if cst, ok := bo.Y.(*ssa.Const); ok && cst.Value != nil && cst.Int64() == int64(caseIdx) {
			if ex, ok := bo.X.(*ssa.Extract); ok && ex.Tuple == ssa.Value(sel) && ex.Index == 0 {
				caseBlock = iff.Block().Succs[0]
			}
		}
	})
	if caseBlock == nil || caseIdx < 0 {
		c.undecided(rule, "peer.run", "inConnCh case", p.Pos(run.Pos()), "could not locate the select case")
		return
	}
	isConsume := func(x ssa.Instruction) bool {
		ci, ok := x.(ssa.CallInstruction)
		if !ok {
			return false
		}
		d := p.calleeDesc(ci)
		return d == "invoke:net.Conn.Close" || (d == "peer.enableFSM" && x == enable)
	}
	isLoopHead := func(x ssa.Instruction) bool { return x == ssa.Instruction(sel) }
	first := caseBlock.Instrs[0]
	// neither: reach the select again without consuming
	leak := pathSearch(run, first, isLoopHead, isConsume)
	if isConsume(first) {
		leak = nil
	}
	c.require(leak == nil, rule, "peer.run", "close-or-hand-off: never neither", p.InstrPos(first), "every path of the inbound-connection case either closes the connection or hands it to a new FSM before the next iteration")
	// both: after one consumption another is reachable before the loop head
	both := false
	for _, b := range run.Blocks {
		if !caseBlock.Dominates(b) {
			continue
		}
		for _, x := range b.Instrs {
			if isConsume(x) {
				if hit := pathSearch(run, x, isConsume, isLoopHead); hit != nil {
					both = true
				}
			}
		}
	}
	c.require(!both, rule, "peer.run", "close-or-hand-off: never both", p.InstrPos(first), "a connection is never closed and handed over, or closed twice")
}

func checkC13(c *Check) {
	p := c.P
	c.rendezvousChannels("C13.3 damping-decided-before-next-transition", "errorCh")
	c.registryLocked("C13.4 registry-locked")
	c.backoffArithmetic("C13.3 hold-down-length")
	c.dampPeerRule("C13.3 damp-predicate")
	c.peerConfigVerbatim("C13.1 registry-key-consistent")
	c.readerFraming("C13.3 protocol-errors-reach-the-manager")
	c.inboundLookup("C13.1 lookup-and-destination", "C13.4 registry-locked")
	c.registryKeys("C13.1 registry-keys")
	// incomingConnection: close when the peer is stopping, else hand over
	if ic := p.Fn("peer.incomingConnection"); ic != nil {
		ok := false
		allInstrs(ic, func(in ssa.Instruction) {
			if s, isS := in.(*ssa.Select); isS && s.Blocking && len(s.States) == 2 {
				var hasClose, hasSend bool
				for _, ss := range s.States {
					if ss.Send == nil && chanFieldName(ss.Chan) == "closeCh" {
						hasClose = true
					}
					if ss.Send != nil && chanFieldName(ss.Chan) == "inConnCh" {
						if _, isParam := ss.Send.(*ssa.Parameter); isParam {
							hasSend = true
						}
					}
				}
				ok = hasClose && hasSend
			}
		})
		b := NewAnalysis(p, ic)
		b.Run()
		// on the closeCh branch the connection is closed: check via select index hook
		for _, idx := range []int64{0, 1} {
			d := NewAnalysis(p, ic)
			d.AtomHook = func(e *Expr) (ISet, bool) {
				if e.Op == "ex" && e.Args[0].Op == "val" && intTypeInfo(e.Typ).ok {
					return isConst(idx), true
				}
				return nil, false
			}
			d.Run()
			for _, r := range d.Returns {
				closed := r.State.must["call:invoke:net.Conn.Close"]
				// which state is closeCh?
				var sel *ssa.Select
				allInstrs(ic, func(in ssa.Instruction) {
					if s, isS := in.(*ssa.Select); isS {
						sel = s
					}
				})
				if sel != nil && int(idx) < len(sel.States) {
					isCloseCase := sel.States[idx].Send == nil
					if isCloseCase != closed {
						ok = false
					}
				}
			}
		}
		c.require(ok, "C13.3 peer-stopping", "peer.incomingConnection", "select", p.Pos(ic.Pos()), "the connection is sent to the peer manager, or closed when the peer is stopping; exactly one of the two")
	}
	c.inboundAdmission("C13.3 peer-side-refusal")
	// nothing but Close is ever called on a rejected connection: handled by the Write check above and C03.1
	c.connUsesInbound("C13.2 reject-paths")
	c.capturedVarDiscipline("C13.4 every-listener-served")
	c.notificationReachesManager("C13.3 hold-down-entered")
	c.optionSettersVerbatim("C13.1 configured-local-address")
}

// connUsesInbound: in handleInboundConn and incomingConnection the conn
// parameter is used only for RemoteAddr/LocalAddr/Close and the hand-off.
func (c *Check) connUsesInbound(rule string) {
	p := c.P
	for _, s := range []string{"Server.handleInboundConn", "peer.incomingConnection"} {
		fn := p.Fn(s)
		if fn == nil || len(fn.Params) < 2 {
			continue
		}
		n := 0
		type use struct {
			v ssa.Value
			r ssa.Instruction
		}
		// uses of the parameter, followed into helpers that receive it
		var uses []use
		var collect func(v ssa.Value, depth int)
		collect = func(v ssa.Value, depth int) {
			for _, r := range *v.Referrers() {
				if h := p.helperCallee(r); h != nil && depth < maxHelperDepth {
					args := r.(*ssa.Call).Call.Args
					for k, a := range args {
						if a == v && k < len(h.Params) {
							collect(h.Params[k], depth+1)
						}
					}
					continue
				}
				uses = append(uses, use{v, r})
			}
		}
		collect(fn.Params[1], 0)
		for _, u := range uses {
			r, conn := u.r, u.v
			n++
			switch x := r.(type) {
			case ssa.CallInstruction:
				cc := x.Common()
				d := p.calleeDesc(x)
				ok := false
				if cc.IsInvoke() && cc.Value == conn {
					switch cc.Method.Name() {
					case "Close", "RemoteAddr", "LocalAddr":
						ok = true
					}
				} else if d == "peer.incomingConnection" {
					ok = true
				}
				c.require(ok, rule, s, "use of conn: "+d, p.InstrPos(r), "an inbound connection that is not (yet) admitted is only inspected, closed or handed to the peer")
			case *ssa.Select, *ssa.DebugRef:
			default:
				c.fail(rule, s, fmt.Sprintf("use of conn by %T", r), p.InstrPos(r), "unexpected use of an unadmitted inbound connection")
			}
		}
		c.floor(rule, n, 2, "uses of the conn parameter in "+s)
	}
}

// inboundLookup: handleInboundConn hands a connection to exactly the peer
// registered under the host part of its remote address (and only on the
// configured local address), and closes every other connection.
func (c *Check) inboundLookup(rule, lockRule string) {
	p := c.P
	fn := p.Fn("Server.handleInboundConn")
	if fn == nil {
		return
	}
	// patterns
	isExists := func(e *Expr) bool { // comma-ok of the peers lookup
		if e.Op == "nn" && e.Args[0].Op == "val" && typeKey(e.Args[0].Typ) == "*peer" {
			return true // `p := s.peers[k]; p != nil` (only non-nil peers are ever stored)
		}
		return e.Op == "ex" && len(e.Args) == 2 && e.Args[0].Op == "val" && isBoolType(e.Typ)
	}
	isSplitErr := func(which int) func(e *Expr) bool {
		return func(e *Expr) bool {
			if e.Op != "nn" {
				return false
			}
			x := e.Args[0]
			if x.Op != "ex" || x.Args[0].Op != "rcall" || x.Args[0].S != "net.SplitHostPort" {
				return false
			}
			isRemote := strings.Contains(x.Args[0].Key, "RemoteAddr")
			return (which == 0) == isRemote
		}
	}
	isLocalValid := func(e *Expr) bool {
		return isCallNamed(e, "netip.Addr.IsValid") && strings.Contains(e.Key, "fa:localAddress(")
	}
	isAddrCmp := func(e *Expr) bool { // p.options.localAddress != laddr
		op, x, y, ok := cmpOf(e)
		return ok && (op == "!=" || op == "==") && (strings.Contains(x.Key, "fa:localAddress(") || strings.Contains(y.Key, "fa:localAddress("))
	}
	addrDiffers := func(differs bool) func(e *Expr) (ISet, bool) {
		return func(e *Expr) (ISet, bool) {
			if !isAddrCmp(e) {
				return nil, false
			}
			op, _, _, _ := cmpOf(e)
			return isConst(b2i((op == "!=") == differs)), true
		}
	}
	type want struct {
		name    string
		hook    func(e *Expr) (ISet, bool)
		handoff bool
	}
	okRemote := rangeHook(isSplitErr(0), isConst(0))
	found := rangeHook(isExists, isConst(1))
	for _, w := range []want{
		{"source address unparsable", rangeHook(isSplitErr(0), isConst(1)), false},
		{"source is not a configured peer", hooks(okRemote, rangeHook(isExists, isConst(0))), false},
		{"configured peer, no local address configured", hooks(okRemote, found, rangeHook(isLocalValid, isConst(0))), true},
		{"local address configured, destination unparsable", hooks(okRemote, found, rangeHook(isLocalValid, isConst(1)), rangeHook(isSplitErr(1), isConst(1))), false},
		{"local address configured, destination differs", hooks(okRemote, found, rangeHook(isLocalValid, isConst(1)), rangeHook(isSplitErr(1), isConst(0)), addrDiffers(true)), false},
		{"local address configured, destination equal", hooks(okRemote, found, rangeHook(isLocalValid, isConst(1)), rangeHook(isSplitErr(1), isConst(0)), addrDiffers(false)), true},
	} {
		a := NewAnalysis(p, fn)
		a.AtomHook = w.hook
		a.Run()
		if len(a.Undecided) > 0 {
			c.undecided(rule, "Server.handleInboundConn", w.name, p.Pos(fn.Pos()), a.Undecided[0])
			continue
		}
		ok := len(a.Returns) > 0
		detail := ""
		for _, r := range a.Returns {
			st := r.State
			closed, handed := st.must["call:invoke:net.Conn.Close"], st.must["call:peer.incomingConnection"]
			mayClose, mayHand := st.may["call:invoke:net.Conn.Close"], st.may["call:peer.incomingConnection"]
			if w.handoff && !(handed && !mayClose) {
				ok = false
				detail = "the connection must be handed to the peer (and not closed here)"
			}
			if !w.handoff && !(closed && !mayHand) {
				ok = false
				detail = "the connection must be closed and never handed to a peer"
			}
			if st.may["call:invoke:net.Conn.Write"] {
				ok = false
				detail = "nothing may be written on an inbound connection here"
			}
		}
		c.require(ok, rule, "Server.handleInboundConn", w.name, p.Pos(fn.Pos()), detail)
	}
	// the lookup key is the host part of the remote address; the comparison
	// uses the parsed host part of the local address
	a := NewAnalysis(p, fn)
	a.Run()
	nl := 0
	allInstrs(fn, func(in ssa.Instruction) {
		lk, ok := in.(*ssa.Lookup)
		if !ok {
			return
		}
		nl++
		for _, st := range a.At[in] {
			k := a.exprOf(st, nil, lk.Index)
			okK := k.Op == "ex" && strings.Contains(k.Key, "net.SplitHostPort") && strings.Contains(k.Key, "RemoteAddr")
			if okK {
				i, _ := k.Args[1].IsConst()
				okK = i == 0
			}
			c.require(okK, rule, "Server.handleInboundConn", "lookup key", p.InstrPos(in), "the registry is looked up with the host part of conn.RemoteAddr()")
		}
		held := p.lockHeld(fn, "mu")
		c.require(held[in], lockRule, "Server.handleInboundConn", "lookup under lock", p.InstrPos(in), "the lookup runs with Server.mu held")
	})
	c.floor(rule, nl, 1, "registry lookups in handleInboundConn")
}

// registryKeys: every insert, lookup and delete of the peer registry derives
// its key from a netip.Addr by the same function.
func (c *Check) registryKeys(rule string) {
	p := c.P
	// map keys agree across insert / lookup / delete: String() of a netip.Addr
	keyShapes := map[string][]string{}
	defer func() {
		if len(keyShapes) > 1 {
			var all []string
			for sh, sites := range keyShapes {
				all = append(all, sh+"addr at "+strings.Join(sites, ", "))
			}
			sort.Strings(all)
			c.fail(rule, "", "one key function", "-", "the registry is keyed by different functions of the address at different sites (an entry inserted under one is not found under the other): "+strings.Join(all, " | "))
		} else {
			c.ok(rule, "", "one key function", "-", "every insert, lookup and delete derives its key from the address the same way")
		}
	}()
	for _, s := range []string{"Server.AddPeer", "Server.DeletePeer", "Server.GetPeer"} {
		g := p.Fn(s)
		if g == nil {
			continue
		}
		b := NewAnalysis(p, g)
		b.Run()
		allInstrs(g, func(in ssa.Instruction) {
			var key ssa.Value
			switch x := in.(type) {
			case *ssa.Lookup:
				key = x.Index
			case *ssa.MapUpdate:
				key = x.Key
			case *ssa.Call:
				if p.calleeDesc(x) == "builtin:delete" {
					key = x.Call.Args[1]
				}
			}
			if key == nil {
				return
			}
			for _, st := range b.At[in] {
				k := b.exprOf(st, nil, key)
				c.require(isCallNamed(k, "netip.Addr.String"), rule, s, "map key", p.InstrPos(in), "registry keys are netip.Addr.String() of the remote address; got "+trunc(k.Key, 60))
				// the same function of the address at every site: the chain of
				// calls applied to it (String, or String∘Unmap, …)
				shape := ""
				for x := k; x != nil && (x.Op == "call" || x.Op == "rcall") && len(x.Args) > 0; x = x.Args[len(x.Args)-1] {
					shape += x.S + "∘"
				}
				keyShapes[shape] = append(keyShapes[shape], s+" "+p.InstrPos(in))
			}
		})
	}
}
