package main

// Interval sets over int64: the numeric value domain of engine V.

import (
	"fmt"
	"math"
	"sort"
	"strings"
)

const (
	negInf = math.MinInt64
	posInf = math.MaxInt64
)

// Iv is a closed interval [Lo,Hi].
type Iv struct{ Lo, Hi int64 }

// ISet is a sorted list of disjoint, non-adjacent intervals. The empty list is
// the empty set.
type ISet []Iv

func isTop() ISet               { return ISet{{negInf, posInf}} }
func isRange(lo, hi int64) ISet { return ISet{{lo, hi}} }
func isConst(c int64) ISet      { return ISet{{c, c}} }
func isEmpty() ISet             { return ISet{} }
func (s ISet) Empty() bool      { return len(s) == 0 }
func (s ISet) IsTop() bool      { return len(s) == 1 && s[0].Lo == negInf && s[0].Hi == posInf }
func (s ISet) Lo() int64        { return s[0].Lo }
func (s ISet) Hi() int64        { return s[len(s)-1].Hi }
func (s ISet) IsConst() (int64, bool) {
	if len(s) == 1 && s[0].Lo == s[0].Hi {
		return s[0].Lo, true
	}
	return 0, false
}

func (s ISet) Contains(v int64) bool {
	for _, iv := range s {
		if v >= iv.Lo && v <= iv.Hi {
			return true
		}
	}
	return false
}

func (s ISet) String() string {
	if len(s) == 0 {
		return "{}"
	}
	var parts []string
	for _, iv := range s {
		lo, hi := fmt.Sprint(iv.Lo), fmt.Sprint(iv.Hi)
		if iv.Lo == negInf {
			lo = "-inf"
		}
		if iv.Hi == posInf {
			hi = "+inf"
		}
		if iv.Lo == iv.Hi {
			parts = append(parts, lo)
		} else {
			parts = append(parts, "["+lo+","+hi+"]")
		}
	}
	return "{" + strings.Join(parts, ",") + "}"
}

func normalize(in []Iv) ISet {
	var ivs []Iv
	for _, iv := range in {
		if iv.Lo <= iv.Hi {
			ivs = append(ivs, iv)
		}
	}
	if len(ivs) == 0 {
		return ISet{}
	}
	sort.Slice(ivs, func(i, j int) bool { return ivs[i].Lo < ivs[j].Lo })
	out := ISet{ivs[0]}
	for _, iv := range ivs[1:] {
		last := &out[len(out)-1]
		if last.Hi == posInf || iv.Lo <= last.Hi+1 {
			if iv.Hi > last.Hi {
				last.Hi = iv.Hi
			}
		} else {
			out = append(out, iv)
		}
	}
	return out
}

func (s ISet) Union(t ISet) ISet {
	return normalize(append(append([]Iv{}, s...), t...))
}

func (s ISet) Intersect(t ISet) ISet {
	var out []Iv
	for _, a := range s {
		for _, b := range t {
			lo, hi := a.Lo, a.Hi
			if b.Lo > lo {
				lo = b.Lo
			}
			if b.Hi < hi {
				hi = b.Hi
			}
			if lo <= hi {
				out = append(out, Iv{lo, hi})
			}
		}
	}
	return normalize(out)
}

// Complement within the universe [negInf,posInf].
func (s ISet) Complement() ISet {
	var out []Iv
	cur := int64(negInf)
	open := true
	for _, iv := range s {
		if iv.Lo > cur || (iv.Lo == cur && false) {
			if iv.Lo != negInf {
				out = append(out, Iv{cur, iv.Lo - 1})
			}
		}
		if iv.Hi == posInf {
			open = false
			break
		}
		cur = iv.Hi + 1
	}
	if open {
		out = append(out, Iv{cur, posInf})
	}
	return normalize(out)
}

func (s ISet) Minus(t ISet) ISet { return s.Intersect(t.Complement()) }

func (s ISet) Equal(t ISet) bool {
	if len(s) != len(t) {
		return false
	}
	for i := range s {
		if s[i] != t[i] {
			return false
		}
	}
	return true
}

func (s ISet) SubsetOf(t ISet) bool { return s.Minus(t).Empty() }

func satAdd(a, b int64) int64 {
	if a == negInf || b == negInf {
		if a == posInf || b == posInf {
			return 0
		}
		return negInf
	}
	if a == posInf || b == posInf {
		return posInf
	}
	c := a + b
	if (a > 0 && b > 0 && c < 0) || (c == posInf) {
		return posInf
	}
	if (a < 0 && b < 0 && c >= 0) || (c == negInf) {
		return negInf
	}
	return c
}

func satMul(a, b int64) int64 {
	if a == 0 || b == 0 {
		return 0
	}
	neg := (a < 0) != (b < 0)
	if a == negInf || a == posInf || b == negInf || b == posInf {
		if neg {
			return negInf
		}
		return posInf
	}
	c := a * b
	if c/b != a {
		if neg {
			return negInf
		}
		return posInf
	}
	return c
}

// Add returns {a+b | a∈s, b∈t} (over-approximated by interval sums).
func (s ISet) Add(t ISet) ISet {
	if s.Empty() || t.Empty() {
		return ISet{}
	}
	if len(s)*len(t) > 64 {
		return ISet{{satAdd(s.Lo(), t.Lo()), satAdd(s.Hi(), t.Hi())}}
	}
	var out []Iv
	for _, a := range s {
		for _, b := range t {
			out = append(out, Iv{satAdd(a.Lo, b.Lo), satAdd(a.Hi, b.Hi)})
		}
	}
	return normalize(out)
}

// MulConst returns {c*a | a∈s}.
func (s ISet) MulConst(c int64) ISet {
	if c == 0 {
		if s.Empty() {
			return s
		}
		return isConst(0)
	}
	var out []Iv
	for _, a := range s {
		lo, hi := satMul(a.Lo, c), satMul(a.Hi, c)
		if lo > hi {
			lo, hi = hi, lo
		}
		out = append(out, Iv{lo, hi})
	}
	// note: for |c|>1 this over-approximates (holes are filled)
	return normalize(out)
}

func (s ISet) Neg() ISet { return s.MulConst(-1) }

// Hull returns the single interval spanning s.
func (s ISet) Hull() ISet {
	if s.Empty() {
		return s
	}
	return ISet{{s.Lo(), s.Hi()}}
}

func floorDiv(a, b int64) int64 {
	q := a / b
	if (a%b != 0) && ((a < 0) != (b < 0)) {
		q--
	}
	return q
}

// DivConst: Go truncated division by a positive constant, for non-negative s
// exact on interval ends; otherwise hull-based over-approximation.
func (s ISet) DivConst(c int64) ISet {
	if c <= 0 || s.Empty() {
		return isTop()
	}
	var out []Iv
	for _, a := range s {
		lo, hi := a.Lo, a.Hi
		var l, h int64
		if lo == negInf {
			l = negInf
		} else {
			l = lo / c
		}
		if hi == posInf {
			h = posInf
		} else {
			h = hi / c
		}
		out = append(out, Iv{l, h})
	}
	return normalize(out)
}

// ModConst: x % c for a positive constant c.
func (s ISet) ModConst(c int64) ISet {
	if c <= 0 || s.Empty() {
		return isTop()
	}
	if s.Lo() >= 0 {
		if s.Hi() < c {
			return s
		}
		// small exact enumeration for finite small sets
		if n := s.count(); n >= 0 && n <= 4096 {
			var out []Iv
			for _, iv := range s {
				for v := iv.Lo; v <= iv.Hi; v++ {
					out = append(out, Iv{v % c, v % c})
				}
			}
			return normalize(out)
		}
		return isRange(0, c-1)
	}
	return isRange(-(c - 1), c-1)
}

// count returns the number of elements or -1 if unbounded/huge.
func (s ISet) count() int64 {
	var n int64
	for _, iv := range s {
		if iv.Lo == negInf || iv.Hi == posInf {
			return -1
		}
		d := iv.Hi - iv.Lo + 1
		if d < 0 || d > 1<<32 {
			return -1
		}
		n += d
	}
	return n
}

// mapSmall applies f to every value of a finite set of at most 512
// non-negative values and returns the exact image.
func (s ISet) mapSmall(f func(int64) int64) (ISet, bool) {
	if s.Empty() || s.Lo() < 0 || s.Hi() == posInf || s.count() > 512 {
		return nil, false
	}
	var out []Iv
	for _, iv := range s {
		for v := iv.Lo; v <= iv.Hi; v++ {
			r := f(v)
			if n := len(out); n > 0 && (out[n-1].Hi == r || out[n-1].Hi+1 == r) && out[n-1].Lo <= r {
				out[n-1].Hi = r
			} else {
				out = append(out, Iv{r, r})
			}
		}
	}
	return normalize(out), true
}
