package main

// Blocking-operation inventory (C05.2, C10.2): every blocking channel
// operation is interruptible by its goroutine's stop channel, or is one of
// the confirmed bounded waits whose premise is re-checked.

import (
	"fmt"
	"strings"

	"golang.org/x/tools/go/ssa"
)

var stopChannels = map[string]bool{"closeCh": true, "closeReaderCh": true, "established:stop": true, "Serve:stop": true}

type boundedWait struct {
	fn, ch, kind string // kind: "recv" | "send"
	reason       string
	premise      func(c *Check, fn *ssa.Function, in ssa.Instruction) bool
}

// dominatedByCall: the operation is preceded on every path by a call whose
// description has the given prefix (in the same function).
func dominatedByCall(descs ...string) func(c *Check, fn *ssa.Function, in ssa.Instruction) bool {
	return func(c *Check, fn *ssa.Function, in ssa.Instruction) bool {
		for _, d := range descs {
			found := false
			for _, cl := range c.P.callsIn(fn, descHasPrefix(d)) {
				if instrDominates(cl.(ssa.Instruction), in) {
					found = true
				}
			}
			if !found {
				return false
			}
		}
		return true
	}
}

// underFailedStop: the receive from a timer channel is on the false edge of
// Timer.Stop() (a fired, undrained timer: the value is already buffered).
func underFailedStop(c *Check, fn *ssa.Function, in ssa.Instruction) bool {
	b := in.Block()
	if len(b.Preds) != 1 {
		return false
	}
	pr := b.Preds[0]
	iff, ok := pr.Instrs[len(pr.Instrs)-1].(*ssa.If)
	if !ok || pr.Succs[1] != b {
		return false
	}
	cl, ok := iff.Cond.(*ssa.Call)
	return ok && c.P.calleeDesc(cl) == "time.Timer.Stop"
}

var boundedWaits = []boundedWait{
	{"Server.Close", "doneServingCh", "recv", "closed by Serve's deferred shutdown; Close waits only when serving", nil},
	{"fsm.cleanup", "dialResultCh", "recv", "after cancelDialFn(): the dialer returns and sends/closes", dominatedByCall("dyn:context.CancelFunc")},
	{"fsm.connect", "dialResultCh", "recv", "after cancelDialFn(): the dialer returns and sends/closes", dominatedByCall("dyn:context.CancelFunc")},
	{"fsm.cleanupConnAndReader", "readerDoneCh", "recv", "after conn.Close() and close(closeReaderCh): the reader's read fails and every select of it watches closeReaderCh", dominatedByCall("sync.Once.Do")},
	{"fsm.drainAndResetHoldTimer", "C", "recv", "only when Stop() reported the timer already fired (value buffered)", underFailedStop},
	{"fsm.openSent", "C", "recv", "only when Stop() reported the timer already fired (value buffered)", underFailedStop},
	{"fsm.stop", "doneCh", "recv", "after close(closeCh) (Once): every wait of the FSM goroutine watches closeCh", dominatedByCall("sync.Once.Do")},
	{"peer.stop", "doneCh", "recv", "after close(closeCh) (Once): every wait of the peer manager watches closeCh", dominatedByCall("sync.Once.Do")},
	{"newPeer", "C", "recv", "timer created with duration 0 just before", dominatedByCall("time.NewTimer")},
	{"fsm.established", "established:done", "recv", "after the session loop returned: its defer closed closeKAManagerCh, which the manager's only select watches", nil},
	{"fsm.dialPeer", "dialResultCh", "send", "the FSM receives exactly one result per dial (connect) or after cancel (cleanup)", nil},
	{"fsm.established", "resetKATimerCh", "send", "the manager goroutine is alive until this function's defer closes closeKAManagerCh", nil},
}

func (c *Check) blockingInventory(rule string) {
	p := c.P
	nsel, nbare := 0, 0
	for _, fn := range p.FuncSeq {
		name := p.Name(fn)
		allInstrs(fn, func(in ssa.Instruction) {
			switch x := in.(type) {
			case *ssa.Select:
				if !x.Blocking {
					return
				}
				nsel++
				has := false
				var chans []string
				for _, s := range x.States {
					n := p.chanNameThroughParams(fn, s.Chan)
					chans = append(chans, n)
					if s.Send == nil && stopChannels[n] {
						has = true
					}
				}
				c.require(has, rule, name, "blocking select ["+strings.Join(chans, ",")+"]", p.InstrPos(in),
					"a blocking select includes the goroutine's stop channel, so shutdown can always interrupt it")
			case *ssa.UnOp:
				if x.Op.String() != "<-" {
					return
				}
				nbare++
				c.checkBare(rule, fn, in, chanNameOf(x.X), "recv")
			case *ssa.Send:
				nbare++
				c.checkBare(rule, fn, in, chanNameOf(x.Chan), "send")
			}
		})
	}
	c.floor(rule, nsel, 12, "blocking selects")
	c.floor(rule, nbare, 8, "bare blocking channel operations")
}

// chanNameOf names a channel also when it is the C field of a timer.
func chanNameOf(v ssa.Value) string {
	if n := chanFieldName(v); n != "" {
		return n
	}
	if u, ok := v.(*ssa.UnOp); ok {
		if fa, ok := u.X.(*ssa.FieldAddr); ok {
			return structFieldName(fa)
		}
	}
	return "?"
}

func (c *Check) checkBare(rule string, fn *ssa.Function, in ssa.Instruction, ch, kind string) {
	p := c.P
	name := p.Name(fn)
	// the entry is keyed by the known top-level function the operation
	// belongs to (closures, helpers and goroutine bodies included)
	owner := p.ownerName(in.Parent())
	for _, w := range boundedWaits {
		if w.fn == owner && w.ch == ch && w.kind == kind {
			ok := w.premise == nil || w.premise(c, in.Parent(), in)
			c.require(ok, rule, name, fmt.Sprintf("bare %s on %s", kind, ch), p.InstrPos(in), "bounded wait: "+w.reason)
			return
		}
	}
	c.fail(rule, name, fmt.Sprintf("bare %s on %s", kind, ch), p.InstrPos(in),
		"a blocking channel operation outside any select is not in the confirmed list of bounded waits: it can wedge this goroutine (and whoever joins it) forever")
}

// dialSingleResult: the dial goroutine sends at least one result on every
// path (the FSM dereferences what it receives), and the result channel is
// unbuffered and closed on exit.
func (c *Check) dialSingleResult(rule string) {
	p := c.P
	dp := p.Fn("fsm.dialPeer")
	if dp == nil {
		return
	}
	var g *ssa.Function
	allInstrs(dp, func(in ssa.Instruction) {
		if x, ok := in.(*ssa.Go); ok {
			g = p.staticLocalCallee(x)
		}
	})
	if g == nil {
		c.fail(rule, "fsm.dialPeer", "dial goroutine", p.Pos(dp.Pos()), "not found")
		return
	}
	// every path from entry to return passes a send
	hit := pathSearch(g, nil, func(x ssa.Instruction) bool { _, ok := x.(*ssa.Return); return ok }, func(x ssa.Instruction) bool { _, ok := x.(*ssa.Send); return ok })
	c.require(hit == nil, rule, p.Name(g), "at least one result", p.Pos(g.Pos()), "every path of the dial goroutine sends a result before returning (the FSM dereferences the value it receives; a closed channel would yield nil)")
	// in connect(): a failed dial returns Idle (never re-enters Connect without a new dial)
	if cn := p.Fn("fsm.connect"); cn != nil {
		a := NewAnalysis(p, cn)
		a.NoInline = map[string]bool{"fsm.sendOpenAndSetHoldTimer": true}
		a.AtomHook = func(e *Expr) (ISet, bool) {
			if e.Op == "nn" && isFieldRead(e.Args[0], "err") {
				return isConst(1), true
			}
			return nil, false
		}
		a.Run()
		idle, disabled := p.MustConst("idleState"), p.MustConst("disabledState")
		ok := len(a.Returns) > 0
		for _, r := range a.Returns {
			v, isC := r.State.rangeOf(r.Results[0]).IsConst()
			if !isC || (v != idle && v != disabled) {
				ok = false
			}
		}
		c.require(ok, rule, "fsm.connect", "failed dial returns Idle", p.Pos(cn.Pos()), "when every dial result carries an error, connect() returns only Idle (or Disabled on close), or redials after the retry timer with a fresh dial")
	}
}

// chanNameThroughParams names a channel; a channel parameter of a helper the
// rules do not know is named after the argument its callers pass.
func (p *Prog) chanNameThroughParams(fn *ssa.Function, v ssa.Value) string {
	// channel identity is by creation site (chanflow.go), however the value
	// reached this function
	return chanFieldName(v)
}
