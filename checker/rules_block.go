package main

// Blocking-operation inventory (C05.2, C10.2): every blocking channel
// operation is interruptible by its goroutine's stop channel, or is one of
// the confirmed bounded waits whose premise is re-checked.

import (
	"fmt"
	"go/types"
	"os"
	"strings"

	"golang.org/x/tools/go/ssa"
)

var stopChannels = map[string]bool{"closeCh": true, "closeReaderCh": true, "established:stop": true, "Serve:stop": true}

type boundedWait struct {
	fn, ch, kind string // kind: "recv" | "send"
	reason       string
	premise      func(c *Check, fn *ssa.Function, in ssa.Instruction) bool
}

// dominatedByCall: the operation is preceded on every path by a call whose
// description has the given prefix (in the same function).
func dominatedByCall(descs ...string) func(c *Check, fn *ssa.Function, in ssa.Instruction) bool {
	return func(c *Check, fn *ssa.Function, in ssa.Instruction) bool {
		for _, d := range descs {
			found := false
			for _, cl := range c.P.callsIn(fn, descHasPrefix(d)) {
				if instrDominates(cl.(ssa.Instruction), in) {
					found = true
				}
			}
			if !found {
				return false
			}
		}
		return true
	}
}

// underFailedStop: the receive from a timer channel is on the false edge of
// Timer.Stop() (a fired, undrained timer: the value is already buffered).
func underFailedStop(c *Check, fn *ssa.Function, in ssa.Instruction) bool {
	b := in.Block()
	if len(b.Preds) != 1 {
		return false
	}
	pr := b.Preds[0]
	iff, ok := pr.Instrs[len(pr.Instrs)-1].(*ssa.If)
	if !ok || pr.Succs[1] != b {
		return false
	}
	cl, ok := iff.Cond.(*ssa.Call)
	return ok && c.P.calleeDesc(cl) == "time.Timer.Stop"
}

var boundedWaits = []boundedWait{
	{"Server.Close", "doneServingCh", "recv", "closed by Serve's deferred shutdown; Close waits only when serving", nil},
	{"fsm.cleanup", "dialResultCh", "recv", "after cancelDialFn(): the dialer returns and sends/closes", dominatedByCall("dyn:context.CancelFunc")},
	{"fsm.connect", "dialResultCh", "recv", "after cancelDialFn(): the dialer returns and sends/closes", dominatedByCall("dyn:context.CancelFunc")},
	{"fsm.cleanupConnAndReader", "readerDoneCh", "recv", "after conn.Close() and close(closeReaderCh): the reader's read fails and every select of it watches closeReaderCh", dominatedByCall("sync.Once.Do")},
	{"fsm.drainAndResetHoldTimer", "C", "recv", "only when Stop() reported the timer already fired (value buffered)", underFailedStop},
	{"fsm.openSent", "C", "recv", "only when Stop() reported the timer already fired (value buffered)", underFailedStop},
	{"fsm.stop", "doneCh", "recv", "after close(closeCh) (Once): every wait of the FSM goroutine watches closeCh", dominatedByCall("sync.Once.Do")},
	{"peer.stop", "doneCh", "recv", "after close(closeCh) (Once): every wait of the peer manager watches closeCh", dominatedByCall("sync.Once.Do")},
	{"newPeer", "C", "recv", "timer created with duration 0 just before", dominatedByCall("time.NewTimer")},
	{"fsm.established", "established:done", "recv", "after the session loop returned: its defer closed closeKAManagerCh, which the manager's only select watches", nil},
	{"fsm.dialPeer", "dialResultCh", "send", "the FSM receives exactly one result per dial (connect) or after cancel (cleanup)", nil},
	{"fsm.established", "resetKATimerCh", "send", "the manager goroutine is alive until this function's defer closes closeKAManagerCh", nil},
}

func (c *Check) blockingInventory(rule string) {
	p := c.P
	nsel, nbare := 0, 0
	for _, fn := range p.FuncSeq {
		name := p.Name(fn)
		allInstrs(fn, func(in ssa.Instruction) {
			switch x := in.(type) {
			case *ssa.Select:
				if !x.Blocking {
					return
				}
				nsel++
				has := false
				var chans []string
				for _, s := range x.States {
					n := p.chanNameThroughParams(fn, s.Chan)
					chans = append(chans, n)
					if s.Send == nil && stopChannels[n] {
						has = true
					}
				}
				c.require(has, rule, name, "blocking select ["+strings.Join(chans, ",")+"]", p.InstrPos(in),
					"a blocking select includes the goroutine's stop channel, so shutdown can always interrupt it")
			case *ssa.UnOp:
				if x.Op.String() != "<-" {
					return
				}
				nbare++
				c.checkBare(rule, fn, in, chanNameOf(x.X), "recv")
			case *ssa.Send:
				nbare++
				c.checkBare(rule, fn, in, chanNameOf(x.Chan), "send")
			}
		})
	}
	c.floor(rule, nsel, 12, "blocking selects")
	c.floor(rule, nbare, 8, "bare blocking channel operations")
}

// chanNameOf names a channel also when it is the C field of a timer.
func chanNameOf(v ssa.Value) string {
	if n := chanFieldName(v); n != "" {
		return n
	}
	if u, ok := v.(*ssa.UnOp); ok {
		if fa, ok := u.X.(*ssa.FieldAddr); ok {
			return structFieldName(fa)
		}
	}
	return "?"
}

func (c *Check) checkBare(rule string, fn *ssa.Function, in ssa.Instruction, ch, kind string) {
	p := c.P
	name := p.Name(fn)
	// the entry is keyed by the known top-level function the operation
	// belongs to (closures, helpers and goroutine bodies included)
	owner := p.ownerName(in.Parent())
	if in.Parent() != fn && p.absorbed(topLevelOf(in.Parent())) {
		// an operation inside a helper belongs to the function it is reached
		// from in this enumeration (a helper shared by two callers is judged
		// once per caller)
		owner = p.ownerName(fn)
	}
	for _, w := range boundedWaits {
		if w.fn == owner && w.ch == ch && w.kind == kind {
			ok := w.premise == nil || w.premise(c, in.Parent(), in)
			c.require(ok, rule, name, fmt.Sprintf("bare %s on %s", kind, ch), p.InstrPos(in), "bounded wait: "+w.reason)
			return
		}
	}
	c.fail(rule, name, fmt.Sprintf("bare %s on %s", kind, ch), p.InstrPos(in),
		"a blocking channel operation outside any select is not in the confirmed list of bounded waits: it can wedge this goroutine (and whoever joins it) forever")
}

// dialSingleResult: the dial goroutine sends at least one result on every
// path (the FSM dereferences what it receives), and the result channel is
// unbuffered and closed on exit.
func (c *Check) dialSingleResult(rule string) {
	p := c.P
	dp := p.Fn("fsm.dialPeer")
	if dp == nil {
		return
	}
	var g *ssa.Function
	allInstrs(dp, func(in ssa.Instruction) {
		if x, ok := in.(*ssa.Go); ok {
			g = p.staticLocalCallee(x)
		}
	})
	if g == nil {
		c.fail(rule, "fsm.dialPeer", "dial goroutine", p.Pos(dp.Pos()), "not found")
		return
	}
	// every path from entry to return passes a send
	hit := pathSearch(g, nil, func(x ssa.Instruction) bool { _, ok := x.(*ssa.Return); return ok }, func(x ssa.Instruction) bool { _, ok := x.(*ssa.Send); return ok })
	c.require(hit == nil, rule, p.Name(g), "at least one result", p.Pos(g.Pos()), "every path of the dial goroutine sends a result before returning (the FSM dereferences the value it receives; a closed channel would yield nil)")
	// in connect(): a failed dial returns Idle (never re-enters Connect without a new dial)
	if cn := p.Fn("fsm.connect"); cn != nil {
		a := NewAnalysis(p, cn)
		a.NoInline = map[string]bool{"fsm.sendOpenAndSetHoldTimer": true}
		a.AtomHook = func(e *Expr) (ISet, bool) {
			if e.Op == "nn" && isFieldRead(e.Args[0], "err") {
				return isConst(1), true
			}
			return nil, false
		}
		a.Run()
		idle, disabled := p.MustConst("idleState"), p.MustConst("disabledState")
		ok := len(a.Returns) > 0
		for _, r := range a.Returns {
			v, isC := r.State.rangeOf(r.Results[0]).IsConst()
			if !isC || (v != idle && v != disabled) {
				ok = false
			}
		}
		c.require(ok, rule, "fsm.connect", "failed dial returns Idle", p.Pos(cn.Pos()), "when every dial result carries an error, connect() returns only Idle (or Disabled on close), or redials after the retry timer with a fresh dial")
	}
}

// chanNameThroughParams names a channel; a channel parameter of a helper the
// rules do not know is named after the argument its callers pass.
func (p *Prog) chanNameThroughParams(fn *ssa.Function, v ssa.Value) string {
	// channel identity is by creation site (chanflow.go), however the value
	// reached this function
	return chanFieldName(v)
}

// closeOnce (typestate open -> closed, never closed twice: a second close
// panics). Every close(ch) site is justified by one of
//
//	(a) it runs inside the function handed to sync.Once.Do;
//	(b) a receive test on the same channel dominates it in the same function
//	    and its "already closed" outcome cannot reach the close (re-entry
//	    guard of a one-shot API such as Serve / Close);
//	(c) every channel it may close was created by the same known top-level
//	    function (the closer is that function, its closures, or a goroutine
//	    it starts): one close per creation;
//	(d) it is in the body of a per-object goroutine (`go x.run()` started by
//	    x.start()), and start() is only called on an object created in the
//	    calling function or inside a region covered by a guard of kind (b).
func (c *Check) closeOnce(rule string) {
	p := c.P
	cf := p.chanFlow()
	n := 0
	onceFns := map[*ssa.Function]bool{}
	for _, fn := range p.AllFuncs {
		ownInstrs(fn, func(in ssa.Instruction) {
			ci, ok := in.(ssa.CallInstruction)
			if !ok || p.calleeDesc(ci) != "sync.Once.Do" {
				return
			}
			args := ci.Common().Args
			if len(args) < 2 {
				return
			}
			switch x := args[1].(type) {
			case *ssa.MakeClosure:
				onceFns[x.Fn.(*ssa.Function)] = true
			case *ssa.Function:
				onceFns[x] = true
			}
			// bound method value p.signalClose
			if mc, ok := args[1].(*ssa.MakeClosure); ok {
				if f, ok := mc.Fn.(*ssa.Function); ok && f.Synthetic != "" {
					for _, b := range f.Blocks {
						for _, i2 := range b.Instrs {
							if c2, ok := i2.(ssa.CallInstruction); ok {
								if t := p.staticLocalCallee(c2); t != nil {
									onceFns[t] = true
								}
							}
						}
					}
				}
			}
		})
	}
	// guard (b): in every abstract state reaching `to`, some select that tests
	// the same channel has been executed and did not take that channel's case
	// (decided on the select's index value, so the test may live in a helper
	// that reports it as a boolean)
	anCache := map[*ssa.Function]*Analysis{}
	guarded := func(fn *ssa.Function, to ssa.Instruction, v ssa.Value) bool {
		root := fn
		a := anCache[root]
		if a == nil {
			a = NewAnalysis(p, root)
			a.Run()
			anCache[root] = a
		}
		type selCase struct {
			sel *ssa.Select
			k   int
		}
		var cands []selCase
		allInstrs(root, func(in ssa.Instruction) {
			if sel, isSel := in.(*ssa.Select); isSel {
				for k, st := range sel.States {
					if st.Send == nil && sameCreation(cf, st.Chan, v) {
						cands = append(cands, selCase{sel, k})
					}
				}
			}
		})
		// the test may also be a call of a poll predicate (`func closed(ch) bool
		// { select { case <-ch: return true; default: return false } }`) on the
		// same channel: its result at that call site is what the path knows
		type pollCall struct {
			call *ssa.Call
		}
		var polls []pollCall
		ownInstrs(root, func(in ssa.Instruction) {
			cl, isCall := in.(*ssa.Call)
			if !isCall {
				return
			}
			h := cl.Call.StaticCallee()
			k := pollPredicateParam(p, h)
			if k < 0 || k >= len(cl.Call.Args) {
				return
			}
			if sameCreation(cf, cl.Call.Args[k], v) {
				polls = append(polls, pollCall{cl})
			}
		})
		sts := a.At[to]
		if (len(cands) == 0 && len(polls) == 0) || len(sts) == 0 {
			return false
		}
		for _, st := range sts {
			okSt := false
			for _, pc := range polls {
				if res, bound := st.env[pc.call]; bound {
					if cv, isC := st.rangeOf(res).IsConst(); isC && cv == 0 {
						okSt = true
					}
				}
			}
			for _, sc := range cands {
				l, bound := st.env[sc.sel]
				if !bound {
					continue // select not executed on this path
				}
				idx := mk("ex", types.Typ[types.Int], "", 0, l, mkConst(0, intT))
				if r := st.rangeOf(idx); !r.Empty() && !r.Contains(int64(sc.k)) {
					okSt = true
				}
			}
			if !okSt {
				if os.Getenv("CBGP_DEBUG") != "" {
					fmt.Printf("DEBUG guarded(%s @%s): state tags=%v not guarded; cands=%d\n", p.Name(fn), p.InstrPos(to), st.tags, len(cands))
					for _, sc := range cands {
						l, bound := st.env[sc.sel]
						fmt.Printf("    sel %s case %d bound=%v", p.InstrPos(sc.sel), sc.k, bound)
						if bound {
							idx := mk("ex", types.Typ[types.Int], "", 0, l, mkConst(0, intT))
							fmt.Printf(" rng=%s", st.rangeOf(idx))
						}
						fmt.Println()
					}
				}
				return false
			}
		}
		return true
	}
	for _, fn := range p.AllFuncs {
		ownInstrs(fn, func(in ssa.Instruction) {
			ci, ok := in.(ssa.CallInstruction)
			if !ok || p.calleeDesc(ci) != "builtin:close" || len(ci.Common().Args) != 1 {
				return
			}
			n++
			v := ci.Common().Args[0]
			key := chanFieldName(v)
			name := p.Name(fn)
			// (a)
			for f := fn; f != nil; f = f.Parent() {
				if onceFns[f] {
					c.ok(rule, name, "close("+key+")", p.InstrPos(in), "runs under sync.Once")
					return
				}
			}
			// the instruction that registers the close in the enclosing
			// function: the close itself, or the defer of the closure it is in
			reg, regFn := in, fn
			for _, g := range p.AllFuncs {
				ownInstrs(g, func(x ssa.Instruction) {
					if d, isD := x.(*ssa.Defer); isD && p.staticLocalCallee(d) == fn {
						reg, regFn = x, g
					}
				})
			}
			// (b)
			if guarded(regFn, reg, v) {
				c.ok(rule, name, "close("+key+")", p.InstrPos(in), "re-entry guard: an earlier test of the same channel returns when it is already closed")
				return
			}
			// (c)
			sites := cf.sites(stripCT(v))
			sameOwner := len(sites) > 0
			owner := p.ownerTop(fn)
			topFn := fn
			for topFn.Parent() != nil {
				topFn = topFn.Parent()
			}
			for _, m := range sites {
				creator := p.ownerTop(m.Parent())
				if creator == owner {
					continue
				}
				// a goroutine the creator starts (one per creation)
				spawned := false
				for _, s := range p.spawns() {
					if s.Target == topFn && p.ownerTop(s.In) == creator {
						spawned = true
					}
				}
				if !spawned {
					sameOwner = false
				}
			}
			if sameOwner {
				c.ok(rule, name, "close("+key+")", p.InstrPos(in), "the channel is created by the same function ("+p.Name(owner)+"): one close per creation")
				return
			}
			// (d)
			top := fn
			for i := 0; i < 3; i++ {
				for top.Parent() != nil {
					top = top.Parent()
				}
				// a deferred method belongs to the function that defers it
				moved := false
				for _, g := range p.AllFuncs {
					ownInstrs(g, func(x ssa.Instruction) {
						if d, isD := x.(*ssa.Defer); isD && p.staticLocalCallee(d) == top && g != top {
							top, moved = g, true
						}
					})
				}
				if !moved {
					break
				}
			}
			for top.Parent() != nil {
				top = top.Parent()
			}
			okD, why := false, "not under sync.Once, no re-entry guard, not created by its closer, not a per-object goroutine"
			for _, s := range p.spawns() {
				if s.Target != top || !strings.HasSuffix(p.Name(s.In), ".start") {
					continue
				}
				// every call of x.start(): x created in the caller, or the call is
				// dominated by a guard of kind (b) on some channel of the caller
				okD = true
				for _, g := range p.AllFuncs {
					ownInstrs(g, func(x ssa.Instruction) {
						c2, isC := x.(ssa.CallInstruction)
						if !isC || p.staticLocalCallee(c2) != s.In {
							return
						}
						recv := c2.Common().Args[0]
						fresh := false
						if cl, isCall := recv.(*ssa.Call); isCall {
							if t := p.staticLocalCallee(cl); t != nil && strings.HasPrefix(p.Name(t), "new") {
								fresh = true
							}
						}
						if ld, isL := recv.(*ssa.UnOp); isL {
							// p.fsms[i] just stored from newFSM in the same block
							for _, y := range x.Block().Instrs {
								if st, isS := y.(*ssa.Store); isS && sameAddr(st.Addr, ld.X) {
									if cl, isCall := st.Val.(*ssa.Call); isCall {
										if t := p.staticLocalCallee(cl); t != nil && strings.HasPrefix(p.Name(t), "new") {
											fresh = true
										}
									}
								}
							}
						}
						if fresh {
							return
						}
						// guarded region: every field channel of kind "done"
						// closed by a defer of g is tested at g's entry
						covered := false
						// the function containing the call, or a caller that
						// reaches it through helpers
						ancestors := []*ssa.Function{g}
						for i := 0; i < len(ancestors) && i < 6; i++ {
							for _, site := range p.helperSites(ancestors[i]) {
								ancestors = append(ancestors, site.Parent())
							}
						}
						for _, G := range ancestors {
							ownInstrs(G, func(y ssa.Instruction) {
								d, isD := y.(*ssa.Defer)
								if !isD {
									return
								}
								if t := p.staticLocalCallee(d); t != nil {
									for _, cl := range p.callsDeep(t, descIs("builtin:close")) {
										if guarded(G, y, cl.Common().Args[0]) && guarded(G, x, cl.Common().Args[0]) {
											covered = true
										}
									}
								}
							})
						}
						if !covered {
							okD = false
							why = "start() of " + p.Name(s.In) + " at " + p.InstrPos(x) + " may run twice for one object"
						}
					})
				}
			}
			c.require(okD, rule, name, "close("+key+")", p.InstrPos(in), "a channel is closed at most once: "+why)
		})
	}
	c.floor(rule, n, 10, "close() sites")
}

func stripCT(v ssa.Value) ssa.Value {
	for {
		ct, ok := v.(*ssa.ChangeType)
		if !ok {
			return v
		}
		v = ct.X
	}
}

// sameCreation: a and b may denote the same channels and nothing else.
func sameCreation(cf *chanFlow, a, b ssa.Value) bool {
	sa, sb := cf.sites(stripCT(a)), cf.sites(stripCT(b))
	if len(sa) == 0 || len(sa) != len(sb) {
		return false
	}
	for i := range sa {
		if sa[i] != sb[i] {
			return false
		}
	}
	return true
}

func sameAddr(a, b ssa.Value) bool {
	if a == b {
		return true
	}
	ia, ok1 := a.(*ssa.IndexAddr)
	ib, ok2 := b.(*ssa.IndexAddr)
	if ok1 && ok2 {
		return ia.Index == ib.Index && sameAddr(ia.X, ib.X)
	}
	fa, ok3 := a.(*ssa.FieldAddr)
	fb, ok4 := b.(*ssa.FieldAddr)
	if ok3 && ok4 {
		return fa.Field == fb.Field && fa.X == fb.X
	}
	return false
}

func topLevelOf(fn *ssa.Function) *ssa.Function {
	for fn.Parent() != nil {
		fn = fn.Parent()
	}
	return fn
}

// pollPredicateParam: h is a function that polls one of its channel
// parameters without blocking and reports whether a receive succeeded
// (true exactly when the receive case was taken); the parameter's index, or -1.
func pollPredicateParam(p *Prog, h *ssa.Function) int {
	if h == nil || !p.IsLocal(h) || len(h.Blocks) == 0 || len(h.Blocks) > 8 {
		return -1
	}
	if h.Signature.Results().Len() != 1 || !isBoolType(h.Signature.Results().At(0).Type()) {
		return -1
	}
	var sel *ssa.Select
	n := 0
	ownInstrs(h, func(in ssa.Instruction) {
		switch x := in.(type) {
		case *ssa.Select:
			sel = x
			n++
		case *ssa.Call, *ssa.Go, *ssa.Defer, *ssa.Send, *ssa.Store, *ssa.MapUpdate:
			n += 10
		}
	})
	if n != 1 || sel == nil || sel.Blocking || len(sel.States) != 1 || sel.States[0].Send != nil {
		return -1
	}
	pr, ok := sel.States[0].Chan.(*ssa.Parameter)
	if !ok {
		return -1
	}
	k := -1
	for i, q := range h.Params {
		if q == pr {
			k = i
		}
	}
	a := NewAnalysis(p, h)
	a.Run()
	if len(a.Returns) == 0 || len(a.Undecided) > 0 {
		return -1
	}
	for _, r := range a.Returns {
		l, bound := r.State.env[sel]
		if !bound {
			return -1
		}
		idx := r.State.rangeOf(mk("ex", types.Typ[types.Int], "", 0, l, mkConst(0, intT)))
		res, isC := r.State.rangeOf(r.Results[0]).IsConst()
		iv, isI := idx.IsConst()
		if !isC || !isI || (iv == 0) != (res == 1) {
			return -1
		}
	}
	return k
}
