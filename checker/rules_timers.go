package main

// Conditionally initialised pointer fields of the FSM (timers, dial state):
// every dereference is covered by an assignment on all paths of the state
// machine leading to it (C05.1 nil-dereference clause, C06.3a).

import (
	"fmt"
	"go/types"
	"sort"
	"strings"

	"golang.org/x/tools/go/ssa"
)

var fsmPtrFields = []string{"connectRetryTimer", "holdTimer", "keepAliveTimer", "idleHoldTimer", "dialResultCh", "cancelDialFn"}

// derefs lists the pointer fields of fsm that fn (with closures, and local
// callees that are not state functions) dereferences: method call on the
// loaded *time.Timer, load of its .C, receive from / call of the loaded value.
func (p *Prog) fsmDerefs(fn *ssa.Function, seen map[*ssa.Function]bool, skip map[string]bool) map[string]ssa.Instruction {
	out := map[string]ssa.Instruction{}
	if fn == nil || seen[fn] {
		return out
	}
	seen[fn] = true
	track := map[string]bool{}
	for _, f := range fsmPtrFields {
		track[f] = true
	}
	for _, g := range withAnon(fn) {
		allInstrs(g, func(in ssa.Instruction) {
			ld, ok := in.(*ssa.UnOp)
			if !ok || ld.Op.String() != "*" {
				return
			}
			fa, ok := ld.X.(*ssa.FieldAddr)
			if !ok || structNameOfPtr(fa.X.Type()) != "fsm" || !track[structFieldName(fa)] {
				return
			}
			name := structFieldName(fa)
			assignedBefore := false
			allInstrs(g, func(y ssa.Instruction) {
				if st, ok := y.(*ssa.Store); ok {
					if fa2, ok := st.Addr.(*ssa.FieldAddr); ok && structFieldName(fa2) == name && structNameOfPtr(fa2.X.Type()) == "fsm" && instrDominates(st, ld) {
						if cst, isC := st.Val.(*ssa.Const); !isC || cst.Value != nil {
							assignedBefore = true
						}
					}
				}
			})
			if assignedBefore {
				return
			}
			for _, r := range *ld.Referrers() {
				switch x := r.(type) {
				case *ssa.FieldAddr: // t.C
					out[name] = x
				case ssa.CallInstruction:
					cc := x.Common()
					if cc.Value == ssa.Value(ld) || (len(cc.Args) > 0 && cc.Args[0] == ssa.Value(ld) && !cc.IsInvoke() && cc.Signature().Recv() != nil) {
						// guarded by an explicit nil test?
						if !nilGuarded(ld, x.(ssa.Instruction)) {
							out[name] = x.(ssa.Instruction)
						}
					}
				case *ssa.UnOp:
					if x.Op.String() == "<-" {
						out[name] = x
					}
				case *ssa.Select:
					out[name] = x
				}
			}
		})
		for _, cl := range p.callsIn(g, func(string) bool { return true }) {
			if t := p.staticLocalCallee(cl); t != nil && t.Parent() == nil && !skip[p.Name(t)] {
				for k, v := range p.fsmDerefs(t, seen, skip) {
					if _, has := out[k]; !has {
						out[k] = v
					}
				}
			}
		}
	}
	return out
}

// nilGuarded: the use is dominated by the non-nil edge of a test of the same
// field load value (if t != nil { t.Stop() }) — including through a range
// over a slice literal of the fields, which cleanup() uses.
func nilGuarded(ld *ssa.UnOp, use ssa.Instruction) bool {
	for _, r := range *ld.Referrers() {
		bo, ok := r.(*ssa.BinOp)
		if !ok {
			continue
		}
		if c, isC := bo.Y.(*ssa.Const); !isC || c.Value != nil {
			continue
		}
		for _, rr := range *bo.Referrers() {
			iff, ok := rr.(*ssa.If)
			if !ok {
				continue
			}
			succ := iff.Block().Succs[0]
			if bo.Op.String() == "==" {
				succ = iff.Block().Succs[1]
			}
			if succ.Dominates(use.Block()) && len(succ.Preds) == 1 {
				return true
			}
		}
	}
	return false
}

// assignedAtReturns computes, per return of fn, the fsm pointer fields that
// hold a freshly assigned non-nil value on every path.
func (c *Check) assignedSummary(fn *ssa.Function, depth int) map[string]bool {
	p := c.P
	a := NewAnalysis(p, fn)
	a.Run()
	var acc map[string]bool
	for _, r := range a.Returns {
		got := c.assignedIn(r.State, depth)
		if acc == nil {
			acc = got
		} else {
			for k := range acc {
				if !got[k] {
					delete(acc, k)
				}
			}
		}
	}
	if acc == nil {
		acc = map[string]bool{}
	}
	return acc
}

func (c *Check) assignedIn(st *State, depth int) map[string]bool {
	p := c.P
	got := map[string]bool{}
	for _, f := range fsmPtrFields {
		if st.must["assign:"+f] {
			got[f] = true
		}
	}
	if depth < 2 {
		for ev := range st.must {
			if strings.HasPrefix(ev, "call:") && !strings.Contains(ev, "(") {
				if g, ok := p.Funcs[strings.TrimPrefix(ev, "call:")]; ok && g.Parent() == nil && g.Signature.Recv() != nil && recvTypeName(g.Signature.Recv().Type()) == "fsm" {
					switch p.Name(g) {
					case "fsm.dialPeer", "fsm.startReading":
						for k := range c.assignedSummary(g, depth+1) {
							got[k] = true
						}
					}
				}
			}
		}
	}
	return got
}

func (c *Check) timerDiscipline(rule string) {
	p := c.P
	for _, f := range fsmPtrFields {
		p.Field("fsm", f)
	}
	stateFns := map[int64]string{}
	names := map[string]string{"idleState": "fsm.idle", "connectState": "fsm.connect", "activeState": "fsm.active", "openSentState": "fsm.openSent", "openConfirmState": "fsm.openConfirm", "establishedState": "fsm.established"}
	skip := map[string]bool{}
	for cn, fnn := range names {
		stateFns[p.MustConst(cn)] = fnn
		skip[fnn] = true
	}
	skip["fsm.sendOpenAndSetHoldTimer"] = true
	skip["fsm.cleanup"] = true
	// requirements per state
	req := map[string]map[string]ssa.Instruction{}
	for _, fnn := range names {
		req[fnn] = p.fsmDerefs(p.Fn(fnn), map[*ssa.Function]bool{}, skip)
	}
	// sendOpenAndSetHoldTimer is part of connect/active: its own requirements
	reqSend := p.fsmDerefs(p.Fn("fsm.sendOpenAndSetHoldTimer"), map[*ssa.Function]bool{}, skip)
	// active(): dereferences are only on the conn == nil branch; the initial
	// transition into active happens only with conn != nil (checked below)
	// transitions: for each state function, per return: (next state, assigned set)
	type trans struct {
		from     string
		to       int64
		assigned map[string]bool
		pos      string
	}
	var ts []trans
	// filter: the values of the state result the caller's path admits (a
	// wrapper that tests the closure's result refines it per return)
	var collect func(from string, fn *ssa.Function, base map[string]bool, depth int, filter ISet)
	collect = func(from string, fn *ssa.Function, base map[string]bool, depth int, filter ISet) {
		a := NewAnalysis(p, fn)
		a.NoInline = map[string]bool{"fsm.sendOpenAndSetHoldTimer": true}
		a.Run()
		for _, r := range a.Returns {
			got := c.assignedIn(r.State, 0)
			for k := range base {
				got[k] = true
			}
			e := r.Results[0]
			// a result produced by a state closure: what was assigned is
			// decided inside the closure, per return of the closure
			callee := e
			if e.Op == "ex" {
				callee = e.Args[0]
			}
			if callee.Op == "rcall" && depth < 2 {
				if g, ok := p.Funcs[strings.TrimPrefix(callee.S, "closure:")]; ok {
					collect(from, g, got, depth+1, r.State.rangeOf(e).Intersect(filter))
					continue
				}
			}
			if v, ok := r.State.rangeOf(e).IsConst(); ok {
				if filter.Contains(v) {
					ts = append(ts, trans{from, v, got, p.InstrPos(r.Instr)})
				}
				continue
			}
			c.undecided(rule, from, "next state", p.InstrPos(r.Instr), "next state is not a constant: "+trunc(e.Key, 60))
		}
	}
	for _, fnn := range names {
		if fn := p.Fn(fnn); fn != nil {
			collect(fnn, fn, map[string]bool{}, 0, isTop())
		}
	}
	// invariant: fields guaranteed on entry to each state
	inv := map[string]map[string]bool{}
	all := func() map[string]bool {
		m := map[string]bool{}
		for _, f := range fsmPtrFields {
			m[f] = true
		}
		return m
	}
	for _, fnn := range names {
		inv[fnn] = all()
	}
	// entry transitions from run(): newFSM always sets idleHoldTimer
	newFSMSets := c.assignedSummaryCtor()
	entry := map[string]bool{}
	for k := range newFSMSets {
		entry[k] = true
	}
	meet := func(dst map[string]bool, src map[string]bool) bool {
		ch := false
		for k := range dst {
			if !src[k] {
				delete(dst, k)
				ch = true
			}
		}
		return ch
	}
	meet(inv["fsm.idle"], entry)
	activeEntry := map[string]bool{}
	for k := range entry {
		activeEntry[k] = true
	}
	// the conn != nil entry into active never reaches the dereferencing branch
	activeEntry["connectRetryTimer"] = c.activeEntryGuard(rule)
	meet(inv["fsm.active"], activeEntry)
	for changed := true; changed; {
		changed = false
		for _, t := range ts {
			to, ok := stateFns[t.to]
			if !ok {
				continue // disabled
			}
			have := map[string]bool{}
			for k := range inv[t.from] {
				have[k] = true
			}
			for k := range t.assigned {
				have[k] = true
			}
			if meet(inv[to], have) {
				changed = true
			}
		}
	}
	n := 0
	for _, fnn := range sortedKeys(req) {
		r := req[fnn]
		if fnn == "fsm.connect" || fnn == "fsm.active" {
			// sendOpenAndSetHoldTimer runs inside these states
			_ = reqSend
		}
		var fs []string
		for f := range r {
			fs = append(fs, f)
		}
		sort.Strings(fs)
		for _, f := range fs {
			n++
			c.require(inv[fnn][f], rule, fnn, "dereference of fsm."+f, p.InstrPos(r[f]),
				fmt.Sprintf("fsm.%s is assigned a non-nil value on every path of every transition sequence leading into %s (guaranteed on entry: %v)", f, strings.TrimPrefix(fnn, "fsm."), sortedKeys(inv[fnn])))
		}
	}
	c.floor(rule, n, 8, "dereferences of conditionally initialised FSM pointer fields")
	_ = types.Typ
}

// assignedSummaryCtor: pointer fields set by newFSM's composite literal.
func (c *Check) assignedSummaryCtor() map[string]bool {
	p := c.P
	out := map[string]bool{}
	fn := p.Fn("newFSM")
	if fn == nil {
		return out
	}
	a := NewAnalysis(p, fn)
	a.Run()
	for _, r := range a.Returns {
		for k, v := range r.State.mem {
			me := r.State.memE[k]
			if me == nil || me.Op != "fa" {
				continue
			}
			for _, f := range fsmPtrFields {
				if me.S == f {
					if nn, ok := r.State.nonNil(v).IsConst(); ok && nn == 1 {
						out[f] = true
					}
				}
			}
		}
	}
	return out
}

// activeEntryGuard checks that (a) run() enters active initially only when
// conn != nil and (b) active() dereferences connectRetryTimer only on the
// conn == nil branch.
func (c *Check) activeEntryGuard(rule string) bool {
	p := c.P
	act := p.Fn("fsm.active")
	run := p.Fn("fsm.run")
	if act == nil || run == nil {
		return false
	}
	// (b)
	okB := true
	var connTest *ssa.If
	allInstrs(act, func(in ssa.Instruction) {
		if iff, ok := in.(*ssa.If); ok && connTest == nil {
			if bo, ok := iff.Cond.(*ssa.BinOp); ok {
				if ld, ok := bo.X.(*ssa.UnOp); ok {
					if fa, ok := ld.X.(*ssa.FieldAddr); ok && structFieldName(fa) == "conn" && bo.Op.String() == "!=" {
						connTest = iff
					}
				}
			}
		}
	})
	if connTest == nil {
		okB = false
	} else {
		nilBranch := connTest.Block().Succs[1]
		for f, in := range p.fsmDerefs(act, map[*ssa.Function]bool{}, map[string]bool{"fsm.sendOpenAndSetHoldTimer": true, "fsm.dialPeer": true}) {
			if f == "connectRetryTimer" && !(nilBranch.Dominates(in.Block()) && len(nilBranch.Preds) == 1) {
				okB = false
			}
		}
	}
	// (a) with conn == nil the initial transition built before the main loop
	// never targets active (decided on the values, whatever the control shape)
	active := p.MustConst("activeState")
	first, known := p.firstRequestTargets(run, nnField("conn", false))
	okA := known && len(first) > 0
	for _, v := range first {
		if v == active {
			okA = false
		}
	}
	c.require(okA && okB, rule, "fsm.active", "initial entry guarded by conn", p.Pos(act.Pos()),
		"an FSM created with a connection enters active() only with conn != nil, and active() touches the connect-retry timer only on the conn == nil branch")
	return okA && okB
}
