package main

// Rule G1 (data-race freedom by ownership) and G4 (spawn/join pairing),
// shared by C01, C05, C10 and C20.

import (
	"fmt"
	"go/token"
	"sort"
	"strings"

	"golang.org/x/tools/go/ssa"
)

// handOff is one frozen entry of the hand-off table: a field that is
// accessed from more than one goroutine root, with the accessor functions
// allowed per root and the happens-before reason. An accessor that is not
// listed is reported; the listed premises are re-checked where they are
// intra-procedural.
type handOff struct {
	field   string              // "fsm.conn"
	allowed map[string][]string // root -> accessor functions ("*" = any)
	reason  string
}

var g1Table = []handOff{
	{"Server.peers", map[string][]string{"*": {"*"}}, "every access under Server.mu (checked by the lockset rule)"},
	{"Server.serving", map[string][]string{"*": {"*"}}, "every access under Server.mu (checked by the lockset rule)"},
	{"fsm.conn", map[string][]string{
		"go fsm.read": {"fsm.read"},
		"go fsm.run":  {"fsm.connect", "fsm.cleanupConnAndReader", "fsm.active", "fsm.cleanupConnAndReader", "fsm.established", "fsm.run", "fsm.sendKeepAlive", "fsm.sendNotification", "fsm.sendOpenAndSetHoldTimer"},
	}, "the reader is started (go) after the connection is stored and joined (<-readerDoneCh) before it is reset; checked: writers in root fsm.run are connect (no reader alive: every state that owns a reader joins it on exit, C09.6) and the deferred reset in cleanupConnAndReader (after the join)"},
	{"fsm.closeReaderCh", map[string][]string{"go fsm.read": {"fsm.read"}, "go fsm.run": {"fsm.startReading", "fsm.cleanupConnAndReader", "fsm.cleanupConnAndReader"}}, "written in startReading before `go f.read()` (dominance checked)"},
	{"fsm.readerDoneCh", map[string][]string{"go fsm.read": {"fsm.read"}, "go fsm.run": {"fsm.startReading", "fsm.cleanupConnAndReader"}}, "written in startReading before `go f.read()` (dominance checked)"},
	{"fsm.readerErrCh", map[string][]string{"go fsm.read": {"fsm.read"}, "go fsm.run": {"fsm.startReading", "fsm.established", "fsm.openConfirm", "fsm.openSent"}}, "written in startReading before `go f.read()` (dominance checked)"},
	{"fsm.readerMsgCh", map[string][]string{"go fsm.read": {"fsm.read"}, "go fsm.run": {"fsm.startReading", "fsm.established", "fsm.openConfirm", "fsm.openSent"}}, "written in startReading before `go f.read()` (dominance checked)"},
	{"fsm.dialResultCh", map[string][]string{"go@fsm.dialPeer": {"fsm.dialPeer"}, "go fsm.run": {"fsm.dialPeer", "fsm.cleanup", "fsm.connect"}}, "written in dialPeer before the go statement (dominance checked); the dial goroutine reads the field only in its first statement (deferred close argument), and the next dialPeer happens after its single result was received"},
	{"fsm.holdTime", map[string][]string{"go@fsm.established": {"fsm.established"}, "go fsm.run": {"fsm.openSent", "fsm.drainAndResetHoldTimer", "fsm.established", "fsm.openConfirm"}}, "written only in openSent; the keepalive manager lives inside established(): spawned there and joined before established() returns (G4)"},
	{"fsm.keepAliveInterval", map[string][]string{"go@fsm.established": {"fsm.established"}, "go fsm.run": {"fsm.openSent", "fsm.openConfirm"}}, "as fsm.holdTime"},
	{"fsm.keepAliveTimer", map[string][]string{"go@fsm.established": {"fsm.established"}, "go fsm.run": {"fsm.openSent", "fsm.cleanup", "fsm.established", "fsm.established", "fsm.openConfirm", "fsm.openConfirm"}}, "as fsm.holdTime; time.Timer methods are safe for concurrent use"},
	{"fsm.remoteID", map[string][]string{"go fsm.run": {"fsm.openSent"}, "go peer.run": {"peer.handleStateTransition"}}, "written before the OpenConfirm transition request is sent on transitionCh; read by the peer manager after receiving it (channel happens-before)"},
	{"peer.fsms", map[string][]string{"API": {"peer.enableFSM"}, "go peer.run": {"*"}}, "API-root access only via peer.start -> enableFSM before `go p.run()` (dominance checked)"},
	{"peer.fsmState", map[string][]string{"API": {"peer.enableFSM", "newPeer"}, "go peer.run": {"*"}}, "as peer.fsms"},
	{"peer.startupDelayTimer", map[string][]string{"API": {"newPeer"}, "go peer.run": {"*"}}, "constructor, then peer manager only"},
}

// messageTypes are value objects built by one goroutine and handed over
// through a channel or a return value; their writers are pinned.
var g1MessageWriters = map[string][]string{
	"Capability":              {"NewAddPathCapability", "NewMPExtensionsCapability", "capabilityOptionalParam.decode", "newFourOctetASCap"},
	"Notification":            {"*fresh*", "Notification.decode", "newNotification"},
	"notificationError":       {"newNotificationError"},
	"openMessage":             {"openMessage.decode", "newOpenMessage"},
	"capabilityOptionalParam": {"capabilityOptionalParam.decode", "newOpenMessage"},
	"dialResult":              {"fsm.dialPeer"},
	"stateTransition":         {"newStateTransition"},
	"peerOptions":             {"defaultPeerOptions", "WithPassive", "WithIdleHoldTime", "WithConnectRetryTime", "WithPort", "WithDialerControl", "WithLocalAddress", "WithHoldTime"},
}

// isFreshWrite reports whether the access writes into an object allocated in
// the same function (a constructor initialising an unpublished object).
func isFreshWrite(a Access) bool {
	st, ok := a.Instr.(*ssa.Store)
	if !ok {
		return false
	}
	return addrRootedAtAlloc(st.Addr)
}

// isFreshAccess: any access (read or write) to an object allocated in the same
// function (a constructor working on an unpublished object).
func isFreshAccess(a Access) bool {
	switch x := a.Instr.(type) {
	case *ssa.Store:
		return addrRootedAtAlloc(x.Addr)
	case *ssa.UnOp:
		return addrRootedAtAlloc(x.X)
	case *ssa.Slice:
		return addrRootedAtAlloc(x.X)
	}
	return false
}

func addrRootedAtAlloc(v ssa.Value) bool {
	for i := 0; i < 6; i++ {
		switch x := v.(type) {
		case *ssa.FieldAddr:
			v = x.X
		case *ssa.IndexAddr:
			v = x.X
		case *ssa.Alloc:
			return true
		default:
			return false
		}
	}
	return false
}

// isFreshViaParam: an access inside a helper the rules do not know, through a
// pointer parameter for which every call site passes the address of an
// object allocated in the caller (the helper works on the caller's
// unpublished local, as if its body were written there).
func (p *Prog) isFreshViaParam(a Access) bool {
	fn := a.Instr.Parent() // the helper the instruction lives in (a.Fn may be the caller it is seen through)
	if fn == nil || fn.Parent() != nil || knownFuncs[p.Name(fn)] {
		return false
	}
	var v ssa.Value
	switch x := a.Instr.(type) {
	case *ssa.Store:
		v = x.Addr
	case *ssa.UnOp:
		v = x.X
	case *ssa.Slice:
		v = x.X
	default:
		return false
	}
	for i := 0; i < 6; i++ {
		switch x := v.(type) {
		case *ssa.FieldAddr:
			v = x.X
			continue
		case *ssa.IndexAddr:
			v = x.X
			continue
		}
		break
	}
	pr, ok := v.(*ssa.Parameter)
	if !ok {
		return false
	}
	k := -1
	for i, q := range fn.Params {
		if q == pr {
			k = i
		}
	}
	if k < 0 {
		return false
	}
	sites := 0
	for _, g := range p.FuncSeq {
		for _, h := range withAnon(g) {
			bad := false
			allInstrs(h, func(in ssa.Instruction) {
				ci, ok := in.(ssa.CallInstruction)
				if !ok || ci.Common().StaticCallee() != fn {
					return
				}
				sites++
				if _, isCall := in.(*ssa.Call); !isCall || k >= len(ci.Common().Args) || !addrRootedAtAlloc(ci.Common().Args[k]) {
					bad = true
				}
			})
			if bad {
				return false
			}
		}
	}
	return sites > 0
}

// checkOwnership evaluates G1 for the package and records obligations under
// the given rule name.
func (c *Check) checkOwnership(rule string) {
	p := c.P
	roots := p.roots()
	type key struct{ s, f string }
	type racc struct {
		root string
		a    Access
	}
	acc := map[key][]racc{}
	for _, r := range roots {
		for fn := range r.Funcs {
			for _, a := range p.fieldAccesses(fn) {
				if isFreshAccess(a) || p.isFreshViaParam(a) {
					continue
				}
				// accesses of a helper the rules do not know are attributed to
				// its known callers inside this root (as if it were inlined)
				for _, owner := range p.knownOwners(fn, r.Funcs) {
					b := a
					b.Fn = owner
					acc[key{a.Struct, a.Field}] = append(acc[key{a.Struct, a.Field}], racc{r.Name, b})
				}
			}
		}
	}
	table := map[string]handOff{}
	for _, h := range g1Table {
		table[h.field] = h
	}
	var keys []key
	for k := range acc {
		keys = append(keys, k)
	}
	sort.Slice(keys, func(i, j int) bool { return keys[i].s+"."+keys[i].f < keys[j].s+"."+keys[j].f })
	conflicts := 0
	for _, k := range keys {
		as := acc[k]
		rootsSeen := map[string]bool{}
		writeRoots := map[string]bool{}
		for _, ra := range as {
			rootsSeen[ra.root] = true
			if ra.a.Write {
				writeRoots[ra.root] = true
			}
		}
		if len(writeRoots) == 0 || len(rootsSeen) < 2 {
			continue
		}
		// sync primitives are safe by themselves
		if isSyncField(p, k.s, k.f) {
			continue
		}
		name := k.s + "." + k.f
		conflicts++
		if ws, ok := g1MessageWriters[k.s]; ok {
			allowed := map[string]bool{}
			for _, w := range ws {
				allowed[w] = true
			}
			bad := ""
			var badAcc Access
			for _, ra := range as {
				if ra.a.Write && !allowed[p.ownerName(ra.a.Fn)] {
					bad = p.Name(ra.a.Fn)
					badAcc = ra.a
				}
			}
			if bad == "" {
				c.ok(rule, "", "field "+name, "-", "value object: written only by its pinned constructors/decoders before it is handed over")
			} else {
				c.fail(rule, bad, "field "+name, p.InstrPos(badAcc.Instr), "value object "+k.s+" is written by "+bad+", which is not one of its constructors/decoders: a goroutine that received it may read it concurrently")
			}
			continue
		}
		h, ok := table[name]
		if !ok {
			// report with both sites
			var w, o racc
			for _, ra := range as {
				if ra.a.Write {
					w = ra
				}
			}
			for _, ra := range as {
				if ra.root != w.root {
					o = ra
				}
			}
			c.fail(rule, p.Name(o.a.Fn), "field "+name, p.InstrPos(o.a.Instr),
				fmt.Sprintf("%s is written in %s (root %s, %s) and accessed in %s (root %s) with no lock or checked hand-off: data race",
					name, p.Name(w.a.Fn), w.root, p.InstrPos(w.a.Instr), p.Name(o.a.Fn), o.root))
			continue
		}
		bad := false
		for _, ra := range as {
			al, ok := h.allowed[ra.root]
			if !ok {
				al, ok = h.allowed["*"]
			}
			okf := false
			if ok {
				for _, f := range al {
					if f == "*" || p.aka(f) == p.ownerName(ra.a.Fn) {
						okf = true
					}
				}
				// the goroutine's own wrapper closure (defers around the call of
				// the known function) belongs to that goroutine
				if w := p.rootWrapper[ra.root]; w != nil && ra.a.Instr.Parent() == w {
					okf = true
				}
			}
			if !okf {
				bad = true
				c.fail(rule, p.Name(ra.a.Fn), "field "+name, p.InstrPos(ra.a.Instr),
					fmt.Sprintf("%s of %s from goroutine root %q in %s is outside the checked hand-off (%s)", map[bool]string{true: "write", false: "read"}[ra.a.Write], name, ra.root, p.Name(ra.a.Fn), h.reason))
			}
		}
		if !bad {
			c.ok(rule, "", "field "+name, "-", h.reason)
		}
	}
	c.floor(rule, conflicts, 20, "fields accessed from more than one goroutine root with a non-constructor write")

	// premises: stores that must precede the go statement in the same function
	for _, pr := range []struct{ fn, goTarget string }{
		{"fsm.startReading", "fsm.read"},
		{"fsm.dialPeer", "the dial goroutine"},
		{"peer.start", "peer.run"},
	} {
		fn := p.Fn(pr.fn)
		if fn == nil {
			continue
		}
		var g *ssa.Go
		allInstrs(fn, func(in ssa.Instruction) {
			if x, ok := in.(*ssa.Go); ok {
				g = x // each of these functions has exactly one go statement (spawn inventory)
			}
		})
		if g == nil {
			c.fail(rule, pr.fn, "spawn of "+pr.goTarget, p.Pos(fn.Pos()), "expected go statement not found")
			continue
		}
		ok := true
		detail := "every field store and every call that initialises shared state dominates the go statement"
		allInstrs(fn, func(in ssa.Instruction) {
			switch x := in.(type) {
			case *ssa.Store:
				if _, isF := x.Addr.(*ssa.FieldAddr); isF && !instrDominates(x, g) {
					ok = false
					detail = "store at " + p.InstrPos(x) + " does not precede the go statement"
				}
			case *ssa.Call:
				if f := p.staticLocalCallee(x); f != nil && !instrDominates(x, g) {
					ok = false
					detail = "call of " + p.Name(f) + " at " + p.InstrPos(x) + " does not precede the go statement"
				}
			}
		})
		c.require(ok, rule, pr.fn, "init-before-go "+pr.goTarget, p.InstrPos(g), detail)
	}
	// peerOptions writers run only inside AddPeer (on its local copy)
	if ap := p.Fn("Server.AddPeer"); ap != nil {
		callers := 0
		for _, fn := range p.FuncSeq {
			for _, cl := range p.callsIn(fn, descIs("invoke:PeerOption.apply")) {
				callers++
				c.require(p.ownerTop(cl.(ssa.Instruction).Parent()) == ap, rule, p.Name(fn), "PeerOption.apply call", p.InstrPos(cl.(ssa.Instruction)), "options are applied only to AddPeer's local peerOptions before newPeer copies them")
			}
		}
		c.floor(rule, callers, 1, "PeerOption.apply call sites")
	}
}

func isSyncField(p *Prog, s, f string) bool {
	fld := p.fieldQuiet(s, f)
	if fld == nil {
		return false
	}
	ts := fld.Type().String()
	return strings.HasPrefix(ts, "sync.") || strings.HasPrefix(ts, "*sync.")
}

// checkSpawnJoin evaluates G4: the inventory of go statements is exactly the
// known one and each has its join.
func (c *Check) checkSpawnJoin(rule string) {
	p := c.P
	type spec struct {
		in, target string
		join       string // description
		check      func(s Spawn) (bool, string)
	}
	recvOn := func(fnName, field string) (bool, string) {
		fn := p.Fn(fnName)
		if fn == nil {
			return false, "function missing"
		}
		found := false
		allInstrs(fn, func(in ssa.Instruction) {
			if u, ok := in.(*ssa.UnOp); ok && u.Op.String() == "<-" {
				if chanFieldName(u.X) == field {
					found = true
				}
			}
		})
		return found, fmt.Sprintf("%s receives from %s", fnName, field)
	}
	closesOn := func(fn *ssa.Function, field string) bool {
		// the goroutine's outermost defer closes the done channel
		ok := false
		allInstrs(fn, func(in ssa.Instruction) {
			if d, isD := in.(*ssa.Defer); isD {
				if p.calleeDesc(d) == "builtin:close" && len(d.Call.Args) == 1 && chanFieldName(d.Call.Args[0]) == field {
					ok = true
				}
				if t := p.staticLocalCallee(d); t != nil {
					for _, cl := range p.callsIn(t, descIs("builtin:close")) {
						if chanFieldName(cl.Common().Args[0]) == field {
							ok = true
						}
					}
				}
			}
		})
		return ok
	}
	specs := []spec{
		{"fsm.start", "fsm.run", "fsm.stop receives doneCh, closed by run's outermost defer after cleanup", func(s Spawn) (bool, string) {
			ok1, d := recvOn("fsm.stop", "doneCh")
			return ok1 && closesOn(s.Target, "doneCh"), d
		}},
		{"fsm.startReading", "fsm.read", "cleanupConnAndReader receives readerDoneCh, closed by read's defer", func(s Spawn) (bool, string) {
			ok1, d := recvOn("fsm.cleanupConnAndReader", "readerDoneCh")
			return ok1 && closesOn(s.Target, "readerDoneCh"), d
		}},
		{"fsm.dialPeer", "fsm.dialPeer$1", "connect/cleanup receive the single dial result after cancelDialFn()", func(s Spawn) (bool, string) {
			ok1, _ := recvOn("fsm.connect", "dialResultCh")
			ok2, _ := recvOn("fsm.cleanup", "dialResultCh")
			return ok1 && ok2 && closesOn(s.Target, "dialResultCh"), "connect and cleanup receive from dialResultCh; the goroutine closes it on exit"
		}},
		{"fsm.established", "fsm.established$1", "established() receives the manager's done channel before it returns", func(s Spawn) (bool, string) {
			// the done channel is created in established (a local): closed by
			// the goroutine's defer and received in established on every path
			// to return
			if !closesOn(s.Target, "established:done") {
				return false, "manager goroutine does not close its done channel in a defer"
			}
			est := p.ownerTop(s.In)
			pd := newPostDom(est)
			joined := false
			allInstrs(est, func(in ssa.Instruction) {
				if u, ok := in.(*ssa.UnOp); ok && u.Op.String() == "<-" && chanFieldName(u.X) == "established:done" && pd.onEveryReturnPath(u) {
					joined = true
				}
			})
			return joined, "receive from the manager's done channel on every path to return of established()"
		}},
		{"peer.start", "peer.run", "peer.stop receives doneCh, closed by run's defer after disabling both FSMs", func(s Spawn) (bool, string) {
			ok1, d := recvOn("peer.stop", "doneCh")
			return ok1 && closesOn(s.Target, "doneCh"), d
		}},
		{"Server.Serve", "Server.Serve$", "listener goroutines: WaitGroup.Add before go, Done deferred, Wait in closeListeners", func(s Spawn) (bool, string) {
			done := len(p.callsDeep(s.Target, descIs("sync.WaitGroup.Done"))) > 0
			wait := len(p.callsDeep(s.In, descIs("sync.WaitGroup.Wait"))) > 0
			add := false
			for _, cl := range p.callsIn(s.In, descIs("sync.WaitGroup.Add")) {
				if instrDominates(cl.(ssa.Instruction), s.Instr) {
					add = true
				}
			}
			return done && wait && add, "WaitGroup Add/Done/Wait"
		}},
	}
	sp := p.spawns()
	matched := map[int]bool{}
	for _, s := range sp {
		tn := "<dynamic>"
		if s.Target != nil {
			tn = p.Name(s.Target)
		}
		found := false
		for i, sc := range specs {
			if p.ownerName(s.In) == p.aka(sc.in) {
				found = true
				matched[i] = true
				ok, d := sc.check(s)
				c.require(ok, rule, sc.in, "go "+sc.target, p.InstrPos(s.Instr), sc.join+" — "+d)
			}
		}
		if !found {
			// a goroutine the inventory does not know: accepted when it has the
			// generic join shape -- its body signals completion in a defer
			// (close of a channel, or WaitGroup.Done) and some function outside
			// the goroutine waits for exactly that signal
			_ = tn
			okJ, how := p.genericJoin(s)
			c.require(okJ, rule, p.Name(s.In), "go statement in "+p.ownerName(s.In), p.InstrPos(s.Instr),
				"a goroutine outside the confirmed inventory must signal completion in a defer and be waited for: "+how)
		}
	}
	for i, sc := range specs {
		if !matched[i] {
			c.undecided(rule, sc.in, "go "+sc.target, "-", "expected goroutine spawn not found (inventory changed)")
		}
	}
}

// chanFieldName names the struct field a channel value was loaded from.
func chanFieldName(v ssa.Value) string {
	// a channel is named by its creation site wherever that is known
	if curProg != nil && v != nil && isChanType(v.Type()) {
		if k := curProg.chanKey(v); k != "" {
			return k
		}
	}
	switch x := v.(type) {
	case *ssa.UnOp:
		switch y := x.X.(type) {
		case *ssa.FieldAddr:
			return fieldNameOf(y)
		case *ssa.FreeVar:
			return y.Name()
		case *ssa.Alloc:
			return y.Comment
		}
	case *ssa.ChangeType:
		return chanFieldName(x.X)
	case *ssa.FreeVar:
		return x.Name()
	case *ssa.Parameter:
		// a helper's parameter stands for the argument at its call site
		if curProg != nil {
			if o := curProg.origin(x); o != ssa.Value(x) {
				if n := chanFieldName(o); n != "" {
					return n
				}
			}
		}
		return x.Name()
	}
	return ""
}

func fieldNameOf(fa *ssa.FieldAddr) string { return structFieldName(fa) }

func sameChanValue(a, b ssa.Value) bool {
	strip := func(v ssa.Value) ssa.Value {
		for {
			switch x := v.(type) {
			case *ssa.ChangeType:
				v = x.X
				continue
			case *ssa.UnOp:
				// load of an alloc cell holding the channel
				if al, ok := x.X.(*ssa.Alloc); ok {
					v = al
					continue
				}
			}
			return v
		}
	}
	return strip(a) == strip(b)
}

// capturedVarDiscipline (G5): a goroutine never shares a variable cell that
// its spawner rewrites after the go statement. go.mod declares a language
// version below 1.22, so a `for ... range` variable is one cell for the whole
// loop: a goroutine closing over it observes the values of later iterations
// (all accept goroutines end up on the last listener). In SSA a captured
// variable is an Alloc bound by MakeClosure; the rule reports every store to
// that Alloc in the spawner that is reachable from the go statement.
func (c *Check) capturedVarDiscipline(rule string) {
	p := c.P
	n := 0
	for _, s := range p.spawns() {
		mc, ok := s.Instr.Call.Value.(*ssa.MakeClosure)
		if !ok {
			n++
			c.ok(rule, p.Name(s.In), "go statement without captured variables", p.InstrPos(s.Instr), "target is not a closure: arguments are evaluated at the go statement")
			continue
		}
		tn := "<dynamic>"
		if s.Target != nil {
			tn = p.Name(s.Target)
		}
		for i, b := range mc.Bindings {
			al, isAlloc := b.(*ssa.Alloc)
			if !isAlloc {
				continue // captured by value (SSA register): immutable
			}
			n++
			name := al.Comment
			if i < len(s.Target.FreeVars) {
				name = s.Target.FreeVars[i].Name()
			}
			// (a path that re-executes the allocation first writes a new cell:
			// `v := v` inside the loop body makes one cell per iteration)
			hit := pathSearch(s.In, s.Instr, func(x ssa.Instruction) bool {
				st, isS := x.(*ssa.Store)
				return isS && st.Addr == ssa.Value(al)
			}, func(x ssa.Instruction) bool { return x == ssa.Instruction(al) })
			detail := "no store to the captured variable is reachable in the spawner after the go statement"
			if hit != nil {
				detail = "the spawner stores to the captured variable at " + p.InstrPos(hit) + " after the go statement (with the module's pre-1.22 loop variable semantics every goroutine then sees the last value)"
			}
			c.require(hit == nil, rule, p.Name(s.In), "go "+tn+" captures "+name, p.InstrPos(s.Instr), detail)
		}
	}
	c.floor(rule, n, 5, "go statements / captured cells")
}

// genericJoin: the goroutine's target closes a channel (or calls
// WaitGroup.Done) in a defer, and a function that is not part of the
// goroutine receives from that channel (or calls WaitGroup.Wait).
func (p *Prog) genericJoin(s Spawn) (bool, string) {
	if s.Target == nil {
		return false, "target not resolvable"
	}
	body := map[*ssa.Function]bool{}
	for _, f := range withAnon(s.Target) {
		body[f] = true
	}
	var doneKeys []string
	wgDone := false
	for f := range body {
		ownInstrs(f, func(in ssa.Instruction) {
			d, ok := in.(*ssa.Defer)
			if !ok {
				return
			}
			switch p.calleeDesc(d) {
			case "builtin:close":
				if len(d.Call.Args) == 1 {
					if k := chanFieldName(d.Call.Args[0]); k != "" {
						doneKeys = append(doneKeys, k)
					}
				}
			case "sync.WaitGroup.Done":
				wgDone = true
			}
			if t := p.staticLocalCallee(d); t != nil {
				for _, cl := range p.callsDeep(t, descIs("builtin:close")) {
					if k := chanFieldName(cl.Common().Args[0]); k != "" {
						doneKeys = append(doneKeys, k)
					}
				}
				if len(p.callsDeep(t, descIs("sync.WaitGroup.Done"))) > 0 {
					wgDone = true
				}
			}
		})
	}
	if len(doneKeys) == 0 && !wgDone {
		return false, "no deferred close / WaitGroup.Done in the goroutine"
	}
	for _, g := range p.AllFuncs {
		if body[g] {
			continue
		}
		joined := false
		ownInstrs(g, func(in ssa.Instruction) {
			switch x := in.(type) {
			case *ssa.UnOp:
				if x.Op.String() == "<-" {
					k := chanFieldName(x.X)
					for _, dk := range doneKeys {
						if k == dk {
							joined = true
						}
					}
				}
			case ssa.CallInstruction:
				if wgDone && p.calleeDesc(x) == "sync.WaitGroup.Wait" {
					joined = true
				}
			}
		})
		if joined {
			return true, "joined in " + p.Name(g)
		}
	}
	return false, "nobody waits for the goroutine's completion signal"
}

// packageState (G6): goroutines of different peers share nothing but the
// Server; package-level variables are therefore written only by the package
// initialiser and by the documented configuration setter (SetLogger), never
// by code that runs per message (a package-level scratch buffer or template
// that an encoder writes is a data race between sessions).
func (c *Check) packageState(rule string) {
	p := c.P
	allowed := map[string]string{"logger": "SetLogger"}
	n := 0
	for _, fn := range p.AllFuncs {
		ownInstrs(fn, func(in ssa.Instruction) {
			var addr ssa.Value
			switch x := in.(type) {
			case *ssa.Store:
				addr = x.Addr
			case ssa.CallInstruction:
				// copy / PutUintNN / ReadFull into a slice of a global
				switch p.calleeDesc(x) {
				case "builtin:copy":
					addr = x.Common().Args[0]
				case "binary.bigEndian.PutUint16", "binary.bigEndian.PutUint32", "binary.bigEndian.PutUint64", "io.ReadFull":
					addr = x.Common().Args[1]
				}
			}
			if addr == nil {
				return
			}
			var g *ssa.Global
			v := addr
			for i := 0; i < 6 && g == nil; i++ {
				switch y := v.(type) {
				case *ssa.Global:
					g = y
				case *ssa.IndexAddr:
					v = y.X
				case *ssa.FieldAddr:
					v = y.X
				case *ssa.Slice:
					v = y.X
				case *ssa.Parameter:
					o := p.origin(y)
					if o == v {
						i = 6
					}
					v = o
				default:
					i = 6
				}
			}
			if g == nil || g.Pkg != p.SSA {
				return
			}
			n++
			c.require(allowed[g.Name()] == p.ownerName(fn), rule, p.Name(fn), "write of package variable "+g.Name(), p.InstrPos(in),
				"package-level state is written only at initialisation and by its documented setter")
		})
	}
	c.floor(rule, n, 1, "writes of package-level variables")
}

// rendezvousChannels: hand-offs that are correct only because sender and
// receiver meet. The instances are frozen with their reason; a second,
// derived family needs no table: a channel on which one goroutine both sends
// and receives (request and grant on the same channel) must be unbuffered, or
// that goroutine can take back its own message.
var rendezvousTable = []struct{ structName, field, reason string }{
	{"peer", "transitionCh", "carries the FSM's transition request and the manager's grant; with a buffer the requesting FSM receives its own request back and grants itself the transition, bypassing the manager's one-Established and collision checks"},
	{"peer", "errorCh", "the FSM goes on to its next transition request only after the manager has taken the error, so damping is decided before that request is answered"},
	{"peer", "inConnCh", "an accepted connection belongs to the sender (which closes it when the peer is stopping) until the manager takes it; a connection parked in a buffer is owned by nobody when the peer stops"},
}

func (c *Check) rendezvousChannels(rule string, fields ...string) {
	p := c.P
	cf := p.chanFlow()
	want := map[string]bool{}
	for _, f := range fields {
		want[f] = true
	}
	unbuffered := func(m *ssa.MakeChan) bool {
		cst, ok := m.Size.(*ssa.Const)
		return ok && cst.Value != nil && cst.Int64() == 0
	}
	for _, r := range rendezvousTable {
		if len(want) > 0 && !want[r.field] {
			continue
		}
		sites := map[*ssa.MakeChan]bool{}
		for _, node := range []string{"F:" + r.structName + "." + r.field, "F:" + r.structName + "." + r.field + "[]"} {
			for m := range cf.pts[node] {
				sites[m] = true
			}
		}
		if len(sites) == 0 {
			c.undecided(rule, "", "channel "+r.structName+"."+r.field, "-", "no creation site of this channel found")
			continue
		}
		for m := range sites {
			c.require(unbuffered(m), rule, p.Name(m.Parent()), "channel "+r.structName+"."+r.field, p.InstrPos(m), "rendezvous (unbuffered) channel: "+r.reason)
		}
	}
	if len(want) > 0 {
		return
	}
	// derived: same goroutine root sends and receives on the channel
	type dirs struct{ send, recv bool }
	use := map[*ssa.MakeChan]map[string]*dirs{}
	rootsOf := map[*ssa.Function][]string{}
	for _, r := range p.roots() {
		for f := range r.Funcs {
			rootsOf[f] = append(rootsOf[f], r.Name)
		}
	}
	note := func(fn *ssa.Function, ch ssa.Value, send bool) {
		for _, m := range cf.sites(ch) {
			for _, rn := range rootsOf[fn] {
				if rn == "API" {
					continue
				}
				if use[m] == nil {
					use[m] = map[string]*dirs{}
				}
				if use[m][rn] == nil {
					use[m][rn] = &dirs{}
				}
				if send {
					use[m][rn].send = true
				} else {
					use[m][rn].recv = true
				}
			}
		}
	}
	for _, fn := range p.AllFuncs {
		ownInstrs(fn, func(in ssa.Instruction) {
			switch x := in.(type) {
			case *ssa.Send:
				note(fn, x.Chan, true)
			case *ssa.UnOp:
				if x.Op == token.ARROW {
					note(fn, x.X, false)
				}
			case *ssa.Select:
				for _, ss := range x.States {
					note(fn, ss.Chan, ss.Send != nil)
				}
			}
		})
	}
	n := 0
	for m, byRoot := range use {
		for rn, d := range byRoot {
			if d.send && d.recv {
				n++
				c.require(unbuffered(m), rule, p.Name(m.Parent()), "channel "+cf.keys[m]+" (two-way in "+rn+")", p.InstrPos(m), "goroutine "+rn+" both sends and receives on this channel: it must be unbuffered, or the goroutine can receive its own message")
			}
		}
	}
	c.floor(rule, n, 1, "channels used in both directions by one goroutine")
}
