package main

// C18 — typed path-attribute decoders accept exactly well-formed attributes.

import (
	"fmt"
	"go/token"
	"go/types"
	"strings"

	"golang.org/x/tools/go/ssa"
)

func init() { register("C18", checkC18) }

type attrRow struct {
	typ      string // Go type
	codeName string
	opt, tr  bool   // RFC flag assignment
	accept   string // "=1", "=4", "=0", "=8", "mult4", "mult12", "aspath"
	class    string // "TreatAsWithdraw" | "AttrDiscard"
	value    func(c *Check, fn *ssa.Function, st *State, b *Expr) (bool, string)
}

func storedValue(fn *ssa.Function, st *State) *Expr {
	recv := paramExpr(fn, 0)
	if v, ok := st.mem[recv.Key]; ok {
		return v
	}
	return nil
}

func be32At(b *Expr, off int64) *Expr {
	return mk("call", types.Typ[types.Uint32], "be32", 0, b, mkConst(off, intT), mkStr(""))
}

func checkC18(c *Check) {
	p := c.P
	c.flagAccessors("C18.1 flag-accessors")
	c.attrErrData("C18.2 fallback-data")
	c.accumulatorsStartEmpty("C18.3 accumulators", "decodeUint32Set", "decodeLargeCommunitySet", "ClusterListPathAttr.Decode", "CommunitiesPathAttr.Decode", "LargeCommunitiesPathAttr.Decode")
	c.specConstants("C18.1 spec-constants", "NOTIF_CODE_UPDATE_MESSAGE_ERR", "NOTIF_SUBCODE_MALFORMED_ATTR_LIST", "NOTIF_SUBCODE_UNRECOGNIZED_WELL_KNOWN_ATTR", "NOTIF_SUBCODE_MISSING_WELL_KNOWN_ATTR", "NOTIF_SUBCODE_ATTR_FLAGS_ERR", "NOTIF_SUBCODE_ATTR_LEN_ERR", "NOTIF_SUBCODE_INVALID_ORIGIN_ATTR", "NOTIF_SUBCODE_INVALID_NEXT_HOP_ATTR", "NOTIF_SUBCODE_OPTIONAL_ATTR_ERR", "NOTIF_SUBCODE_INVALID_NETWORK_FIELD", "NOTIF_SUBCODE_MALFORMED_AS_PATH", "PATH_ATTR_ORIGIN", "PATH_ATTR_AS_PATH", "PATH_ATTR_NEXT_HOP", "PATH_ATTR_MED", "PATH_ATTR_LOCAL_PREF", "PATH_ATTR_ATOMIC_AGGREGATE", "PATH_ATTR_AGGREGATOR", "PATH_ATTR_COMMUNITY", "PATH_ATTR_ORIGINATOR_ID", "PATH_ATTR_CLUSTER_LIST", "PATH_ATTR_MP_REACH_NLRI", "PATH_ATTR_MP_UNREACH_NLRI", "PATH_ATTR_LARGE_COMMUNITY")
	c.flagsValidate("C18.1 flags-validate")
	addrOf := func(lo int64) func(c *Check, fn *ssa.Function, st *State, b *Expr) (bool, string) {
		return func(c *Check, fn *ssa.Function, st *State, b *Expr) (bool, string) {
			v := storedValue(fn, st)
			// netip.AddrFromSlice(x) (ok discarded) or netip.AddrFrom4([4]byte(x)):
			// both are "the address made of the first octets of x"
			var src *Expr
			switch {
			case v != nil && v.Op == "ex" && isCallNamed(v.Args[0], "netip.AddrFromSlice"):
				src = v.Args[0].Args[0]
			case v != nil && isCallNamed(v, "netip.AddrFrom4") && len(v.Args) == 1 && v.Args[0].Op == "ld" && v.Args[0].Args[0].Op == "s2a":
				src = v.Args[0].Args[0].Args[0]
			}
			ok := src != nil
			if ok {
				r, l, h := sliceParts(src)
				ok = r.Key == b.Key && h == nil
				if lo == 0 {
					ok = ok && l == nil
				} else if ok {
					cv, isC := l.IsConst()
					ok = isC && cv == lo
				}
			}
			return ok, "the address is built from the value octets"
		}
	}
	u32 := func(c *Check, fn *ssa.Function, st *State, b *Expr) (bool, string) {
		v := storedValue(fn, st)
		return v != nil && v.Key == be32At(b, 0).Key, "the value is the big-endian uint32 of the four octets"
	}
	rows := []attrRow{
		{"OriginPathAttr", "PATH_ATTR_ORIGIN", false, true, "=1", "TreatAsWithdraw", func(c *Check, fn *ssa.Function, st *State, b *Expr) (bool, string) {
			v := storedValue(fn, st)
			return v != nil && v.Key == byteLoad(b, 0).Key, "the value is octet 0"
		}},
		{"ASPathAttr", "PATH_ATTR_AS_PATH", false, true, "aspath", "TreatAsWithdraw", nil},
		{"NextHopPathAttr", "PATH_ATTR_NEXT_HOP", false, true, "=4", "TreatAsWithdraw", addrOf(0)},
		{"MEDPathAttr", "PATH_ATTR_MED", true, false, "=4", "TreatAsWithdraw", u32},
		{"LocalPrefPathAttr", "PATH_ATTR_LOCAL_PREF", false, true, "=4", "TreatAsWithdraw", u32},
		{"AtomicAggregatePathAttr", "PATH_ATTR_ATOMIC_AGGREGATE", false, true, "=0", "AttrDiscard", func(c *Check, fn *ssa.Function, st *State, b *Expr) (bool, string) {
			v := storedValue(fn, st)
			cv, isC := int64(0), false
			if v != nil {
				cv, isC = st.rangeOf(v).IsConst()
			}
			return isC && cv == 1, "the attribute's presence is recorded (true)"
		}},
		{"AggregatorPathAttr", "PATH_ATTR_AGGREGATOR", true, true, "=8", "AttrDiscard", func(c *Check, fn *ssa.Function, st *State, b *Expr) (bool, string) {
			recv := paramExpr(fn, 0)
			as := c.P.loadField(st, recv, "AggregatorPathAttr", "AS")
			ip := c.P.loadField(st, recv, "AggregatorPathAttr", "IP")
			var ipSrc *Expr
			switch {
			case ip != nil && ip.Op == "ex" && isCallNamed(ip.Args[0], "netip.AddrFromSlice"):
				ipSrc = ip.Args[0].Args[0]
			case ip != nil && isCallNamed(ip, "netip.AddrFrom4") && len(ip.Args) == 1 && ip.Args[0].Op == "ld" && ip.Args[0].Args[0].Op == "s2a":
				ipSrc = ip.Args[0].Args[0].Args[0]
			}
			ok := as != nil && as.Key == be32At(b, 0).Key && ipSrc != nil
			if ok {
				r, l, h := sliceParts(ipSrc)
				cv, isC := int64(0), false
				if l != nil {
					cv, isC = l.IsConst()
				}
				ok = r.Key == b.Key && h == nil && isC && cv == 4
			}
			return ok, "AS = be32(value[0:4]), IP = value[4:8]"
		}},
		{"CommunitiesPathAttr", "PATH_ATTR_COMMUNITY", true, true, "mult4", "TreatAsWithdraw", func(c *Check, fn *ssa.Function, st *State, b *Expr) (bool, string) {
			if !c.P.HasFn("decodeUint32Set") {
				return true, "element loop in the decoder itself (C18.3 nothing-lost)"
			}
			v := storedValue(fn, st)
			ok := v != nil && strings.Contains(v.Key, "rcall:decodeUint32Set(") && strings.Contains(v.Key, b.Key)
			return ok, "the value is decodeUint32Set(all value octets)"
		}},
		{"OriginatorIDPathAttr", "PATH_ATTR_ORIGINATOR_ID", true, false, "=4", "TreatAsWithdraw", addrOf(0)},
		{"ClusterListPathAttr", "PATH_ATTR_CLUSTER_LIST", true, false, "mult4", "TreatAsWithdraw", func(c *Check, fn *ssa.Function, st *State, b *Expr) (bool, string) {
			// the list built by the element loop (C18.3 nothing-lost) is what is stored
			v := storedValue(fn, st)
			return v != nil && !v.IsNil(), "the decoded list is stored into the attribute"
		}},
		{"LargeCommunitiesPathAttr", "PATH_ATTR_LARGE_COMMUNITY", true, true, "mult12", "TreatAsWithdraw", func(c *Check, fn *ssa.Function, st *State, b *Expr) (bool, string) {
			if !c.P.HasFn("decodeLargeCommunitySet") {
				return true, "element loop in the decoder itself (C18.3 nothing-lost)"
			}
			v := storedValue(fn, st)
			ok := v != nil && strings.Contains(v.Key, "rcall:decodeLargeCommunitySet(") && strings.Contains(v.Key, b.Key)
			return ok, "the value is decodeLargeCommunitySet(all value octets)"
		}},
	}
	n := 0
	for _, row := range rows {
		fnName := row.typ + ".Decode"
		fn := p.Fn(fnName)
		if fn == nil || !c.sig("C18.1 flags-row", fn, 3) {
			continue
		}
		n++
		code := p.MustConst(row.codeName)
		b := paramExpr(fn, 2)
		lenB := mkLen(b)
		isVal := func(e *Expr) bool { return e.Op == "rcall" && e.S == "PathAttrFlags.Validate" }
		valNN := func(v int64) func(e *Expr) (ISet, bool) {
			return func(e *Expr) (ISet, bool) {
				if e.Op == "nn" && isVal(e.Args[0]) {
					return isConst(v), true
				}
				return nil, false
			}
		}
		// (a) the flags row
		a := NewAnalysis(p, fn)
		a.Run()
		vc := p.callsIn(fn, descIs("PathAttrFlags.Validate"))
		okV := len(vc) == 1
		if okV {
			for _, args := range a.callArgsAt(vc[0]) {
				cv, isC := args[1].IsConst()
				o, isO := args[3].IsConst()
				t, isT := args[4].IsConst()
				okV = okV && isC && cv == code && args[0].Key == paramExpr(fn, 1).Key && args[2].Key == b.Key && isO && isT
				c.require(okV, "C18.1 flags-row", fnName, "Validate(code, value, …)", p.InstrPos(vc[0].(ssa.Instruction)), "the flags octet is validated against this attribute's own code with the value for the error data")
				if okV {
					c.require((o == 1) == row.opt && (t == 1) == row.tr, "C18.1 flags-row", fnName, "required Optional/Transitive bits", p.InstrPos(vc[0].(ssa.Instruction)),
						fmt.Sprintf("the RFC assigns Optional=%v Transitive=%v to %s; the decoder demands Optional=%v Transitive=%v", row.opt, row.tr, row.codeName, o == 1, t == 1))
				}
			}
			// nothing happens before it
			allInstrs(fn, func(in ssa.Instruction) {
				switch x := in.(type) {
				case *ssa.Store, *ssa.Return:
					if st, isS := x.(*ssa.Store); isS && localRoot(st.Addr) {
						return // a local of the decoder (arguments prepared for the call), not the decoded value
					}
					if _, isR := x.(*ssa.Return); isR && in.Parent() != fn {
						return // returns of a helper are not returns of the decoder
					}
					if !instrDominates(vc[0].(ssa.Instruction), in) && !(in.Block().Index != 0 && len(in.Block().Preds) == 0) {
						okV = false
					}
				}
			})
		}
		c.require(okV, "C18.1 flags-row", fnName, "flags validated first", p.Pos(fn.Pos()), "exactly one Validate call, before any store or return")
		c.runCases("C18.1 flags-row", fnName, []asmCase{{name: "flag conflict => Validate's error returned unchanged", hook: valNN(1), forbid: func(rs retSite) string {
			if rs.ec.Expr == nil || !isVal(rs.ec.Expr) {
				return "a return other than the flags error is reachable: " + trunc(fmt.Sprint(rs.ec.Expr), 60)
			}
			if storedValue(fn, rs.rs.State) != nil {
				return "the attribute is written although its flags are wrong"
			}
			return ""
		}}})
		// (b) length / value row
		rejectWith := func(sub int64) func(rs retSite) string {
			return func(rs retSite) string {
				if rs.ec.Kind != row.class || rs.ec.Notif == nil {
					return fmt.Sprintf("must fail with %s; got %s", row.class, rs.ec.Kind)
				}
				cc, _ := rs.ec.Notif.Code.IsConst()
				ss, ok2 := rs.ec.Notif.Sub.IsConst()
				ac, ok3 := rs.ec.Code.IsConst()
				if cc != 3 || !ok2 || ss != sub || !ok3 || ac != code {
					return fmt.Sprintf("must carry attribute code %d and fallback NOTIFICATION (3,%d); got code=%v notif=%v", code, sub, rs.ec.Code, rs.ec.Notif)
				}
				if sub == 5 || sub == 6 {
					d := rs.ec.Notif.Data
					if d == nil || d.Op != "rcall" || d.S != "notifDataForAttrBasedErr" {
						return "fallback data must be notifDataForAttrBasedErr(code, value)"
					}
					valueOK := d.Args[2].Key == b.Key
					if !valueOK && d.Args[2].Op == "phi" {
						// the loop cursor over the value: in the iteration that
						// rejects a value this short it still is the whole value
						// (a cursor is the value on entry and only ever shrinks)
						ownInstrs(fn, func(in ssa.Instruction) {
							if ph, isPhi := in.(*ssa.Phi); isPhi && ph.Name()+"#" == d.Args[2].S {
								for i, e := range ph.Edges {
									if !ph.Block().Dominates(ph.Block().Preds[i]) && e == ssa.Value(fn.Params[2]) {
										valueOK = true
									}
								}
							}
						})
					}
					if cv, isC := d.Args[1].IsConst(); !isC || cv != code || !valueOK {
						return "fallback data must be built from this attribute's code and value"
					}
				}
				return ""
			}
		}
		mustAccept := func(rs retSite) string {
			if !isAccept(rs) {
				return "a well-formed value is rejected: " + rs.ec.Kind
			}
			if row.value != nil {
				if ok, d := row.value(c, fn, rs.rs.State, b); !ok {
					return "decoded value wrong: " + d
				}
			}
			return ""
		}
		lenIn := func(set ISet) func(a *Analysis, st *State) {
			return func(a *Analysis, st *State) { st.rng[lenB.Key] = set }
		}
		var cases []asmCase
		switch row.accept {
		case "=0", "=1", "=4", "=8":
			k := int64(row.accept[1] - '0')
			cases = append(cases, asmCase{name: fmt.Sprintf("length != %d => rejected (3,5)", k), hook: valNN(0), init: lenIn(isRange(0, posInf).Minus(isConst(k))), forbid: rejectWith(5)})
			if row.typ == "OriginPathAttr" {
				b0 := func(e *Expr) bool { return e.Key == byteLoad(b, 0).Key }
				cases = append(cases,
					asmCase{name: "length 1, value > 2 => rejected (3,6)", hook: hooks(valNN(0), rangeHook(b0, isRange(3, 255))), init: lenIn(isConst(1)), forbid: rejectWith(6)},
					asmCase{name: "length 1, value <= 2 => accepted", hook: hooks(valNN(0), rangeHook(b0, isRange(0, 2))), init: lenIn(isConst(1)), forbid: mustAccept})
			} else {
				cases = append(cases, asmCase{name: fmt.Sprintf("length == %d => accepted", k), hook: valNN(0), init: lenIn(isConst(k)), forbid: mustAccept})
			}
		case "mult4", "mult12":
			k := int64(4)
			if row.accept == "mult12" {
				k = 12
			}
			modKey := func(st *State) string {
				return mkBin(token.REM, lenB, mkConst(k, intT), intT, intT).Key
			}
			// (the set helpers are analysed in place: the length rule may be
			// theirs rather than the decoder's)
			setHelpers := []string{"decodeUint32Set", "decodeLargeCommunitySet"}
			cases = append(cases,
				asmCase{name: fmt.Sprintf("length < %d => rejected (3,5)", k), hook: valNN(0), init: lenIn(isRange(0, k-1)), forbid: rejectWith(5), force: setHelpers},
				asmCase{name: fmt.Sprintf("length not a multiple of %d => rejected (3,5)", k), hook: valNN(0), init: func(a *Analysis, st *State) {
					st.rng[lenB.Key] = isRange(k, posInf)
					st.rng[modKey(st)] = isRange(1, k-1)
				}, forbid: rejectWith(5), force: setHelpers},
				asmCase{name: fmt.Sprintf("non-zero multiple of %d => accepted", k), hook: hooks(valNN(0), func(e *Expr) (ISet, bool) {
					// nested helpers succeed on well-formed input
					if e.Op == "nn" && e.Args[0].Op == "ex" && e.Args[0].Args[0].Op == "rcall" && strings.HasPrefix(e.Args[0].Args[0].S, "decode") {
						return isConst(0), true
					}
					return nil, false
				}), init: func(a *Analysis, st *State) {
					st.rng[lenB.Key] = isRange(k, posInf)
					st.rng[modKey(st)] = isConst(0)
				}, forbid: mustAccept})
		case "aspath":
			cases = append(cases,
				asmCase{name: "empty AS_PATH => accepted", hook: valNN(0), init: lenIn(isConst(0)), forbid: func(rs retSite) string {
					if !isAccept(rs) {
						return "rejected"
					}
					return ""
				}},
				asmCase{name: "length 1..5 => rejected (3,5)", hook: valNN(0), init: lenIn(isRange(1, 5)), forbid: rejectWith(5)},
			)
		}
		c.runCases("C18.2 length-value-row", fnName, cases)
	}
	c.floor("C18.2 length-value-row", n, 11, "typed attribute decoders")
	c.asPathSegments("C18.2 as-path-segments", "C18.3 nothing-lost")
	c.setDecoders("C18.3 nothing-lost")
	c.ignoredErrorBeliefs("C18.3 discarded-error-belief", []string{"OriginPathAttr.Decode", "ASPathAttr.Decode", "NextHopPathAttr.Decode", "MEDPathAttr.Decode", "LocalPrefPathAttr.Decode", "AtomicAggregatePathAttr.Decode",
		"AggregatorPathAttr.Decode", "CommunitiesPathAttr.Decode", "OriginatorIDPathAttr.Decode", "ClusterListPathAttr.Decode", "LargeCommunitiesPathAttr.Decode"})
	c.checkBounds("C18.4", append(p.existing([]string{"decodeUint32Set", "decodeLargeCommunitySet"}), []string{"OriginPathAttr.Decode", "ASPathAttr.Decode", "NextHopPathAttr.Decode", "MEDPathAttr.Decode", "LocalPrefPathAttr.Decode", "AtomicAggregatePathAttr.Decode",
		"AggregatorPathAttr.Decode", "CommunitiesPathAttr.Decode", "OriginatorIDPathAttr.Decode", "ClusterListPathAttr.Decode", "LargeCommunitiesPathAttr.Decode",
		"notifDataForAttrBasedErr", "PathAttrFlags.Validate"}...), 30)
}

func (c *Check) flagAccessors(rule string) {
	p := c.P
	for _, ac := range []struct {
		name string
		mask int64
	}{{"Optional", 0x80}, {"Transitive", 0x40}, {"Partial", 0x20}, {"ExtendedLen", 0x10}} {
		fn := p.Fn("PathAttrFlags." + ac.name)
		if fn == nil {
			continue
		}
		recv := paramExpr(fn, 0)
		ok := true
		for _, v := range []int64{ac.mask, 0xFF ^ ac.mask, 0xFF, 0} {
			a := NewAnalysis(p, fn)
			a.AtomHook = rangeHook(func(e *Expr) bool { return e.Key == recv.Key }, isConst(v))
			a.Run()
			for _, r := range a.Returns {
				got, isC := r.State.evalBool(r.Results[0]).IsConst()
				if !isC || (got == 1) != (v&ac.mask != 0) {
					ok = false
				}
			}
			if len(a.Returns) == 0 {
				ok = false
			}
		}
		c.require(ok, rule, "PathAttrFlags."+ac.name, fmt.Sprintf("tests bit 0x%02x", ac.mask), p.Pos(fn.Pos()), "the accessor reports exactly its bit of the flags octet")
	}
}

func (c *Check) flagsValidate(rule string) {
	p := c.P
	fn := p.Fn("PathAttrFlags.Validate")
	if fn == nil || !c.sig(rule, fn, 5) {
		return
	}
	recv := paramExpr(fn, 0)
	for _, bits := range []int64{0x00, 0x40, 0x80, 0xC0} {
		for _, wo := range []int64{0, 1} {
			for _, wt := range []int64{0, 1} {
				a := NewAnalysis(p, fn)
				a.AtomHook = rangeHook(func(e *Expr) bool { return e.Key == recv.Key }, isConst(bits|0x10))
				a.Init = func(a *Analysis, st *State) {
					st.rng[paramExpr(fn, 3).Key] = isConst(wo)
					st.rng[paramExpr(fn, 4).Key] = isConst(wt)
				}
				a.Run()
				match := ((bits&0x80 != 0) == (wo == 1)) && ((bits&0x40 != 0) == (wt == 1))
				ok := len(a.Returns) > 0
				detail := ""
				for _, rs := range p.errReturns(a) {
					if match {
						if !isAccept(rs) {
							ok, detail = false, "matching flags rejected"
						}
						continue
					}
					good := rs.ec.Kind == "TreatAsWithdraw" && rs.ec.Notif != nil
					if good {
						cc, _ := rs.ec.Notif.Code.IsConst()
						ss, _ := rs.ec.Notif.Sub.IsConst()
						good = cc == 3 && ss == 4 && rs.ec.Code.SubsetOf(isRange(0, 255))
						d := rs.ec.Notif.Data
						good = good && d != nil && d.Op == "rcall" && d.S == "notifDataForAttrBasedErr"
					}
					if !good {
						ok, detail = false, "a flag conflict must yield treat-as-withdraw with fallback (3,4) and the attribute as data"
					}
				}
				c.require(ok, rule, "PathAttrFlags.Validate", fmt.Sprintf("flags=0x%02x wantOptional=%d wantTransitive=%d", bits, wo, wt), p.Pos(fn.Pos()), detail)
			}
		}
	}
}

// asPathSegments: per-segment rules and accumulation.
func (c *Check) asPathSegments(ruleV, ruleL string) {
	p := c.P
	fn := p.Fn("ASPathAttr.Decode")
	if fn == nil || !c.sig(ruleV, fn, 3) {
		return
	}
	isVal := func(e *Expr) bool {
		return e.Op == "nn" && e.Args[0].Op == "rcall" && e.Args[0].S == "PathAttrFlags.Validate"
	}
	segType := func(e *Expr) bool {
		if e.Op != "ld" || e.Args[0].Op != "ia" || e.Args[0].Args[0].Op != "phi" {
			return false
		}
		cv, isC := e.Args[0].Args[1].IsConst()
		return isC && cv == 0
	}
	segCount := func(e *Expr) bool {
		if e.Op != "ld" || e.Args[0].Op != "ia" || e.Args[0].Args[0].Op != "phi" {
			return false
		}
		cv, isC := e.Args[0].Args[1].IsConst()
		return isC && cv == 1
	}
	valOK := rangeHook(isVal, isConst(0))
	malformed := func(rs retSite) string {
		if isAccept(rs) {
			return "accepted"
		}
		if rs.ec.Kind != "TreatAsWithdraw" || rs.ec.Notif == nil {
			return "must be treat-as-withdraw; got " + rs.ec.Kind
		}
		ss, _ := rs.ec.Notif.Sub.IsConst()
		if ss != 11 && ss != 5 {
			return fmt.Sprintf("fallback subcode must be 11 (or 5); got %v", rs.ec.Notif.Sub)
		}
		return ""
	}
	nonEmpty := func(a *Analysis, st *State) { st.rng[mkLen(paramExpr(fn, 2)).Key] = isRange(6, posInf) }
	c.runCases(ruleV, "ASPathAttr.Decode", []asmCase{
		{name: "segment type not in {1,2} => malformed", hook: hooks(valOK, rangeHook(segType, isConst(0).Union(isRange(3, 255)))), init: nonEmpty, forbid: malformed, noBackEdge: true},
		{name: "segment length 0 => malformed", hook: hooks(valOK, rangeHook(segCount, isConst(0))), init: nonEmpty, forbid: malformed, noBackEdge: true},
	})
	// strict consumption: success only when nothing remains
	c.runCases(ruleV, "ASPathAttr.Decode", []asmCase{
		{name: "bytes remain after every segment => no success", hook: hooks(valOK, func(e *Expr) (ISet, bool) {
			// only lengths of the loop cursor (not of the parameter)
			if op, x, y, ok := cmpOf(e); ok {
				for _, s := range []*Expr{x, y} {
					if s.Op == "len" && !strings.Contains(s.Key, "phi:") {
						return nil, false
					}
				}
				_ = op
			}
			return lenAtLeastOneHook(e)
		}), init: nonEmpty, forbid: forbidAccept},
	})
	// a segment lands in the list of its own type: AS_SET (1) in ASSet,
	// AS_SEQUENCE (2) in ASSequence
	for _, k := range []struct {
		typ         int64
		want, other string
	}{{1, "ASSet", "ASSequence"}, {2, "ASSequence", "ASSet"}} {
		a := NewAnalysis(p, fn)
		a.AtomHook = hooks(valOK, rangeHook(segType, isConst(k.typ)))
		a.Init = nonEmpty
		a.Run()
		wrote, wrong := false, false
		for _, r := range a.Returns {
			if r.State.may["store:"+k.want] {
				wrote = true
			}
			if r.State.may["store:"+k.other] {
				wrong = true
			}
		}
		c.require(wrote && !wrong, ruleV, "ASPathAttr.Decode", fmt.Sprintf("segment type %d goes to %s", k.typ, k.want), p.Pos(fn.Pos()),
			"the AS numbers of a segment are appended to the list of that segment's type and to no other")
	}
	// accumulation: stores to ASSet / ASSequence inside the loop append to the previous value
	n := 0
	allInstrs(fn, func(in ssa.Instruction) {
		st, ok := in.(*ssa.Store)
		if !ok {
			return
		}
		fa, ok := st.Addr.(*ssa.FieldAddr)
		if !ok || (structFieldName(fa) != "ASSet" && structFieldName(fa) != "ASSequence") {
			return
		}
		if !inLoop(st.Block()) {
			return
		}
		n++
		okA := false
		if cl, isC := st.Val.(*ssa.Call); isC && p.calleeDesc(cl) == "builtin:append" {
			if ld, isL := cl.Call.Args[0].(*ssa.UnOp); isL {
				if fa2, isF := ld.X.(*ssa.FieldAddr); isF && structFieldName(fa2) == structFieldName(fa) {
					okA = true
				}
			}
		}
		c.require(okA, ruleL, "ASPathAttr.Decode", "segment stored into "+structFieldName(fa), p.InstrPos(in),
			"a segment's AS numbers are appended to what earlier segments of the same type contributed (an assignment would lose them)")
	})
	c.floor(ruleL, n, 2, "stores of decoded segments")
	// the segment handed to decodeUint32Set is exactly 4*count octets after the 2-octet header
	a := NewAnalysis(p, fn)
	a.Run()
	for _, cl := range p.callsIn(fn, descIs("decodeUint32Set")) {
		for _, st := range a.At[cl.(ssa.Instruction)] {
			args := a.argExprs(st, nil, cl.Common())
			root, lo, hi := sliceParts(args[0])
			ok := root.Op == "phi" && lo != nil && hi != nil
			if ok {
				l, h := st.linOf(lo), st.linOf(hi)
				d := h.add(l, -1)
				ok = l.key() == linConst(2).key() && len(d.T) == 1 && d.C == 0
				for k, coef := range d.T {
					if coef != 4 || !segCount(d.E[k]) {
						ok = false
					}
				}
			}
			c.require(ok, ruleL, "ASPathAttr.Decode", "segment slice", p.InstrPos(cl.(ssa.Instruction)), "a segment's numbers are cursor[2 : 2+4*count]; got "+trunc(args[0].Key, 80))
		}
	}
}

// setDecoders: uint32 / large-community / cluster-list loops consume the
// whole value in fixed steps and append every element.
func (c *Check) setDecoders(rule string) {
	p := c.P
	for _, s := range []struct {
		fn   string
		step int64
	}{{"decodeUint32Set", 4}, {"decodeLargeCommunitySet", 12}, {"ClusterListPathAttr.Decode", 4}} {
		// an unexported set helper may have been inlined into its only
		// decoder: the element loop is then looked for there
		if !p.HasFn(s.fn) {
			switch s.fn {
			case "decodeLargeCommunitySet":
				s.fn = "LargeCommunitiesPathAttr.Decode"
			case "decodeUint32Set":
				s.fn = "CommunitiesPathAttr.Decode"
			}
		}
		fn := p.Fn(s.fn)
		if fn == nil {
			continue
		}
		apps := p.callsIn(fn, descIs("builtin:append"))
		okA := len(apps) == 1 && inLoop(apps[0].Block()) && everyIteration(apps[0].(ssa.Instruction))
		adv := elementLoopAdvance(fn, s.step)
		if !(okA && adv) && len(apps) == 0 && inPlaceElementLoop(fn, s.step) {
			okA, adv = true, true
		}
		// unconditional append: the append's block dominates the back edge
		c.require(okA && adv, rule, s.fn, "element loop", p.Pos(fn.Pos()), fmt.Sprintf("one unconditional append per %d-octet element, cursor advances by %d", s.step, s.step))
		// the loop runs until nothing is left: with a field of k*step octets
		// every successful return is reached with an empty cursor
		var cursor *ssa.Phi
		for _, b := range fn.Blocks {
			for _, in := range b.Instrs {
				phi, ok := in.(*ssa.Phi)
				if !ok {
					break
				}
				if sl, isSlice := phi.Type().Underlying().(*types.Slice); !isSlice || !inLoopLocal(b) || typeKey(sl.Elem()) != "byte" && typeKey(sl.Elem()) != "uint8" {
					continue
				}
				for i, e := range phi.Edges {
					if b.Dominates(b.Preds[i]) {
						if x, isS := e.(*ssa.Slice); isS && x.X == ssa.Value(phi) {
							cursor = phi
						}
					}
				}
			}
		}
		if cursor != nil {
			var bp *ssa.Parameter
			for i, e := range cursor.Edges {
				if !cursor.Block().Dominates(cursor.Block().Preds[i]) {
					bp, _ = e.(*ssa.Parameter)
				}
			}
			if bp != nil {
				a := NewAnalysis(p, fn)
				bE := mkLeaf("param", bp.Name(), bp.Type())
				modKey := mkBin(token.REM, mkLen(bE), mkConst(s.step, intT), intT, intT).Key
				a.Init = func(a *Analysis, st *State) {
					st.rng[mkLen(bE).Key] = isRange(s.step, posInf)
					st.rng[modKey] = isConst(0)
				}
				a.Run()
				leaf := mkLeaf("phi", cursor.Name(), cursor.Type())
				okE, nret := true, 0
				for _, r := range a.Returns {
					if len(r.Results) == 0 || !r.Results[len(r.Results)-1].IsNil() {
						continue
					}
					nret++
					if v, isC := r.State.rangeOf(mkLen(leaf)).IsConst(); !isC || v != 0 {
						okE = false
					}
				}
				c.require(okE && nret > 0, rule, s.fn, "whole field consumed", p.Pos(fn.Pos()),
					fmt.Sprintf("for a field of k*%d octets the element loop ends only when nothing is left (no element is dropped)", s.step))
				// and a set helper (value, error) has no other way to fail: a
				// field of k*step octets is accepted
				if fn.Signature.Results().Len() == 2 && len(fn.Params) == 1 {
					okAcc := len(a.Returns) > 0
					for _, r := range a.Returns {
						if !r.Results[len(r.Results)-1].IsNil() {
							if v, isC := r.State.nonNil(r.Results[len(r.Results)-1]).IsConst(); !isC || v != 0 {
								okAcc = false
							}
						}
					}
					c.require(okAcc, rule, s.fn, "well-formed field accepted", p.Pos(fn.Pos()),
						fmt.Sprintf("a field of k*%d octets (k >= 1) is decoded without error: the helper's own length test agrees with its stride", s.step))
				}
			}
		}
	}
}

// ignoredErrorBeliefs: a decoder that discards the error of a helper states a
// belief -- "under the checks I already made this cannot fail". The belief is
// checked where it is stated: the helper is analysed in the caller's context
// (arguments and the caller's branch facts bound) and every state after the
// call must have a provably nil error. If the helper grows a new failure the
// caller does not exclude, the caller silently succeeds with an empty value
// (a well-formed attribute "loses" its communities).
func (c *Check) ignoredErrorBeliefs(rule string, fns []string) {
	p := c.P
	n := 0
	for _, name := range fns {
		fn := p.Fn(name)
		if fn == nil {
			continue
		}
		var sites []*ssa.Call
		allInstrs(fn, func(in ssa.Instruction) {
			call, ok := in.(*ssa.Call)
			if !ok {
				return
			}
			callee := p.staticLocalCallee(call)
			if callee == nil {
				return
			}
			tup, ok := call.Type().(*types.Tuple)
			if !ok || tup.Len() < 2 || tup.At(tup.Len()-1).Type().String() != "error" {
				return
			}
			used := false
			for _, r := range *call.Referrers() {
				if ex, ok := r.(*ssa.Extract); ok && ex.Index == tup.Len()-1 && len(*ex.Referrers()) > 0 {
					used = true
				}
			}
			if !used {
				sites = append(sites, call)
			}
		})
		for _, call := range sites {
			n++
			callee := p.staticLocalCallee(call)
			a := NewAnalysis(p, fn)
			a.ForceInline = map[string]bool{p.Name(callee): true}
			a.Run()
			// the instruction after the call
			blk := call.Block()
			var next ssa.Instruction
			for i, in := range blk.Instrs {
				if in == ssa.Instruction(call) && i+1 < len(blk.Instrs) {
					next = blk.Instrs[i+1]
				}
			}
			ok := next != nil && len(a.At[next]) > 0
			detail := ""
			if ok {
				for _, st := range a.At[next] {
					t := a.ExprAt(st, call)
					if t == nil || t.Op != "tuple" || len(t.Args) < 2 {
						ok, detail = false, "the helper could not be analysed in the caller's context ("+trunc(fmt.Sprint(t), 60)+")"
						break
					}
					if v, isC := st.nonNil(t.Args[len(t.Args)-1]).IsConst(); !isC || v != 0 {
						ok, detail = false, "under the caller's checks the helper can still return the error "+trunc(t.Args[len(t.Args)-1].Key, 80)
					}
				}
			}
			if len(a.Undecided) > 0 {
				c.undecided(rule, name, "discarded error of "+p.Name(callee), p.InstrPos(call), a.Undecided[0])
				continue
			}
			c.require(ok, rule, name, "discarded error of "+p.Name(callee), p.InstrPos(call),
				"the error result is discarded, so the helper must be unable to fail under the checks already made by the caller "+detail)
		}
	}
	if n == 0 {
		c.ok(rule, "", "call sites that discard a helper's error", "-", "no decoder discards a local helper's error on this tree")
	}
	// the same belief about the library: netip.AddrFromSlice(x) with its ok
	// result discarded yields the zero Addr unless len(x) is 4 or 16
	for _, name := range fns {
		fn := p.Fn(name)
		if fn == nil {
			continue
		}
		var sites []*ssa.Call
		allInstrs(fn, func(in ssa.Instruction) {
			call, ok := in.(*ssa.Call)
			if !ok || p.calleeDesc(call) != "netip.AddrFromSlice" {
				return
			}
			used := false
			for _, r := range *call.Referrers() {
				if ex, ok := r.(*ssa.Extract); ok && ex.Index == 1 && len(*ex.Referrers()) > 0 {
					used = true
				}
			}
			if !used {
				sites = append(sites, call)
			}
		})
		if len(sites) == 0 {
			continue
		}
		a := NewAnalysis(p, fn)
		a.Run()
		for _, call := range sites {
			for _, st := range a.At[call] {
				args := a.argExprs(st, nil, call.Common())
				r := st.rangeOf(mkLen(args[0]))
				c.require(r.SubsetOf(isConst(4).Union(isConst(16))), rule, name, "discarded ok of netip.AddrFromSlice", p.InstrPos(call),
					"the slice handed over has length "+r.String()+"; only 4 or 16 octets make an address (anything else silently becomes the zero Addr)")
			}
		}
	}
}
