package main

// Engine O (part 1): control-flow utilities on go/ssa basic blocks —
// dominance, post-dominance, loops, instruction-level path search.

import (
	"go/token"
	"golang.org/x/tools/go/ssa"
)

// instrIndex returns the index of in within its block.
func instrIndex(in ssa.Instruction) int {
	for i, x := range in.Block().Instrs {
		if x == in {
			return i
		}
	}
	return -1
}

// instrDominates reports whether a is executed before b on every path that
// reaches b (same function).
func instrDominates(a, b ssa.Instruction) bool {
	if a.Parent() != b.Parent() {
		return liftedDominates(a, b)
	}
	if a.Block() == b.Block() {
		return instrIndex(a) <= instrIndex(b)
	}
	return a.Block().Dominates(b.Block())
}

// liftedDominates: a and b live in different functions related by calls of
// helpers (deepview.go). a dominates b when, in every common enclosing
// function through which b is reached, a representative of a dominates the
// representative of b, and a is executed on every normal path through the
// helpers between it and that representative.
func liftedDominates(a, b ssa.Instruction) bool {
	if curProg == nil {
		return false
	}
	pairs := curProg.liftPairs(a, b)
	if len(pairs) == 0 {
		return false
	}
	// group by b's chain: each way of reaching b needs a dominating a
	okFor := map[string]bool{}
	keyOf := func(lc liftChain) string {
		k := ""
		for _, s := range lc.sites {
			k += s.Parent().String() + "@" + s.Block().String() + "/" + itoa(instrIndex(s)) + ";"
		}
		return k
	}
	for _, pr := range pairs {
		kb := keyOf(pr.cb)
		if _, seen := okFor[kb]; !seen {
			okFor[kb] = false
		}
		ra, rb := pr.ca.sites[pr.ia], pr.cb.sites[pr.ib]
		if ra == rb {
			continue
		}
		if !pr.ca.mustThrough(pr.ia) {
			continue
		}
		if ra.Block() == rb.Block() && instrIndex(ra) < instrIndex(rb) || ra.Block() != rb.Block() && ra.Block().Dominates(rb.Block()) {
			okFor[kb] = true
		}
	}
	// only maximal chains of b matter (prefixes are partial views); accept when
	// every maximal chain that has a common function with a is dominated
	any := false
	for _, cb := range curProg.chains(b) {
		// maximal: its top function is not an inlinable helper with sites
		top := cb.fn(len(cb.sites) - 1)
		if curProg.inlinableHelper(top) && len(curProg.helperSites(top)) > 0 && len(cb.sites) <= maxHelperDepth {
			continue
		}
		v, has := okFor[keyOf(cb)]
		if !has {
			continue
		}
		if !v {
			return false
		}
		any = true
	}
	return any
}

func itoa(i int) string {
	if i < 0 {
		return "-"
	}
	if i == 0 {
		return "0"
	}
	s := ""
	for i > 0 {
		s = string(rune('0'+i%10)) + s
		i /= 10
	}
	return s
}

// isExit reports whether block b ends the function (return or panic).
func isExit(b *ssa.BasicBlock) bool {
	if len(b.Instrs) == 0 {
		return false
	}
	switch b.Instrs[len(b.Instrs)-1].(type) {
	case *ssa.Return, *ssa.Panic:
		return true
	}
	return false
}

func isReturnBlock(b *ssa.BasicBlock) bool {
	if len(b.Instrs) == 0 {
		return false
	}
	_, ok := b.Instrs[len(b.Instrs)-1].(*ssa.Return)
	return ok
}

// postDom holds post-dominator sets for a function, computed on the CFG
// restricted to blocks reachable from the entry, with a virtual exit that
// every return block flows to. Panic blocks are ignored (they do not reach
// the virtual exit): "on every path to a normal return".
type postDom struct {
	fn  *ssa.Function
	pd  []map[int]bool // pd[b] = set of blocks that post-dominate b (incl. b)
	toX []bool         // block can reach a return
}

var pdCache = map[*ssa.Function]*postDom{}

func newPostDom(fn *ssa.Function) *postDom {
	if pd, ok := pdCache[fn]; ok {
		return pd
	}
	pd := buildPostDom(fn)
	pdCache[fn] = pd
	return pd
}

func buildPostDom(fn *ssa.Function) *postDom {
	n := len(fn.Blocks)
	p := &postDom{fn: fn, pd: make([]map[int]bool, n), toX: make([]bool, n)}
	// blocks that can reach a return
	changed := true
	for _, b := range fn.Blocks {
		if isReturnBlock(b) {
			p.toX[b.Index] = true
		}
	}
	for changed {
		changed = false
		for _, b := range fn.Blocks {
			if p.toX[b.Index] {
				continue
			}
			for _, s := range b.Succs {
				if p.toX[s.Index] {
					p.toX[b.Index] = true
					changed = true
					break
				}
			}
		}
	}
	all := map[int]bool{}
	for _, b := range fn.Blocks {
		all[b.Index] = true
	}
	for _, b := range fn.Blocks {
		if isReturnBlock(b) {
			p.pd[b.Index] = map[int]bool{b.Index: true}
		} else {
			m := map[int]bool{}
			for k := range all {
				m[k] = true
			}
			p.pd[b.Index] = m
		}
	}
	changed = true
	for changed {
		changed = false
		for i := n - 1; i >= 0; i-- {
			b := fn.Blocks[i]
			if isReturnBlock(b) || !p.toX[b.Index] {
				continue
			}
			var inter map[int]bool
			for _, s := range b.Succs {
				if !p.toX[s.Index] {
					continue // paths that never return are not constrained
				}
				if inter == nil {
					inter = map[int]bool{}
					for k := range p.pd[s.Index] {
						inter[k] = true
					}
				} else {
					for k := range inter {
						if !p.pd[s.Index][k] {
							delete(inter, k)
						}
					}
				}
			}
			if inter == nil {
				inter = map[int]bool{}
			}
			inter[b.Index] = true
			if len(inter) != len(p.pd[b.Index]) {
				p.pd[b.Index] = inter
				changed = true
			}
		}
	}
	return p
}

// blockPostDominates reports whether every path from b to a return passes a.
func (p *postDom) blockPostDominates(a, b *ssa.BasicBlock) bool {
	if !p.toX[b.Index] {
		return false
	}
	return p.pd[b.Index][a.Index]
}

// instrPostDominates: every path from b to a normal return executes a
// (after b).
func (p *postDom) instrPostDominates(a, b ssa.Instruction) bool {
	if a.Parent() != p.fn || b.Parent() != p.fn {
		if a.Parent() == b.Parent() {
			return newPostDom(a.Parent()).instrPostDominates(a, b)
		}
		// lift both into p.fn
		for _, ca := range curProg.chains(a) {
			ia := len(ca.sites) - 1
			if ca.fn(ia) != p.fn || !ca.mustThrough(ia) {
				continue
			}
			okAll, anyB := true, false
			for _, cb := range curProg.chains(b) {
				ib := len(cb.sites) - 1
				if cb.fn(ib) != p.fn {
					continue
				}
				anyB = true
				if ca.sites[ia] == cb.sites[ib] || !p.instrPostDominates(ca.sites[ia], cb.sites[ib]) {
					okAll = false
				}
			}
			if anyB && okAll {
				return true
			}
		}
		return false
	}
	if a.Block() == b.Block() {
		return instrIndex(a) >= instrIndex(b)
	}
	return p.blockPostDominates(a.Block(), b.Block())
}

// onEveryReturnPath reports whether instruction a is executed on every path
// from the function entry to a normal return.
func (p *postDom) onEveryReturnPath(a ssa.Instruction) bool {
	if a.Parent() != p.fn && curProg != nil {
		for _, ca := range curProg.chains(a) {
			ia := len(ca.sites) - 1
			if ca.fn(ia) == p.fn && ca.mustThrough(ia) && p.onEveryReturnPathLocal(ca.sites[ia]) {
				return true
			}
		}
		return false
	}
	return p.onEveryReturnPathLocal(a)
}

func (p *postDom) onEveryReturnPathLocal(a ssa.Instruction) bool {
	if a.Parent() != p.fn {
		return false
	}
	return p.blockPostDominates(a.Block(), p.fn.Blocks[0])
}

// inLoop reports whether block b lies on a cycle of the CFG.
func inLoop(b *ssa.BasicBlock) bool { return inLoopDepth(b, 0) }

func inLoopDepth(b *ssa.BasicBlock, depth int) bool {
	if inLoopLocal(b) {
		return true
	}
	// a function a helper calls through a parameter: in a loop when that call is
	if depth < maxHelperDepth && curProg != nil {
		for _, ve := range curProg.valueEntries(b.Parent()) {
			if inLoopLocal(ve.call.Block()) || inLoopDepth(ve.site.Block(), depth+2) {
				return true
			}
		}
	}
	// a helper's block is in a loop when some call site of the helper is
	if depth < maxHelperDepth && curProg != nil && curProg.inlinableHelper(b.Parent()) {
		for _, s := range curProg.helperSites(b.Parent()) {
			if s.Parent() != b.Parent() && inLoopDepth(s.Block(), depth+1) {
				return true
			}
		}
	}
	return false
}

func inLoopLocal(b *ssa.BasicBlock) bool {
	seen := map[*ssa.BasicBlock]bool{}
	var stack []*ssa.BasicBlock
	stack = append(stack, b.Succs...)
	for len(stack) > 0 {
		x := stack[len(stack)-1]
		stack = stack[:len(stack)-1]
		if x == b {
			return true
		}
		if seen[x] {
			continue
		}
		seen[x] = true
		stack = append(stack, x.Succs...)
	}
	return false
}

// reachableBlocks returns the blocks reachable from b (b included only if on
// a cycle or includeSelf).
func reachableBlocks(b *ssa.BasicBlock, includeSelf bool) map[*ssa.BasicBlock]bool {
	seen := map[*ssa.BasicBlock]bool{}
	if includeSelf {
		seen[b] = true
	}
	stack := append([]*ssa.BasicBlock{}, b.Succs...)
	for len(stack) > 0 {
		x := stack[len(stack)-1]
		stack = stack[:len(stack)-1]
		if seen[x] {
			continue
		}
		seen[x] = true
		stack = append(stack, x.Succs...)
	}
	return seen
}

// pathSearch walks the instruction-level CFG forward from just after `start`
// (or from the function entry when start is nil). It never walks through an
// instruction for which block() is true. It returns the first instruction for
// which target() is true that is reachable that way, or nil.
func pathSearch(fn *ssa.Function, start ssa.Instruction, target, block func(ssa.Instruction) bool) ssa.Instruction {
	type pos struct {
		b     *ssa.BasicBlock
		i     int
		stack string            // rendered call stack (for the visited set)
		rets  []ssa.Instruction // call instructions to return to (innermost last)
	}
	render := func(rets []ssa.Instruction) string {
		s := ""
		for _, r := range rets {
			s += r.Parent().String() + ":" + r.Block().String() + "/" + itoa(instrIndex(r)) + ";"
		}
		return s
	}
	var work []pos
	if start == nil {
		if len(fn.Blocks) == 0 {
			return nil
		}
		work = append(work, pos{b: fn.Blocks[0]})
	} else if start.Parent() == fn || curProg == nil {
		work = append(work, pos{b: start.Block(), i: instrIndex(start) + 1})
	} else {
		// start lives in a helper: continue in the callers after the helper returns
		pushed := false
		for _, ch := range curProg.chains(start) {
			top := len(ch.sites) - 1
			if ch.fn(top) != fn {
				continue
			}
			var rets []ssa.Instruction
			for k := top; k >= 1; k-- {
				rets = append(rets, ch.sites[k])
			}
			work = append(work, pos{b: start.Block(), i: instrIndex(start) + 1, rets: rets, stack: render(rets)})
			pushed = true
		}
		if !pushed {
			work = append(work, pos{b: start.Block(), i: instrIndex(start) + 1})
		}
	}
	seen := map[string]bool{}
	if curProg != nil {
		savedCtx := curProg.ctx
		defer func() { curProg.ctx = savedCtx }()
	}
	for len(work) > 0 {
		p := work[len(work)-1]
		work = work[:len(work)-1]
		if curProg != nil {
			curProg.ctx = p.rets // the virtual call stack here
		}
		stopped := false
		for i := p.i; i < len(p.b.Instrs); i++ {
			in := p.b.Instrs[i]
			if target != nil && target(in) {
				return in
			}
			if block != nil && block(in) {
				stopped = true
				break
			}
			if len(p.rets) < maxHelperDepth {
				if h := curProg.helperCallee(in); h != nil && h != in.Parent() {
					rec := false
					for _, r := range p.rets {
						if r.Parent() == h {
							rec = true
						}
					}
					if !rec {
						rets := append(append([]ssa.Instruction{}, p.rets...), in)
						k := render(rets) + "|" + h.Blocks[0].String()
						if !seen[k] {
							seen[k] = true
							work = append(work, pos{b: h.Blocks[0], rets: rets, stack: render(rets)})
						}
						stopped = true // continuation happens at the helper's returns
						break
					}
				}
			}
			if _, isRet := in.(*ssa.Return); isRet && len(p.rets) > 0 {
				call := p.rets[len(p.rets)-1]
				rets := p.rets[:len(p.rets)-1]
				k := render(rets) + "|after:" + call.Block().String() + "/" + itoa(instrIndex(call))
				if !seen[k] {
					seen[k] = true
					work = append(work, pos{b: call.Block(), i: instrIndex(call) + 1, rets: rets, stack: render(rets)})
				}
				stopped = true
				break
			}
		}
		if stopped {
			continue
		}
		for _, s := range p.b.Succs {
			k := p.stack + "|" + s.Parent().String() + ":" + s.String()
			if !seen[k] {
				seen[k] = true
				work = append(work, pos{b: s, rets: p.rets, stack: p.stack})
			}
		}
	}
	return nil
}

// edgeDominates reports whether every path from the entry to block b passes
// through the CFG edge from -> to.
func edgeDominates(from, to, b *ssa.BasicBlock) bool {
	// search from entry to b without using the edge
	fn := from.Parent()
	seen := map[*ssa.BasicBlock]bool{}
	stack := []*ssa.BasicBlock{fn.Blocks[0]}
	for len(stack) > 0 {
		x := stack[len(stack)-1]
		stack = stack[:len(stack)-1]
		if seen[x] {
			continue
		}
		seen[x] = true
		if x == b {
			return false
		}
		for _, s := range x.Succs {
			if x == from && s == to {
				continue
			}
			stack = append(stack, s)
		}
	}
	return true
}

// allInstrs calls f for every instruction of fn.
func allInstrs(fn *ssa.Function, f func(ssa.Instruction)) {
	if curProg != nil {
		deepInstrs(fn, f)
		return
	}
	ownInstrs(fn, f)
}

// ownInstrs calls f for the instructions of fn itself only.
func ownInstrs(fn *ssa.Function, f func(ssa.Instruction)) {
	for _, b := range fn.Blocks {
		for _, in := range b.Instrs {
			f(in)
		}
	}
}

// withAnon returns fn and all its (transitively) nested anonymous functions.
func withAnon(fn *ssa.Function) []*ssa.Function {
	out := []*ssa.Function{fn}
	for _, a := range fn.AnonFuncs {
		out = append(out, withAnon(a)...)
	}
	return out
}

// selectCaseBlock returns the block entered when case k of sel fires.
func selectCaseBlock(sel *ssa.Select, k int) *ssa.BasicBlock {
	for _, r := range *sel.Referrers() {
		ex, ok := r.(*ssa.Extract)
		if !ok || ex.Index != 0 {
			continue
		}
		for _, rr := range *ex.Referrers() {
			bo, ok := rr.(*ssa.BinOp)
			if !ok || bo.Op != token.EQL {
				continue
			}
			cst, ok := bo.Y.(*ssa.Const)
			if !ok || cst.Value == nil || cst.Int64() != int64(k) {
				continue
			}
			for _, u := range *bo.Referrers() {
				if iff, ok := u.(*ssa.If); ok {
					return iff.Block().Succs[0]
				}
			}
		}
	}
	return nil
}

// loopHeadLocal returns the header of the innermost natural loop of b's own
// function that contains b, or nil.
func loopHeadLocal(b *ssa.BasicBlock) *ssa.BasicBlock {
	var best *ssa.BasicBlock
	for _, h := range b.Parent().Blocks {
		if !h.Dominates(b) {
			continue
		}
		isHead := false
		for _, pr := range h.Preds {
			if h.Dominates(pr) && (pr == b || reachableBlocks(b, true)[pr]) {
				isHead = true
			}
		}
		if !isHead {
			continue
		}
		if best == nil || best.Dominates(h) {
			best = h
		}
	}
	return best
}

// everyIteration: the instruction is executed on every iteration of the
// innermost loop around it that runs to its back edge (an exit from the loop
// -- return, break -- is not an iteration that skipped it; a `continue` past
// it is). An instruction of a helper, or of a function the helper was given,
// counts through its call when it lies on every path to that function's
// return.
func everyIteration(in ssa.Instruction) bool {
	local := func(b *ssa.BasicBlock) (bool, bool) {
		h := loopHeadLocal(b)
		if h == nil {
			return false, false
		}
		for _, pr := range h.Preds {
			if h.Dominates(pr) && !b.Dominates(pr) {
				return true, false
			}
		}
		return true, true
	}
	if inL, ok := local(in.Block()); inL {
		return ok
	}
	if curProg == nil {
		return false
	}
	for _, ch := range curProg.chains(in) {
		for k := 1; k < len(ch.sites); k++ {
			if !ch.mustThrough(k) {
				break
			}
			if inL, ok := local(ch.sites[k].Block()); inL {
				if ok {
					return true
				}
				break
			}
		}
	}
	return false
}
