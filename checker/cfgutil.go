package main

// Engine O (part 1): control-flow utilities on go/ssa basic blocks —
// dominance, post-dominance, loops, instruction-level path search.

import (
	"go/token"
	"golang.org/x/tools/go/ssa"
)

// instrIndex returns the index of in within its block.
func instrIndex(in ssa.Instruction) int {
	for i, x := range in.Block().Instrs {
		if x == in {
			return i
		}
	}
	return -1
}

// instrDominates reports whether a is executed before b on every path that
// reaches b (same function).
func instrDominates(a, b ssa.Instruction) bool {
	if a.Parent() != b.Parent() {
		return false
	}
	if a.Block() == b.Block() {
		return instrIndex(a) <= instrIndex(b)
	}
	return a.Block().Dominates(b.Block())
}

// isExit reports whether block b ends the function (return or panic).
func isExit(b *ssa.BasicBlock) bool {
	if len(b.Instrs) == 0 {
		return false
	}
	switch b.Instrs[len(b.Instrs)-1].(type) {
	case *ssa.Return, *ssa.Panic:
		return true
	}
	return false
}

func isReturnBlock(b *ssa.BasicBlock) bool {
	if len(b.Instrs) == 0 {
		return false
	}
	_, ok := b.Instrs[len(b.Instrs)-1].(*ssa.Return)
	return ok
}

// postDom holds post-dominator sets for a function, computed on the CFG
// restricted to blocks reachable from the entry, with a virtual exit that
// every return block flows to. Panic blocks are ignored (they do not reach
// the virtual exit): "on every path to a normal return".
type postDom struct {
	fn  *ssa.Function
	pd  []map[int]bool // pd[b] = set of blocks that post-dominate b (incl. b)
	toX []bool         // block can reach a return
}

func newPostDom(fn *ssa.Function) *postDom {
	n := len(fn.Blocks)
	p := &postDom{fn: fn, pd: make([]map[int]bool, n), toX: make([]bool, n)}
	// blocks that can reach a return
	changed := true
	for _, b := range fn.Blocks {
		if isReturnBlock(b) {
			p.toX[b.Index] = true
		}
	}
	for changed {
		changed = false
		for _, b := range fn.Blocks {
			if p.toX[b.Index] {
				continue
			}
			for _, s := range b.Succs {
				if p.toX[s.Index] {
					p.toX[b.Index] = true
					changed = true
					break
				}
			}
		}
	}
	all := map[int]bool{}
	for _, b := range fn.Blocks {
		all[b.Index] = true
	}
	for _, b := range fn.Blocks {
		if isReturnBlock(b) {
			p.pd[b.Index] = map[int]bool{b.Index: true}
		} else {
			m := map[int]bool{}
			for k := range all {
				m[k] = true
			}
			p.pd[b.Index] = m
		}
	}
	changed = true
	for changed {
		changed = false
		for i := n - 1; i >= 0; i-- {
			b := fn.Blocks[i]
			if isReturnBlock(b) || !p.toX[b.Index] {
				continue
			}
			var inter map[int]bool
			for _, s := range b.Succs {
				if !p.toX[s.Index] {
					continue // paths that never return are not constrained
				}
				if inter == nil {
					inter = map[int]bool{}
					for k := range p.pd[s.Index] {
						inter[k] = true
					}
				} else {
					for k := range inter {
						if !p.pd[s.Index][k] {
							delete(inter, k)
						}
					}
				}
			}
			if inter == nil {
				inter = map[int]bool{}
			}
			inter[b.Index] = true
			if len(inter) != len(p.pd[b.Index]) {
				p.pd[b.Index] = inter
				changed = true
			}
		}
	}
	return p
}

// blockPostDominates reports whether every path from b to a return passes a.
func (p *postDom) blockPostDominates(a, b *ssa.BasicBlock) bool {
	if !p.toX[b.Index] {
		return false
	}
	return p.pd[b.Index][a.Index]
}

// instrPostDominates: every path from b to a normal return executes a
// (after b).
func (p *postDom) instrPostDominates(a, b ssa.Instruction) bool {
	if a.Block() == b.Block() {
		return instrIndex(a) >= instrIndex(b)
	}
	return p.blockPostDominates(a.Block(), b.Block())
}

// onEveryReturnPath reports whether instruction a is executed on every path
// from the function entry to a normal return.
func (p *postDom) onEveryReturnPath(a ssa.Instruction) bool {
	return p.blockPostDominates(a.Block(), p.fn.Blocks[0])
}

// inLoop reports whether block b lies on a cycle of the CFG.
func inLoop(b *ssa.BasicBlock) bool {
	seen := map[*ssa.BasicBlock]bool{}
	var stack []*ssa.BasicBlock
	stack = append(stack, b.Succs...)
	for len(stack) > 0 {
		x := stack[len(stack)-1]
		stack = stack[:len(stack)-1]
		if x == b {
			return true
		}
		if seen[x] {
			continue
		}
		seen[x] = true
		stack = append(stack, x.Succs...)
	}
	return false
}

// reachableBlocks returns the blocks reachable from b (b included only if on
// a cycle or includeSelf).
func reachableBlocks(b *ssa.BasicBlock, includeSelf bool) map[*ssa.BasicBlock]bool {
	seen := map[*ssa.BasicBlock]bool{}
	if includeSelf {
		seen[b] = true
	}
	stack := append([]*ssa.BasicBlock{}, b.Succs...)
	for len(stack) > 0 {
		x := stack[len(stack)-1]
		stack = stack[:len(stack)-1]
		if seen[x] {
			continue
		}
		seen[x] = true
		stack = append(stack, x.Succs...)
	}
	return seen
}

// pathSearch walks the instruction-level CFG forward from just after `start`
// (or from the function entry when start is nil). It never walks through an
// instruction for which block() is true. It returns the first instruction for
// which target() is true that is reachable that way, or nil.
func pathSearch(fn *ssa.Function, start ssa.Instruction, target, block func(ssa.Instruction) bool) ssa.Instruction {
	type pos struct {
		b *ssa.BasicBlock
		i int
	}
	var work []pos
	if start == nil {
		if len(fn.Blocks) == 0 {
			return nil
		}
		work = append(work, pos{fn.Blocks[0], 0})
	} else {
		work = append(work, pos{start.Block(), instrIndex(start) + 1})
	}
	seenBlockStart := map[*ssa.BasicBlock]bool{}
	for len(work) > 0 {
		p := work[len(work)-1]
		work = work[:len(work)-1]
		blocked := false
		for i := p.i; i < len(p.b.Instrs); i++ {
			in := p.b.Instrs[i]
			if target != nil && target(in) {
				return in
			}
			if block != nil && block(in) {
				blocked = true
				break
			}
		}
		if blocked {
			continue
		}
		for _, s := range p.b.Succs {
			if !seenBlockStart[s] {
				seenBlockStart[s] = true
				work = append(work, pos{s, 0})
			}
		}
	}
	return nil
}

// edgeDominates reports whether every path from the entry to block b passes
// through the CFG edge from -> to.
func edgeDominates(from, to, b *ssa.BasicBlock) bool {
	// search from entry to b without using the edge
	fn := from.Parent()
	seen := map[*ssa.BasicBlock]bool{}
	stack := []*ssa.BasicBlock{fn.Blocks[0]}
	for len(stack) > 0 {
		x := stack[len(stack)-1]
		stack = stack[:len(stack)-1]
		if seen[x] {
			continue
		}
		seen[x] = true
		if x == b {
			return false
		}
		for _, s := range x.Succs {
			if x == from && s == to {
				continue
			}
			stack = append(stack, s)
		}
	}
	return true
}

// allInstrs calls f for every instruction of fn.
func allInstrs(fn *ssa.Function, f func(ssa.Instruction)) {
	for _, b := range fn.Blocks {
		for _, in := range b.Instrs {
			f(in)
		}
	}
}

// withAnon returns fn and all its (transitively) nested anonymous functions.
func withAnon(fn *ssa.Function) []*ssa.Function {
	out := []*ssa.Function{fn}
	for _, a := range fn.AnonFuncs {
		out = append(out, withAnon(a)...)
	}
	return out
}

// selectCaseBlock returns the block entered when case k of sel fires.
func selectCaseBlock(sel *ssa.Select, k int) *ssa.BasicBlock {
	for _, r := range *sel.Referrers() {
		ex, ok := r.(*ssa.Extract)
		if !ok || ex.Index != 0 {
			continue
		}
		for _, rr := range *ex.Referrers() {
			bo, ok := rr.(*ssa.BinOp)
			if !ok || bo.Op != token.EQL {
				continue
			}
			cst, ok := bo.Y.(*ssa.Const)
			if !ok || cst.Value == nil || cst.Int64() != int64(k) {
				continue
			}
			for _, u := range *bo.Referrers() {
				if iff, ok := u.(*ssa.If); ok {
					return iff.Block().Succs[0]
				}
			}
		}
	}
	return nil
}
