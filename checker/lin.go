package main

// Engine V (part 2): linear forms over atoms and the small implication
// prover used for relational facts (len(b) >= int(l)+2, id < remoteID, ...).

import (
	"fmt"
	"sort"
	"strings"
)

// Lin is sum(T[k]*atom_k) + C over the mathematical integers.
type Lin struct {
	T map[string]int64
	E map[string]*Expr
	C int64
}

func linConst(c int64) Lin { return Lin{T: map[string]int64{}, E: map[string]*Expr{}, C: c} }
func linAtom(e *Expr) Lin {
	return Lin{T: map[string]int64{e.Key: 1}, E: map[string]*Expr{e.Key: e}, C: 0}
}

func (l Lin) clone() Lin {
	n := Lin{T: make(map[string]int64, len(l.T)), E: make(map[string]*Expr, len(l.E)), C: l.C}
	for k, v := range l.T {
		n.T[k] = v
		n.E[k] = l.E[k]
	}
	return n
}

func (l Lin) add(m Lin, scale int64) Lin {
	n := l.clone()
	for k, v := range m.T {
		n.T[k] += v * scale
		n.E[k] = m.E[k]
		if n.T[k] == 0 {
			delete(n.T, k)
			delete(n.E, k)
		}
	}
	n.C += m.C * scale
	return n
}

func (l Lin) scale(c int64) Lin {
	n := linConst(l.C * c)
	if c == 0 {
		return n
	}
	for k, v := range l.T {
		n.T[k] = v * c
		n.E[k] = l.E[k]
	}
	return n
}

func (l Lin) neg() Lin { return l.scale(-1) }

func (l Lin) isConst() (int64, bool) {
	if len(l.T) == 0 {
		return l.C, true
	}
	return 0, false
}

func (l Lin) key() string {
	ks := make([]string, 0, len(l.T))
	for k := range l.T {
		ks = append(ks, k)
	}
	sort.Strings(ks)
	var sb strings.Builder
	for _, k := range ks {
		fmt.Fprintf(&sb, "%+d*%s ", l.T[k], k)
	}
	fmt.Fprintf(&sb, "%+d", l.C)
	return sb.String()
}

func (l Lin) mentions(leafKey string) bool {
	for k := range l.T {
		if strings.Contains(k, leafKey) {
			return true
		}
	}
	return false
}

// Fact is a relational fact: L >= 0 (NE=false) or L != 0 (NE=true).
type Fact struct {
	L  Lin
	NE bool
}

func (f Fact) key() string {
	if f.NE {
		// normalise sign for != facts
		a, b := f.L.key(), f.L.neg().key()
		if b < a {
			a = b
		}
		return "NE " + a
	}
	return "GE " + f.L.key()
}

func (f Fact) String() string {
	if f.NE {
		return f.L.key() + " != 0"
	}
	return f.L.key() + " >= 0"
}
