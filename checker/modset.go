package main

// Mod-sets: which alias classes (field names, element types) a local function
// may store to, transitively. Used by engine V to forget memory across calls.
// Also the package call graph used by the ownership engine.

import (
	"go/types"
	"strings"

	"golang.org/x/tools/go/ssa"
)

type modInfo struct {
	direct map[*ssa.Function]map[string]bool
	trans  map[*ssa.Function]map[string]bool
	// callees (static local, closures created, CHA on local interfaces)
	callees map[*ssa.Function][]*ssa.Function
}

// localRoot reports whether an address is rooted at an object allocated in
// the same function (stores into it are invisible to callers' prior knowledge).
func localRoot(v ssa.Value) bool {
	for i := 0; i < 8; i++ {
		switch x := v.(type) {
		case *ssa.FieldAddr:
			v = x.X
		case *ssa.IndexAddr:
			v = x.X
		case *ssa.Slice:
			v = x.X
		case *ssa.Alloc, *ssa.MakeSlice:
			return true
		case *ssa.Parameter:
			// a helper's parameter stands for the argument at its call sites
			if curProg == nil {
				return false
			}
			o := curProg.origin(x)
			if o == v {
				return false
			}
			v = o
		default:
			return false
		}
	}
	return false
}

func storeClass(addr ssa.Value) (string, bool) {
	if localRoot(addr) {
		return "", false
	}
	switch x := addr.(type) {
	case *ssa.FieldAddr:
		fld := x.X.Type().Underlying().(*types.Pointer).Elem().Underlying().(*types.Struct).Field(x.Field)
		return "F:" + structNameOfPtr(x.X.Type()) + "." + fld.Name(), true
	case *ssa.IndexAddr:
		return strings.ReplaceAll("E:"+typeKey(x.Type()), "byte", "uint8"), true
	case *ssa.Alloc:
		return "", false // local
	case *ssa.Global:
		return "G:global:" + x.Name() + "#", true
	}
	return "P:" + typeKey(addr.Type()), true
}

// implementations returns local methods implementing an interface method (CHA).
func (p *Prog) implementations(recv types.Type, m *types.Func) []*ssa.Function {
	it, ok := recv.Underlying().(*types.Interface)
	if !ok {
		return nil
	}
	var out []*ssa.Function
	scope := p.Types.Scope()
	for _, n := range scope.Names() {
		tn, ok := scope.Lookup(n).(*types.TypeName)
		if !ok {
			continue
		}
		named, ok := tn.Type().(*types.Named)
		if !ok || named.TypeParams().Len() > 0 {
			continue
		}
		for _, t := range []types.Type{named, types.NewPointer(named)} {
			if _, isI := named.Underlying().(*types.Interface); isI {
				continue
			}
			if !types.Implements(t, it) {
				continue
			}
			sel := p.Prog.MethodSets.MethodSet(t).Lookup(m.Pkg(), m.Name())
			if sel == nil {
				continue
			}
			if f := p.Prog.MethodValue(sel); f != nil {
				if f.Synthetic != "" {
					// wrapper: find the declared method
					if o, ok := sel.Obj().(*types.Func); ok {
						if df := p.Prog.FuncValue(o); df != nil {
							f = df
						}
					}
				}
				if p.IsLocal(f) {
					dup := false
					for _, x := range out {
						if x == f {
							dup = true
						}
					}
					if !dup {
						out = append(out, f)
					}
				}
			}
		}
	}
	return out
}

func (p *Prog) mods() *modInfo {
	if p.modCache != nil {
		return p.modCache
	}
	mi := &modInfo{direct: map[*ssa.Function]map[string]bool{}, trans: map[*ssa.Function]map[string]bool{}, callees: map[*ssa.Function][]*ssa.Function{}}
	for _, fn := range p.AllFuncs {
		d := map[string]bool{}
		var cs []*ssa.Function
		ownInstrs(fn, func(in ssa.Instruction) {
			switch x := in.(type) {
			case *ssa.Store:
				if c, ok := storeClass(x.Addr); ok {
					d[c] = true
				}
			case *ssa.MapUpdate:
				d["M:"+typeKey(x.Map.Type())] = true
			case *ssa.MakeClosure:
				cs = append(cs, x.Fn.(*ssa.Function))
			case ssa.CallInstruction:
				cc := x.Common()
				if cc.IsInvoke() {
					cs = append(cs, p.implementations(cc.Value.Type(), cc.Method)...)
				} else if f := p.staticLocalCallee(x); f != nil {
					cs = append(cs, f)
				}
				switch p.calleeDesc(x) {
				case "builtin:copy":
					if !localRoot(cc.Args[0]) {
						d[strings.ReplaceAll("E:*"+typeKey(cc.Args[0].Type().Underlying().(*types.Slice).Elem()), "byte", "uint8")] = true
					}
				case "binary.bigEndian.PutUint16", "binary.bigEndian.PutUint32", "binary.bigEndian.PutUint64", "io.ReadFull":
					if !localRoot(cc.Args[1]) {
						d["E:*uint8"] = true
					}
				}
			}
		})
		mi.direct[fn] = d
		mi.callees[fn] = cs
	}
	for _, fn := range p.AllFuncs {
		t := map[string]bool{}
		seen := map[*ssa.Function]bool{}
		var walk func(f *ssa.Function)
		walk = func(f *ssa.Function) {
			if seen[f] {
				return
			}
			seen[f] = true
			for c := range mi.direct[f] {
				t[c] = true
			}
			for _, g := range mi.callees[f] {
				walk(g)
			}
		}
		walk(fn)
		mi.trans[fn] = t
	}
	p.modCache = mi
	return mi
}

// modSetOfCall returns the alias classes a call may write.
func (p *Prog) modSetOfCall(c ssa.CallInstruction) map[string]bool {
	mi := p.mods()
	out := map[string]bool{}
	cc := c.Common()
	if cc.IsInvoke() {
		for _, f := range p.implementations(cc.Value.Type(), cc.Method) {
			for k := range mi.trans[f] {
				out[k] = true
			}
		}
		return out
	}
	if f := p.staticLocalCallee(c); f != nil {
		for k := range mi.trans[f] {
			out[k] = true
		}
		return out
	}
	switch p.calleeDesc(c) {
	case "io.ReadFull":
		out["E:*uint8"] = true
	}
	// dynamic call of a func value: closures of this package may be behind it
	if _, isFn := cc.Value.(*ssa.Function); !isFn {
		if _, isB := cc.Value.(*ssa.Builtin); !isB {
			if sig, ok := cc.Value.Type().Underlying().(*types.Signature); ok {
				for _, fn := range p.AllFuncs {
					if fn.Parent() != nil && types.Identical(fn.Signature, sig) {
						for k := range mi.trans[fn] {
							out[k] = true
						}
					}
				}
			}
		}
	}
	return out
}
