package main

// C16 — UpdateDecoder partitions an UPDATE exactly as its length fields
// dictate; C17 shares the error-class rules on the same two functions.

import (
	"fmt"
	"go/token"
	"go/types"
	"strings"

	"golang.org/x/tools/go/ssa"
)

func init() { register("C16", checkC16) }

// sliceAt checks that term e is param[lo:hi] with the given linear forms
// (hi == nil means "to the end").
func sliceIs(st *State, e, root *Expr, lo Lin, hi *Lin) (bool, string) {
	r, l, h := sliceParts(e)
	if r.Key != root.Key {
		return false, "not a slice of the message body: " + trunc(e.Key, 80)
	}
	gl := linConst(0)
	if l != nil {
		gl = st.linOf(l)
	}
	if d := gl.add(lo, -1); d.key() != linConst(0).key() {
		return false, fmt.Sprintf("starts at %s, want %s", gl.key(), lo.key())
	}
	if hi == nil {
		if h != nil {
			return false, "must extend to the end of the body"
		}
		return true, ""
	}
	if h == nil {
		return false, "must end at " + hi.key()
	}
	if d := st.linOf(h).add(*hi, -1); d.key() != linConst(0).key() {
		return false, fmt.Sprintf("ends at %s, want %s", st.linOf(h).key(), hi.key())
	}
	return true, ""
}

func checkC16(c *Check) {
	c.updateFraming("C16.1 section-slices", "C16.2 guards-before-callbacks")
	c.specConstants("C16.2 spec-constants", "NOTIF_CODE_UPDATE_MESSAGE_ERR", "NOTIF_SUBCODE_MALFORMED_ATTR_LIST", "NOTIF_SUBCODE_UNRECOGNIZED_WELL_KNOWN_ATTR", "NOTIF_SUBCODE_MISSING_WELL_KNOWN_ATTR", "NOTIF_SUBCODE_ATTR_FLAGS_ERR", "NOTIF_SUBCODE_ATTR_LEN_ERR", "NOTIF_SUBCODE_INVALID_ORIGIN_ATTR", "NOTIF_SUBCODE_INVALID_NEXT_HOP_ATTR", "NOTIF_SUBCODE_OPTIONAL_ATTR_ERR", "NOTIF_SUBCODE_INVALID_NETWORK_FIELD", "NOTIF_SUBCODE_MALFORMED_AS_PATH", "PATH_ATTR_MP_REACH_NLRI", "PATH_ATTR_MP_UNREACH_NLRI")
	c.attrIteration("C16.1 attribute-slices", "C16.3 duplicates-and-overruns")
	c.bitmapAgreement("C16.3 bitmap-agreement")
	c.decoderStateless("C16.3 decoder-stateless")
	c.errorClassesOpaque("C16.3 overrun-does-not-abort")
	c.checkBounds("C16.4", []string{"UpdateDecoder.Decode", "UpdateDecoder.decodePathAttrs", "attrsBitmap.set", "attrsBitmap.isSet"}, 20)
}

func (c *Check) updateFraming(ruleS, ruleG string) {
	p := c.P
	fn := p.Fn("UpdateDecoder.Decode")
	if fn == nil || len(fn.Params) != 3 {
		c.undecided(ruleS, "UpdateDecoder.Decode", "signature", "-", "expected (s, t, b)")
		return
	}
	b := paramExpr(fn, 2)
	W := mk("call", types.Typ[types.Uint16], "be16", 0, b, mkConst(0, intT), mkStr(""))
	a := NewAnalysis(p, fn)
	a.Run()
	for _, u := range a.Undecided {
		c.undecided(ruleS, "UpdateDecoder.Decode", "analysis", p.Pos(fn.Pos()), u)
	}
	lenB := mkLen(b)
	// identify the three callback calls by the field the func value is loaded from
	type cb struct {
		field string
		call  ssa.CallInstruction
	}
	var cbs []cb
	allInstrs(fn, func(in ssa.Instruction) {
		ci, ok := in.(ssa.CallInstruction)
		if !ok {
			return
		}
		if ld, ok := ci.Common().Value.(*ssa.UnOp); ok {
			if fa, ok := ld.X.(*ssa.FieldAddr); ok {
				cbs = append(cbs, cb{structFieldName(fa), ci})
			}
		}
		if p.calleeDesc(ci) == "UpdateDecoder.decodePathAttrs" {
			cbs = append(cbs, cb{"decodePathAttrs", ci})
		}
	})
	seen := map[string]int{}
	for _, x := range cbs {
		seen[x.field]++
		in := x.call.(ssa.Instruction)
		pos := p.InstrPos(in)
		sts := a.At[in]
		if len(sts) == 0 {
			c.fail(ruleS, "UpdateDecoder.Decode", x.field+" call", pos, "unreachable")
			continue
		}
		for _, st := range sts {
			args := a.argExprs(st, nil, x.call.Common())
			wl := st.linOf(W)
			// P = be16(b, 2+W): find it among the terms of the state
			Pterm := mk("call", types.Typ[types.Uint16], "be16", 0, b, addInt(addInt(W, mkConst(2, intT)), nil), mkStr(""))
			var pl Lin
			found := false
			var scan func(e *Expr)
			scan = func(e *Expr) {
				if e == nil || found {
					return
				}
				if isCallNamed(e, "be16") && e.Args[0].Key == b.Key {
					if d := st.linOf(e.Args[1]).add(wl, -1); d.key() == linConst(2).key() {
						pl = linAtom(e)
						found = true
						return
					}
				}
				for _, y := range e.Args {
					scan(y)
				}
			}
			for _, ae := range args {
				scan(ae)
			}
			for _, f := range st.facts {
				for _, e := range f.L.E {
					scan(e)
				}
			}
			_ = Pterm
			two, four := linConst(2), linConst(4)
			var ok bool
			var d string
			switch x.field {
			case "wrFn":
				hi := two.add(wl, 1)
				ok, d = sliceIs(st, args[len(args)-1], b, two, &hi)
			case "decodePathAttrs":
				if !found {
					ok, d = false, "Total Path Attribute Length is not read at offset 2+W"
					break
				}
				lo := four.add(wl, 1)
				hi := lo.add(pl, 1)
				ok, d = sliceIs(st, args[2], b, lo, &hi)
				if ok {
					// hasNLRI == (len(rest) > 0) with rest = b[4+W+P:]
					h := args[3]
					op, xx, yy, isCmp := cmpOf(h)
					ok = false
					if isCmp && op == "<" {
						// x < y  with  y - x == len(body) - (4+W+P)
						diff := st.linOf(yy).add(st.linOf(xx), -1).add(st.linOf(mkLen(b)).add(hi, -1), -1)
						if cv, isC := diff.isConst(); isC && cv == 0 {
							ok = true
						}
					}
					if !ok && d == "" {
						d = "hasNLRI must be len(body[4+W+P:]) > 0; got " + trunc(h.Key, 80)
					}
				}
			case "nlriFn":
				if !found {
					ok, d = false, "Total Path Attribute Length is not read at offset 2+W"
					break
				}
				lo := four.add(wl, 1).add(pl, 1)
				ok, d = sliceIs(st, args[len(args)-1], b, lo, nil)
			default:
				continue
			}
			c.require(ok, ruleS, "UpdateDecoder.Decode", x.field+" receives its section", pos, "W = be16(body,0), P = be16(body,2+W): wrFn gets body[2:2+W], attributes body[4+W:4+W+P], nlriFn body[4+W+P:] — "+d)
			// guards: all three framing facts hold at every callback
			g1 := st.impliedGE(st.linOf(lenB).add(four, -1))
			g2 := st.impliedGE(st.linOf(lenB).add(four, -1).add(wl, -1))
			g3 := found && st.impliedGE(st.linOf(lenB).add(four, -1).add(wl, -1).add(pl, -1))
			c.require(g1 && g2 && g3, ruleG, "UpdateDecoder.Decode", x.field+" after both framing guards", pos,
				fmt.Sprintf("at the callback: len>=4 (%v), len>=4+W (%v), len>=4+W+P (%v) are established — length fields that overrun the message abort before any callback", g1, g2, g3))
		}
	}
	for _, f := range []string{"wrFn", "decodePathAttrs", "nlriFn"} {
		c.require(seen[f] == 1, ruleS, "UpdateDecoder.Decode", "one call of "+f, p.Pos(fn.Pos()), fmt.Sprintf("each section is handed over exactly once (call sites: %d)", seen[f]))
	}
	// call order: wrFn, then attributes, then nlri
	var order []ssa.Instruction
	for _, f := range []string{"wrFn", "decodePathAttrs", "nlriFn"} {
		for _, x := range cbs {
			if x.field == f {
				order = append(order, x.call.(ssa.Instruction))
			}
		}
	}
	if len(order) == 3 {
		c.require(instrDominates(order[0], order[1]) && instrDominates(order[1], order[2]), ruleS, "UpdateDecoder.Decode", "section order", p.Pos(fn.Pos()), "withdrawn routes, then path attributes, then NLRI")
	}
	// framing failures
	only := func(code, sub int64) func(rs retSite) string {
		return func(rs retSite) string {
			if rs.ec.Kind == "Notification" && rs.ec.Notif != nil {
				cc, ok1 := rs.ec.Notif.Code.IsConst()
				ss, ok2 := rs.ec.Notif.Sub.IsConst()
				if ok1 && ok2 && cc == code && ss == sub {
					if rs.rs.State.may["call:dyn:DecodeFn[T]"] || rs.rs.State.may["call:UpdateDecoder.decodePathAttrs"] {
						return "a callback ran before the framing error"
					}
					return ""
				}
			}
			return fmt.Sprintf("a return other than *Notification (%d,%d) is reachable: %s %v", code, sub, rs.ec.Kind, rs.ec.Notif)
		}
	}
	// a callback error of the session-reset class stops decoding: the sections
	// after it are not handed to their callbacks
	{
		asYes := func(e *Expr) (ISet, bool) {
			if (e.Op == "rcall" || e.Op == "call") && strings.HasPrefix(e.S, "errors.As") {
				return isConst(1), true
			}
			return nil, false
		}
		callOf := func(field string) ssa.Instruction {
			for _, x := range cbs {
				if x.field == field {
					return x.call.(ssa.Instruction)
				}
			}
			return nil
		}
		errOf := func(in ssa.Instruction, nonNil bool) func(e *Expr) (ISet, bool) {
			name := ""
			if v, ok := in.(ssa.Value); ok {
				name = v.Name() + "#"
			}
			return func(e *Expr) (ISet, bool) {
				if e.Op != "nn" || e.Args[0].Op != "rcall" || len(e.Args[0].Args) == 0 {
					return nil, false
				}
				if v := e.Args[0].Args[0]; v.Op == "val" && (v.S == name || strings.HasSuffix(v.S, "."+name)) {
					return isConst(b2i(nonNil)), true
				}
				return nil, false
			}
		}
		wr, pa, nl := callOf("wrFn"), callOf("decodePathAttrs"), callOf("nlriFn")
		if wr != nil && pa != nil && nl != nil {
			a1 := NewAnalysis(p, fn)
			a1.AtomHook = hooks(asYes, errOf(wr, true))
			a1.Run()
			c.require(a1.Reachable(wr) && !a1.Reachable(pa) && !a1.Reachable(nl), ruleG, "UpdateDecoder.Decode", "session-reset error from the withdrawn routes stops decoding", p.InstrPos(wr),
				"after a callback error containing a *Notification neither the attributes nor the NLRI are decoded")
			a2 := NewAnalysis(p, fn)
			a2.AtomHook = hooks(asYes, errOf(wr, false), errOf(pa, true))
			a2.Run()
			c.require(a2.Reachable(pa) && !a2.Reachable(nl), ruleG, "UpdateDecoder.Decode", "session-reset error from the attributes stops decoding", p.InstrPos(pa),
				"after an attribute error containing a *Notification the NLRI is not decoded")
			a3 := NewAnalysis(p, fn)
			a3.AtomHook = hooks(func(e *Expr) (ISet, bool) {
				if (e.Op == "rcall" || e.Op == "call") && strings.HasPrefix(e.S, "errors.As") {
					return isConst(0), true
				}
				return nil, false
			}, errOf(wr, true), errOf(pa, true))
			a3.Run()
			c.require(a3.Reachable(pa) && a3.Reachable(nl), ruleG, "UpdateDecoder.Decode", "other errors do not stop decoding", p.InstrPos(nl),
				"treat-as-withdraw and attribute-discard errors are collected and decoding goes on")
		}
	}
	c.runCases("C16.2 framing-errors", "UpdateDecoder.Decode", []asmCase{
		{name: "body shorter than 4 => (3,0), no callback", init: func(a *Analysis, st *State) {
			st.addFact(Fact{L: linConst(3).add(st.linOf(lenB), -1)})
		}, forbid: only(3, 0)},
		{name: "withdrawn length overruns => (3,1), no callback", init: func(a *Analysis, st *State) {
			st.addFact(Fact{L: st.linOf(lenB).add(linConst(4), -1)})
			st.addFact(Fact{L: st.linOf(W).add(linConst(3), 1).add(st.linOf(lenB), -1)}) // W+4 > len  <=> W+3-len >= 0
		}, forbid: only(3, 1)},
		// a withdraw-only UPDATE: the two length fields and the withdrawn
		// routes fill the body exactly, no attributes, no NLRI
		{name: "body is exactly 4+W octets with an empty attribute block, callbacks accept => nil", init: func(a *Analysis, st *State) {
			d := st.linOf(lenB).add(linConst(4), -1).add(st.linOf(W), -1)
			st.addFact(Fact{L: d})
			st.addFact(Fact{L: d.neg()})
		}, hook: func(e *Expr) (ISet, bool) {
			// Total Path Attribute Length (any big-endian 16-bit read other than W) is 0
			if isCallNamed(e, "be16") && e.Key != W.Key {
				if off, isC := e.Args[1].IsConst(); !(isC && off == 0 && e.Args[0].Key == b.Key) {
					return isConst(0), true
				}
			}
			// every callback and the attribute walk return nil
			if e.Op == "nn" {
				x := e.Args[0]
				if x.Op == "rcall" && (strings.HasPrefix(x.S, "dyn:") || x.S == "UpdateDecoder.decodePathAttrs") {
					return isConst(0), true
				}
			}
			return nil, false
		}, forbid: func(rs retSite) string {
			if rs.ec.Kind != "nil" {
				return "a structurally consistent withdraw-only UPDATE is refused: " + rs.ec.Kind + " " + fmt.Sprint(rs.ec.Notif)
			}
			return ""
		}},
	})
}

// attrIteration: per-attribute slices, cursor advance, duplicates, overruns.
func (c *Check) attrIteration(ruleS, ruleD string) {
	p := c.P
	fn := p.Fn("UpdateDecoder.decodePathAttrs")
	if fn == nil || len(fn.Params) != 4 {
		c.undecided(ruleS, "UpdateDecoder.decodePathAttrs", "signature", "-", "expected (s, t, b, hasNLRI)")
		return
	}
	noInline := map[string]bool{"attrsBitmap.isSet": true, "attrsBitmap.set": true}
	isExt := func(e *Expr) bool { // flags.ExtendedLen(): (16 & flags) != 0
		op, x, y, ok := cmpOf(e)
		if !ok || (op != "!=" && op != "==") {
			return false
		}
		for _, s := range []*Expr{x, y} {
			if s.Op == "bin" && s.binOp() == "&" {
				for _, a := range s.Args {
					if cv, isC := a.IsConst(); isC && cv == 16 {
						return true
					}
				}
			}
		}
		return false
	}
	// the flags octet itself: any non-arithmetic term of type PathAttrFlags
	// is assumed to have bit 4 as the case says (every way of testing the bit
	// then evaluates exactly)
	bit4 := map[bool]ISet{true: isEmpty(), false: isEmpty()}
	for x := int64(0); x < 256; x++ {
		bit4[x&16 != 0] = bit4[x&16 != 0].Union(isConst(x))
	}
	extHook := func(v bool) func(e *Expr) (ISet, bool) {
		return func(e *Expr) (ISet, bool) {
			if e.Op != "bin" && e.Typ != nil && typeKey(e.Typ) == "PathAttrFlags" {
				return bit4[v], true
			}
			if isExt(e) {
				op, _, _, _ := cmpOf(e)
				return isConst(b2i((op == "!=") == v)), true
			}
			return nil, false
		}
	}
	isSetRes := func(e *Expr) bool { return e.Op == "rcall" && e.S == "attrsBitmap.isSet" }
	var paCall ssa.CallInstruction
	allInstrs(fn, func(in ssa.Instruction) {
		if ci, ok := in.(ssa.CallInstruction); ok {
			if ld, ok := ci.Common().Value.(*ssa.UnOp); ok {
				if fa, ok := ld.X.(*ssa.FieldAddr); ok && structFieldName(fa) == "paFn" {
					paCall = ci
				}
			}
		}
	})
	if paCall == nil {
		c.fail(ruleS, "UpdateDecoder.decodePathAttrs", "paFn call", p.Pos(fn.Pos()), "not found")
		return
	}
	// the attribute loop may live in a helper of decodePathAttrs (the walk
	// split from the mandatory-attribute tail): the loop rules are then
	// evaluated on that helper, whose block parameter is the caller's block
	var blockParam ssa.Value = fn.Params[2]
	errIdx := 0 // index of the error among the results of the loop function
	if lf := paCall.(ssa.Instruction).Parent(); lf != fn {
		blockParam = nil
		for _, prm := range lf.Params {
			if p.origin(prm) == ssa.Value(fn.Params[2]) {
				blockParam = prm
			}
		}
		if blockParam == nil {
			c.undecided(ruleS, "UpdateDecoder.decodePathAttrs", "attribute loop", p.Pos(lf.Pos()), "the loop's helper does not receive decodePathAttrs' block")
			return
		}
		fn = lf
		res := fn.Signature.Results()
		for i := 0; i < res.Len(); i++ {
			if typeKey(res.At(i).Type()) == "error" {
				errIdx = i
			}
		}
	}
	// cursor phi
	var cursor *ssa.Phi
	for _, blk := range fn.Blocks {
		for _, in := range blk.Instrs {
			phi, ok := in.(*ssa.Phi)
			if !ok {
				break
			}
			if _, isSlice := phi.Type().Underlying().(*types.Slice); isSlice && inLoop(blk) {
				for i, e := range phi.Edges {
					if !blk.Dominates(blk.Preds[i]) && e == blockParam {
						cursor = phi
					}
				}
			}
		}
	}
	if cursor == nil {
		c.fail(ruleS, "UpdateDecoder.decodePathAttrs", "cursor", p.Pos(fn.Pos()), "no loop cursor over the attribute block")
		return
	}
	cur := mkLeaf("phi", cursor.Name(), cursor.Type())
	for _, ext := range []bool{true, false} {
		a := NewAnalysis(p, fn)
		a.NoInline = noInline
		a.AtomHook = hooks(extHook(ext), rangeHook(isSetRes, isConst(0)))
		a.Run()
		h := int64(3)
		if ext {
			h = 4
		}
		name := fmt.Sprintf("extended length=%v", ext)
		sts := a.At[paCall.(ssa.Instruction)]
		if len(sts) == 0 || len(a.Undecided) > 0 {
			c.undecided(ruleS, "UpdateDecoder.decodePathAttrs", name, p.InstrPos(paCall.(ssa.Instruction)), "paFn call not reachable / undecided")
			continue
		}
		for _, st := range sts {
			args := a.argExprs(st, nil, paCall.Common())
			// args: t, code, flags, data
			n := len(args)
			code, flags, data := args[n-3], args[n-2], args[n-1]
			u8 := types.Typ[types.Uint8]
			ver := st.ver["E:*uint8"]
			byteAt := func(i int64) *Expr { return mk("ld", u8, "@"+ver, 0, mkIndexAddr(cur, mkConst(i, intT), nil)) }
			var L Lin
			if ext {
				L = linAtom(mk("call", types.Typ[types.Uint16], "be16", 0, cur, mkConst(2, intT), mkStr(ver)))
			} else {
				L = linAtom(byteAt(2))
			}
			var probs []string
			if code.Key != byteAt(1).Key {
				probs = append(probs, "type code must be octet 1 of the attribute header; got "+trunc(code.Key, 60))
			}
			if flags.Key != byteAt(0).Key {
				probs = append(probs, "flags must be octet 0 of the attribute header; got "+trunc(flags.Key, 60))
			}
			lo := linConst(h)
			hi := lo.add(L, 1)
			if ok, d := sliceIs(st, data, cur, lo, &hi); !ok {
				probs = append(probs, fmt.Sprintf("value must be attr[%d:%d+L] (%s)", h, h, d))
			}
			if !st.must["call:attrsBitmap.set"] {
				probs = append(probs, "the type must be recorded as seen before the callback")
			}
			c.require(len(probs) == 0, ruleS, "UpdateDecoder.decodePathAttrs", name+": paFn arguments", p.InstrPos(paCall.(ssa.Instruction)), strings.Join(probs, "; "))
			// bounds facts at the call
			g := st.impliedGE(st.linOf(mkLen(cur)).add(hi, -1))
			c.require(g, ruleD, "UpdateDecoder.decodePathAttrs", name+": value within the block", p.InstrPos(paCall.(ssa.Instruction)), "len(remaining) >= header+L is established before the callback (an overrun never reaches it)")
		}
		// cursor advance on back edges: after the callback (attribute not seen
		// before), and when a repeated ordinary attribute is skipped
		blk := cursor.Block()
		adv := 0
		dup := NewAnalysis(p, fn)
		dup.NoInline = noInline
		dup.AtomHook = hooks(extHook(ext), rangeHook(isSetRes, isConst(1)), rangeHook(func(e *Expr) bool {
			if e.Op != "ld" || e.Args[0].Op != "ia" || e.Args[0].Args[0].Key != cur.Key {
				return false
			}
			iv, isC := e.Args[0].Args[1].IsConst()
			return isC && iv == 1
		}, isRange(0, 13)))
		dup.Run()
		nDup := 0
		for i, e := range cursor.Edges {
			pred := blk.Preds[i]
			if !blk.Dominates(pred) {
				continue
			}
			var edgeStates []*State
			edgeStates = append(edgeStates, a.EdgeOut[[2]int{pred.Index, blk.Index}]...)
			for _, st := range dup.EdgeOut[[2]int{pred.Index, blk.Index}] {
				nDup++
				edgeStates = append(edgeStates, st)
			}
			for _, st := range edgeStates {
				adv++
				ne := a.exprOf(st, nil, e)
				ver := st.ver["E:*uint8"]
				var L Lin
				if ext {
					L = linAtom(mk("call", types.Typ[types.Uint16], "be16", 0, cur, mkConst(2, intT), mkStr(ver)))
				} else {
					L = linAtom(mk("ld", types.Typ[types.Uint8], "@"+ver, 0, mkIndexAddr(cur, mkConst(2, intT), nil)))
				}
				ok, d := sliceIs(st, ne, cur, linConst(h).add(L, 1), nil)
				if !ok {
					// the length term may have been read under an older memory version token
					r, l, hh := sliceParts(ne)
					if r.Key == cur.Key && hh == nil && l != nil {
						ll := st.linOf(l)
						if len(ll.T) == 1 && ll.C == h {
							for k, coef := range ll.T {
								t := ll.E[k]
								if coef == 1 && ((ext && isCallNamed(t, "be16") && t.Args[0].Key == cur.Key) || (!ext && t.Op == "ld" && strings.Contains(t.Key, "ia("+cur.Key+",const:2)"))) {
									ok = true
								}
							}
						}
					}
				}
				c.require(ok, ruleS, "UpdateDecoder.decodePathAttrs", name+": cursor advance", p.InstrPos(cursor), "the next attribute starts exactly header+L octets later — "+d)
			}
		}
		if adv == 0 {
			c.fail(ruleS, "UpdateDecoder.decodePathAttrs", name+": cursor advance", p.InstrPos(cursor), "loop back edge unreachable")
		}
		c.require(nDup > 0, ruleS, "UpdateDecoder.decodePathAttrs", name+": repeated attribute skipped", p.InstrPos(cursor), "a repeated ordinary attribute is skipped and the iteration continues with the next one")
	}
	// completeness: an attribute whose header and value lie inside the block
	// (an empty value ending exactly at the block boundary included) is never
	// reported as an overrun: with len(remaining) >= header+L assumed at the
	// head of every iteration no totalAttrLenErr site is reachable
	for _, ext := range []bool{true, false} {
		h := int64(3)
		if ext {
			h = 4
		}
		a := NewAnalysis(p, fn)
		a.NoInline = noInline
		a.AtomHook = hooks(extHook(ext), rangeHook(isSetRes, isConst(0)))
		head := cursor.Block()
		a.AfterFlow = func(from, to *ssa.BasicBlock, st *State) {
			if to != head {
				return
			}
			ver := st.ver["E:*uint8"]
			var L Lin
			if ext {
				L = linAtom(mk("call", types.Typ[types.Uint16], "be16", 0, cur, mkConst(2, intT), mkStr(ver)))
			} else {
				L = linAtom(mk("ld", types.Typ[types.Uint8], "@"+ver, 0, mkIndexAddr(cur, mkConst(2, intT), nil)))
			}
			st.addFact(Fact{L: st.linOf(mkLen(cur)).add(linConst(h), -1).add(L, -1)})
		}
		a.Run()
		name := fmt.Sprintf("extended length=%v: a fitting attribute is not an overrun", ext)
		if len(a.Undecided) > 0 {
			c.undecided(ruleD, "UpdateDecoder.decodePathAttrs", name, p.Pos(fn.Pos()), a.Undecided[0])
			continue
		}
		bad := ""
		nsites := 0
		for _, cl := range p.callsIn(fn, descIs("totalAttrLenErr")) {
			if cl.Parent() == fn && !head.Dominates(cl.Block()) {
				continue
			}
			nsites++
			if a.Reachable(cl.(ssa.Instruction)) {
				bad = p.InstrPos(cl.(ssa.Instruction))
			}
		}
		reach := a.Reachable(paCall.(ssa.Instruction))
		c.require(bad == "" && reach && nsites > 0, ruleD, "UpdateDecoder.decodePathAttrs", name, p.Pos(fn.Pos()),
			fmt.Sprintf("with len(remaining) >= %d+L at the head of an iteration the callback is reached and no overrun error is raised (overrun site reachable: %q, callback reachable: %v)", h, bad, reach))
	}
	// duplicates: a type already seen never reaches paFn; MP attributes abort
	mpReach, mpUnreach := p.MustConst("PATH_ATTR_MP_REACH_NLRI"), p.MustConst("PATH_ATTR_MP_UNREACH_NLRI")
	typeByte := func(e *Expr) bool {
		if e.Op != "ld" || e.Args[0].Op != "ia" {
			return false
		}
		cv, isC := e.Args[0].Args[1].IsConst()
		return isC && cv == 1
	}
	for _, w := range []struct {
		name string
		set  ISet
		mp   bool
	}{{"repeated MP_REACH_NLRI", isConst(mpReach), true}, {"repeated MP_UNREACH_NLRI", isConst(mpUnreach), true}, {"repeated other attribute", isRange(0, 255).Minus(isConst(mpReach)).Minus(isConst(mpUnreach)), false}} {
		a := NewAnalysis(p, fn)
		a.NoInline = noInline
		a.AtomHook = hooks(rangeHook(isSetRes, isConst(1)), rangeHook(typeByte, w.set))
		// only the duplicate test inside the loop: the post-loop isSet calls
		// test constants; restrict the hook to calls whose argument is not constant
		a.AtomHook = func(e *Expr) (ISet, bool) {
			if isSetRes(e) {
				if len(e.Args) == 3 {
					if _, isC := e.Args[2].IsConst(); !isC {
						return isConst(1), true
					}
				}
				return nil, false
			}
			if typeByte(e) {
				return w.set, true
			}
			return nil, false
		}
		a.Run()
		reach := a.Reachable(paCall.(ssa.Instruction))
		var probs []string
		if reach {
			probs = append(probs, "paFn is reachable for an attribute type already seen")
		}
		backEdge := false
		blk := cursor.Block()
		for i := range cursor.Edges {
			if blk.Dominates(blk.Preds[i]) && len(a.EdgeOut[[2]int{blk.Preds[i].Index, blk.Index}]) > 0 {
				backEdge = true
			}
		}
		if w.mp {
			if backEdge {
				probs = append(probs, "iteration continues after a repeated MP attribute")
			}
			okN := false
			for _, r := range a.Returns {
				if strings.Contains(r.Results[errIdx].Key, "makeiface:*Notification") {
					for _, in := range classifyJoined(p, r.State, r.Results[errIdx]) {
						if in.Kind == "Notification" && in.Notif != nil {
							cc, _ := in.Notif.Code.IsConst()
							ss, _ := in.Notif.Sub.IsConst()
							if cc == 3 && ss == 1 {
								okN = true
							}
						}
					}
				}
			}
			if !okN {
				probs = append(probs, "must return a *Notification (3,1) Malformed Attribute List")
			}
		} else if !backEdge {
			probs = append(probs, "a repeated ordinary attribute must be skipped and iteration continue")
		}
		c.require(len(probs) == 0, ruleD, "UpdateDecoder.decodePathAttrs", w.name, p.Pos(fn.Pos()), strings.Join(probs, "; "))
	}
	// overruns end the iteration with a treat-as-withdraw error and no callback
	lenCur := mkLen(cur)
	for _, w := range []struct {
		name string
		fact func(st *State) Fact
	}{
		{"only one octet left", func(st *State) Fact { return Fact{L: linConst(1).add(st.linOf(lenCur), -1)} }},
		{"two octets left", func(st *State) Fact { return Fact{L: linConst(2).add(st.linOf(lenCur), -1)} }},
		{"two octets left, one-octet length", func(st *State) Fact { return Fact{L: linConst(2).add(st.linOf(lenCur), -1)} }},
		{"three octets left, extended length", func(st *State) Fact { return Fact{L: linConst(3).add(st.linOf(lenCur), -1)} }},
		{"header complete, value overruns the block", func(st *State) Fact { return Fact{L: linConst(3).add(st.linOf(lenCur), -1)} }},
	} {
		a := NewAnalysis(p, fn)
		a.NoInline = noInline
		// apply the fact at the loop head via a hook on len(cursor) comparisons:
		// assume every remaining length is <= k
		k := int64(1)
		var extH func(e *Expr) (ISet, bool)
		switch w.name {
		case "two octets left":
			k = 2
		case "two octets left, one-octet length":
			k = 2
			extH = extHook(false)
		case "three octets left, extended length":
			k = 3
			extH = extHook(true)
		case "header complete, value overruns the block":
			k = 3
			valueOverrun := rangeHook(func(e *Expr) bool {
				if e.Op != "ld" || e.Args[0].Op != "ia" || e.Args[0].Args[0].Key != cur.Key {
					return false
				}
				iv, isC := e.Args[0].Args[1].IsConst()
				return isC && iv == 2
			}, isRange(1, 255))
			extH = hooks(extHook(false), valueOverrun, func(e *Expr) (ISet, bool) {
				if e.Op == "len" && e.Args[0].Key == cur.Key {
					return isConst(3), true
				}
				return nil, false
			})
		}
		a.AtomHook = func(e *Expr) (ISet, bool) {
			if extH != nil {
				if v, ok := extH(e); ok {
					return v, true
				}
			}
			if e.Op == "len" && (e.Args[0].Key == cur.Key) {
				return isRange(1, k), true
			}
			if e.Op == "len" && e.Args[0].Op == "param" {
				return isRange(1, k), true
			}
			return nil, false
		}
		a.Run()
		var probs []string
		if a.Reachable(paCall.(ssa.Instruction)) {
			probs = append(probs, "paFn reachable although the header overruns the block")
		}
		// an overrun site is reached and its error goes into the accumulator
		// (flowsToAccumulator); totalAttrLenErr's class is checked below
		okT := false
		for _, cl := range p.callsIn(fn, descIs("totalAttrLenErr")) {
			if a.Reachable(cl.(ssa.Instruction)) && flowsToAccumulator(cl) {
				okT = true
			}
		}
		for _, r := range a.Returns {
			if r.Results[errIdx].IsNil() {
				probs = append(probs, "nil returned for a truncated attribute header")
			}
			if !r.State.must["call:totalAttrLenErr"] {
				probs = append(probs, "a return is reachable on which no overrun error was raised")
			}
		}
		if !okT {
			probs = append(probs, "a treat-as-withdraw error must be reported")
		}
		c.require(len(probs) == 0, ruleD, "UpdateDecoder.decodePathAttrs", "header overrun: "+w.name, p.Pos(fn.Pos()), strings.Join(probs, "; "))
	}
	_ = token.ADD
	// the overrun error itself: treat-as-withdraw carrying the type code and a
	// generic UPDATE Message Error as fallback
	if te := p.Fn("totalAttrLenErr"); te != nil {
		b := NewAnalysis(p, te)
		b.Run()
		okE := len(b.Returns) > 0
		for _, r := range b.Returns {
			ec := p.classifyErr(r.State, r.Results[0])
			good := ec.Kind == "TreatAsWithdraw" && ec.Notif != nil
			if good {
				cc, _ := ec.Notif.Code.IsConst()
				good = cc == 3 && len(te.Params) == 1
				if inner := r.Results[0].Args[0]; good && inner.Op == "alloc" {
					cv := p.loadField(r.State, inner, "TreatAsWithdrawUpdateErr", "Code")
					good = cv != nil && cv.Key == paramExpr(te, 0).Key
				}
			}
			if !good {
				okE = false
			}
		}
		c.require(okE, ruleD, "totalAttrLenErr", "class of the overrun error", p.Pos(te.Pos()), "*TreatAsWithdrawUpdateErr{Code: the attribute type, Notification: UPDATE Message Error}")
	}
}

// flowsToAccumulator: the error produced by call is an operand of an
// errors.Join whose result is carried on (a phi) or returned.
func flowsToAccumulator(call ssa.CallInstruction) bool {
	v, ok := call.(ssa.Value)
	if !ok {
		return false
	}
	seen := map[ssa.Value]bool{}
	var walk func(v ssa.Value, depth int) bool
	walk = func(v ssa.Value, depth int) bool {
		if seen[v] || depth > 8 || v.Referrers() == nil {
			return false
		}
		seen[v] = true
		for _, r := range *v.Referrers() {
			switch x := r.(type) {
			case *ssa.Phi:
				return true
			case *ssa.Return:
				return true
			case *ssa.Store:
				// into the varargs array of errors.Join, or a named result
				if ia, isIA := x.Addr.(*ssa.IndexAddr); isIA {
					if arr, isA := ia.X.(*ssa.Alloc); isA {
						for _, rr := range *arr.Referrers() {
							if sl, isS := rr.(*ssa.Slice); isS && walk(sl, depth+1) {
								return true
							}
						}
					}
				} else if al, isA := x.Addr.(*ssa.Alloc); isA && x.Val == v {
					_ = al
					return true
				}
			case *ssa.Call:
				if f, isF := x.Call.Value.(*ssa.Function); isF && f.String() == "errors.Join" {
					if walk(x, depth+1) {
						return true
					}
				}
			case *ssa.MakeInterface, *ssa.ChangeInterface:
				if walk(x.(ssa.Value), depth+1) {
					return true
				}
			}
		}
		return false
	}
	return walk(v, 0)
}

// classifyJoined flattens errors.Join trees and classifies the leaves.
func classifyJoined(p *Prog, st *State, e *Expr) []ErrClass {
	ec := p.classifyErr(st, e)
	if ec.Kind == "joined" || ec.Kind == "wrapped" {
		var out []ErrClass
		for _, in := range ec.Inner {
			out = append(out, classifyJoined(p, st, in)...)
		}
		return out
	}
	return []ErrClass{ec}
}

// bitmapAgreement: set and isSet address the same word and bit, and the
// bitmap covers all 256 type codes.
func (c *Check) bitmapAgreement(rule string) {
	p := c.P
	setFn, isSetFn := p.Fn("attrsBitmap.set"), p.Fn("attrsBitmap.isSet")
	if setFn == nil || isSetFn == nil || !c.sig(rule, setFn, 2) || !c.sig(rule, isSetFn, 2) {
		return
	}
	// word count and width from the receiver type
	var nWords, bits int64
	if pt, ok := setFn.Params[0].Type().Underlying().(*types.Pointer); ok {
		if at, ok := pt.Elem().Underlying().(*types.Array); ok {
			nWords, bits = at.Len(), int64(intTypeInfo(at.Elem()).bits)
		}
	}
	// split "word OP mask" into the index of the loaded word and the mask
	split := func(e *Expr, op string) (idx, mask *Expr) {
		if e == nil || e.Op != "bin" || e.binOp() != op || len(e.Args) != 2 {
			return nil, nil
		}
		for k := 0; k < 2; k++ {
			w, m := e.Args[k], e.Args[1-k]
			if w.Op == "ld" && w.Args[0].Op == "ia" {
				return w.Args[0].Args[1], m
			}
		}
		return nil, nil
	}
	// set: the stored value is  a[idx] | mask  at address a[idx]
	var sIdx, sMask *Expr
	var sState *State
	storeSites := map[*ssa.Store]bool{}
	a := NewAnalysis(p, setFn)
	a.StoreHook = func(st *State, addr, val *Expr, in *ssa.Store) {
		if addr.Op != "ia" || in.Parent() != setFn {
			return
		}
		storeSites[in] = true
		idx, mask := split(val, "|")
		if idx != nil && idx.Key == addr.Args[1].Key {
			sIdx, sMask, sState = idx, mask, st.clone()
		}
	}
	a.Run()
	// isSet: any boolean term over the loaded word a[idx] and b; its meaning is
	// decided below by evaluating it with the word bound to test values
	var gIdx, gWord, gRet *Expr
	var gState *State
	g := NewAnalysis(p, isSetFn)
	g.Run()
	for _, r := range g.Returns {
		gRet, gState = r.Results[0], r.State
		var find func(e *Expr)
		find = func(e *Expr) {
			if e == nil || gWord != nil {
				return
			}
			if e.Op == "ld" && len(e.Args) == 1 && e.Args[0].Op == "ia" {
				gWord, gIdx = e, e.Args[0].Args[1]
				return
			}
			for _, x := range e.Args {
				find(x)
			}
		}
		find(gRet)
	}
	_ = gWord
	// decide over the whole domain of the uint8 argument by folding the terms
	sb, gb := paramExpr(setFn, 1), paramExpr(isSetFn, 1)
	eval := func(st *State, e, param *Expr, v int64) (int64, bool) {
		t := st.clone()
		t.rng[param.Key] = isConst(v)
		return t.rangeOf(e).IsConst()
	}
	seen := map[[2]int64]int64{}
	folded, ok, detail := true, true, ""
	allOnes := int64(1)<<uint(bits) - 1
	if bits >= 63 {
		folded = false
	}
	evalRet := func(b, word int64) (int64, bool) {
		t := gState.clone()
		t.rng[gb.Key] = isConst(b)
		t.rng[gWord.Key] = isConst(word)
		return t.evalBool(gRet).IsConst()
	}
	for b := int64(0); b < 256 && ok && folded; b++ {
		si, ok1 := eval(sState, sIdx, sb, b)
		sm, ok2 := eval(sState, sMask, sb, b)
		gi, ok3 := eval(gState, gIdx, gb, b)
		if !(ok1 && ok2 && ok3) {
			folded = false
			break
		}
		hit, ok4 := evalRet(b, sm)          // only b's bit set in the word
		miss, ok5 := evalRet(b, allOnes^sm) // every other bit set
		if !(ok4 && ok5) {
			folded = false
			break
		}
		switch {
		case si != gi:
			ok, detail = false, fmt.Sprintf("code %d: set touches word %d but isSet reads word %d", b, si, gi)
		case hit != 1 || miss != 0:
			ok, detail = false, fmt.Sprintf("code %d: set sets mask %#x of word %d, but isSet reports %d for that word and %d for its complement", b, sm, si, hit, miss)
		case si < 0 || si >= nWords:
			ok, detail = false, fmt.Sprintf("code %d: word index %d outside [0,%d)", b, si, nWords)
		case sm <= 0 || sm&(sm-1) != 0:
			ok, detail = false, fmt.Sprintf("code %d: mask %#x is not a single bit", b, sm)
		default:
			if prev, dup := seen[[2]int64{si, sm}]; dup {
				ok, detail = false, fmt.Sprintf("codes %d and %d share word %d mask %#x", prev, b, si, sm)
			}
			seen[[2]int64{si, sm}] = b
		}
	}
	if !folded {
		// terms too wide to fold (64-bit words): fall back to identical
		// canonical terms of the canonical shape b/W, 1<<(b%W)
		norm := func(e *Expr, from, to *Expr) string { return strings.ReplaceAll(e.Key, from.Key, to.Key) }
		same := norm(sIdx, sb, gb) == gIdx.Key && strings.Contains(gRet.Key, norm(sMask, sb, gb))
		shape := strings.Contains(gIdx.Key, fmt.Sprintf("const:%d", bits)) && strings.Contains(gRet.Key, fmt.Sprintf("const:%d", bits)) && nWords*bits >= 256
		ok = same && shape
		detail = fmt.Sprintf("terms not foldable; identical terms=%v canonical shape=%v", same, shape)
	}
	c.require(ok, rule, "attrsBitmap", "set/isSet agree", p.Pos(setFn.Pos()),
		fmt.Sprintf("for every code 0..255 set and isSet address the same word (< %d) and the same single bit, and distinct codes get distinct bits (terms folded over the whole uint8 domain) %s", nWords, detail))
}

// decoderStateless: the partition of one UPDATE depends on that UPDATE only.
// An UpdateDecoder is reused for every message of a session, so nothing may
// survive a Decode call inside it: its fields are written only while it is
// constructed, no method takes the address of a field for anything but a
// load, and the duplicate-attribute bitmap is a local of decodePathAttrs
// (zero on every call, on every exit path).
func (c *Check) decoderStateless(rule string) {
	p := c.P
	n := 0
	for _, top := range p.FuncSeq {
		for _, fn := range withAnon(top) {
			allInstrs(fn, func(in ssa.Instruction) {
				fa, ok := in.(*ssa.FieldAddr)
				if !ok || structNameOfPtr(fa.X.Type()) != "UpdateDecoder" {
					return
				}
				n++
				if addrRootedAtAlloc(fa) {
					c.ok(rule, p.Name(fn), "field of a decoder under construction", p.InstrPos(fa), "constructor")
					return
				}
				onlyLoads := true
				for _, r := range *fa.Referrers() {
					if u, isU := r.(*ssa.UnOp); !isU || u.Op != token.MUL {
						onlyLoads = false
					}
				}
				c.require(onlyLoads, rule, p.Name(fn), "UpdateDecoder."+structFieldName(fa)+" only loaded", p.InstrPos(fa),
					"methods only read the decoder's fields; a store, or an address handed to a callee, makes one Decode depend on the previous one")
			})
		}
	}
	c.floor(rule, n, 4, "accesses to UpdateDecoder fields")
	// the bitmap handed to set/isSet is a local of the calling function
	m := 0
	for _, top := range p.FuncSeq {
		for _, fn := range withAnon(top) {
			for _, d := range []string{"attrsBitmap.set", "attrsBitmap.isSet"} {
				for _, cl := range p.callsIn(fn, descIs(d)) {
					if strings.HasPrefix(p.Name(fn), "attrsBitmap.") {
						continue
					}
					m++
					recv := p.origin(cl.Common().Args[0])
					if fv, isFV := recv.(*ssa.FreeVar); isFV {
						// captured by a closure of the decoder: the cell bound at its creation
						if par := fv.Parent().Parent(); par != nil {
							for i, x := range fv.Parent().FreeVars {
								if x != fv {
									continue
								}
								ownInstrs(par, func(in ssa.Instruction) {
									if mc, ok := in.(*ssa.MakeClosure); ok && mc.Fn == ssa.Value(fv.Parent()) && i < len(mc.Bindings) {
										recv = mc.Bindings[i]
									}
								})
							}
						}
					}
					_, isAlloc := recv.(*ssa.Alloc)
					c.require(isAlloc && !inLoop(recv.(ssa.Instruction).Block()), rule, p.Name(fn), "bitmap receiver of "+d, p.InstrPos(cl.(ssa.Instruction)),
						"the duplicate bitmap is a variable of this call (allocated and zeroed once per call, outside the attribute loop)")
				}
			}
		}
	}
	c.floor(rule, m, 2, "attrsBitmap.set/isSet call sites")
}
