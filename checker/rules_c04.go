package main

// C04 — outbound byte stream is whole well-formed messages; WriteUpdate contract.

import (
	"fmt"
	"go/constant"
	"go/types"
	"strings"

	"golang.org/x/tools/go/ssa"
)

func init() { register("C04", checkC04) }

func checkC04(c *Check) {
	c.connUses("C04.1 connection-use")
	c.writeSites("C04.1 single-framed-write")
	c.specConstants("C04.2 spec-constants", "openMessageType", "updateMessageType", "notificationMessageType", "keepAliveMessageType", "headerLength", "maxMessageLength")
	c.prependHeaderShape("C04.2 header-shape")
	c.notificationFits("C04.2 notification-fits")
	c.writeUpdateContract("C04.3 writeupdate")
	c.handlerDiscipline("C04.4 session-scope")
	c.writerLifetime("C04.4 writer-lifetime")
}

// framedResult reports whether term e is the result of prependHeader, or the
// first result of a local encode() all of whose buffers are prependHeader
// results.
func (c *Check) framedResult(e *Expr, depth int) (bool, string) {
	p := c.P
	if e == nil {
		return false, "<nil>"
	}
	if e.Op == "rcall" && e.S == "prependHeader" {
		return true, "prependHeader"
	}
	inner := e
	if e.Op == "ex" {
		if i, ok := e.Args[1].IsConst(); !ok || i != 0 {
			return false, e.Key
		}
		inner = e.Args[0]
	}
	if inner.Op == "rcall" && depth < 2 {
		name := inner.S
		if g, ok := p.Funcs[name]; ok {
			a := NewAnalysis(p, g)
			a.Run()
			okAll := len(a.Returns) > 0
			for _, r := range a.Returns {
				buf := r.Results[0]
				if buf.IsNil() {
					// error return: must carry a non-nil error
					if len(r.Results) == 2 {
						if v, ok := r.State.nonNil(r.Results[1]).IsConst(); ok && v == 1 {
							continue
						}
					}
					okAll = false
					continue
				}
				if ok, _ := c.framedResult(buf, depth+1); !ok {
					okAll = false
				}
			}
			return okAll, name + "() -> prependHeader"
		}
	}
	return false, trunc(e.Key, 80)
}

func (c *Check) writeSites(rule string) {
	p := c.P
	n := 0
	kinds := map[int64]string{}
	for _, fn := range p.FuncSeq {
		sites := p.callsIn(fn, descIs("invoke:net.Conn.Write"))
		if len(sites) == 0 {
			continue
		}
		a := NewAnalysis(p, fn)
		a.Run()
		for _, cl := range sites {
			n++
			pos := p.InstrPos(cl.(ssa.Instruction))
			if _, isGo := cl.(*ssa.Go); isGo {
				c.fail(rule, p.Name(fn), "Write in go statement", pos, "asynchronous write")
				continue
			}
			c.require(!inLoop(cl.Block()), rule, p.Name(fn), "Write not in a loop", pos, "one Write per message (no chunked writes)")
			for _, args := range a.callArgsAt(cl) {
				ok, how := c.framedResult(args[1], 0)
				c.require(ok, rule, p.Name(fn), "Write argument", pos, "the buffer written is a complete framed message built by prependHeader ("+how+")")
			}
		}
		// at most one Write on any path of the function
		if len(sites) > 1 {
			for _, s1 := range sites {
				hit := pathSearch(fn, s1.(ssa.Instruction), func(x ssa.Instruction) bool {
					ci, ok := x.(ssa.CallInstruction)
					return ok && p.calleeDesc(ci) == "invoke:net.Conn.Write"
				}, nil)
				c.require(hit == nil, rule, p.Name(fn), "single Write per call", p.InstrPos(s1.(ssa.Instruction)), "a second Write is reachable after the first: a message would be emitted in pieces")
			}
		}
	}
	c.floor(rule, n, 4, "net.Conn.Write call sites (OPEN, NOTIFICATION, KEEPALIVE, UPDATE)")
	// type constants at prependHeader call sites
	want := map[string]string{"openMessage.encode": "openMessageType", "updateMessageWriter.WriteUpdate": "updateMessageType", "Notification.encode": "notificationMessageType", "keepAliveMessage.encode": "keepAliveMessageType"}
	m := 0
	for _, fn := range p.FuncSeq {
		sites := p.callsIn(fn, descIs("prependHeader"))
		if len(sites) == 0 {
			continue
		}
		a := NewAnalysis(p, fn)
		a.Run()
		for _, cl := range sites {
			m++
			w, known := want[p.Name(fn)]
			for _, args := range a.callArgsAt(cl) {
				tv, isC := args[1].IsConst()
				ok := known && isC && tv == p.MustConst(w)
				if ok {
					kinds[tv] = p.Name(fn)
				}
				c.require(ok, "C04.2 message-type-argument", p.Name(fn), "prependHeader type", p.InstrPos(cl.(ssa.Instruction)),
					fmt.Sprintf("type argument is the constant of the message kind this function emits (%s)", w))
			}
		}
	}
	c.floor("C04.2 message-type-argument", m, 4, "prependHeader call sites")
	c.require(len(kinds) == 4, "C04.2 message-type-argument", "", "four message kinds", "-", fmt.Sprintf("types 1..4 are each emitted by exactly their encoder: %v", kinds))
}

func (c *Check) prependHeaderShape(rule string) {
	p := c.P
	fn := p.Fn("prependHeader")
	if fn == nil {
		return
	}
	a := NewAnalysis(p, fn)
	a.Run()
	m, t := paramExpr(fn, 0), paramExpr(fn, 1)
	for _, r := range a.Returns {
		res := r.Results[0]
		st := r.State
		pos := p.InstrPos(r.Instr)
		lay, lerr := st.layoutOf(res, 0)
		okShape := lerr == ""
		detail := lerr
		if okShape {
			okShape, detail = matchLayout(lay, []segPat{
				{Kind: "gap", N: 16, What: "the 16 marker octets (filled by the marker loop)"},
				{Kind: "be16", Pred: func(v *Expr) bool {
					inner := v
					if inner != nil && inner.Op == "conv" {
						inner = inner.Args[0]
					}
					l := st.linOf(inner).add(st.linOf(mkLen(m)), -1)
					cv, isC := l.isConst()
					return isC && cv == 19
				}, What: "be16(len(body)+19)"},
				{Kind: "byte", Pred: func(v *Expr) bool { return v != nil && v.Key == t.Key }, What: "byte(type argument)"},
				{Kind: "bytes", Pred: func(v *Expr) bool { return v != nil && v.Key == m.Key }, What: "the body"},
			})
			if !okShape && len(lay) == 3 {
				// an empty body has no bytes segment
				if v, isC := st.rangeOf(mkLen(m)).IsConst(); isC && v == 0 {
					okShape = true
				}
			}
		}
		c.require(okShape, rule, "prependHeader", "header then body", pos, "the result is marker(16) ++ be16(len(body)+19) ++ type ++ body "+detail)
	}
	// marker: a step-1 loop over 0..15 storing 0xFF
	okM := markerLoopCovers(fn, func(ia *ssa.IndexAddr) bool {
		for _, rr := range *ia.Referrers() {
			if st, ok := rr.(*ssa.Store); ok && st.Addr == ssa.Value(ia) {
				if cst, ok := st.Val.(*ssa.Const); ok && cst.Value != nil && cst.Int64() == 255 {
					return true
				}
			}
		}
		return false
	})
	if !okM {
		okM = markerCopyCovers(fn)
	}
	c.require(okM, rule, "prependHeader", "marker", p.Pos(fn.Pos()), "a step-1 loop over indices 0..15 stores 0xFF into every marker octet of the header (or the 16 octets are copied from a constant of 16 0xFF octets)")
}

func (c *Check) writeUpdateContract(rule string) {
	p := c.P
	fn := p.Fn("updateMessageWriter.WriteUpdate")
	if fn == nil {
		return
	}
	// the first thing WriteUpdate does is a non-blocking check of closeCh; on
	// that branch it returns a non-nil error and writes nothing
	var first *ssa.Select
	allInstrs(fn, func(in ssa.Instruction) {
		if s, ok := in.(*ssa.Select); ok && first == nil && !s.Blocking {
			first = s
		}
	})
	okF := first != nil
	if okF {
		okF = len(first.States) == 1 && chanFieldName(first.States[0].Chan) == "closeCh" && first.States[0].Send == nil
		for _, w := range p.callsIn(fn, descIs("invoke:net.Conn.Write")) {
			if !instrDominates(first, w.(ssa.Instruction)) {
				okF = false
			}
		}
	}
	c.require(okF, rule, "updateMessageWriter.WriteUpdate", "closed check first", p.Pos(fn.Pos()), "a non-blocking receive from closeCh dominates the Write")
	a := NewAnalysis(p, fn)
	a.Run()
	// returns: after the closed branch (no Write happened) the error is non-nil
	nClosed := 0
	for _, r := range a.Returns {
		st := r.State
		if !st.may["call:invoke:net.Conn.Write"] {
			nClosed++
			e := r.Results[0]
			ok := !e.IsNil() && e.Op == "ld" && e.Args[0].Op == "global"
			c.require(ok, rule, "updateMessageWriter.WriteUpdate", "error after session end", p.InstrPos(r.Instr), "when the writer is closed WriteUpdate returns a package-level error value and writes nothing; got "+trunc(e.Key, 60))
		} else {
			// the result is the Write error (or nil where that error is known to be nil)
			e := r.Results[0]
			ok := e.Op == "ex" && e.Args[0].Op == "rcall" && e.Args[0].S == "invoke:net.Conn.Write"
			if !ok && e.IsNil() {
				for _, w := range p.callsIn(fn, descIs("invoke:net.Conn.Write")) {
					wv, isV := w.(ssa.Value)
					if !isV {
						continue
					}
					for _, rf := range *wv.Referrers() {
						if ex, isE := rf.(*ssa.Extract); isE && ex.Index == 1 {
							if v, isC := st.nonNil(a.ExprAt(st, ex)).IsConst(); isC && v == 0 {
								ok = true
							}
						}
					}
				}
			}
			c.require(ok, rule, "updateMessageWriter.WriteUpdate", "returns the Write error", p.InstrPos(r.Instr), "nil is returned only when conn.Write returned nil")
		}
	}
	c.floor(rule, nClosed, 1, "closed-writer returns")
	// every blocking channel operation sits in a select that also watches closeCh
	allInstrs(fn, func(in ssa.Instruction) {
		switch x := in.(type) {
		case *ssa.Send:
			c.fail(rule, "updateMessageWriter.WriteUpdate", "bare send", p.InstrPos(in), "a bare channel send can block forever after the session ended")
		case *ssa.UnOp:
			if x.Op.String() == "<-" {
				c.fail(rule, "updateMessageWriter.WriteUpdate", "bare receive", p.InstrPos(in), "a bare channel receive can block forever")
			}
		case *ssa.Select:
			if x.Blocking {
				has := false
				for _, s := range x.States {
					if s.Send == nil && chanFieldName(s.Chan) == "closeCh" {
						has = true
					}
				}
				c.require(has, rule, "updateMessageWriter.WriteUpdate", "blocking select watches closeCh", p.InstrPos(in), "cannot block after the session ended")
			}
		}
	})
	// the keepalive manager goroutine is started unconditionally before the
	// session loop (and therefore before OnEstablished), so the signal sent
	// after a write always has a receiver while the session is up
	est := p.Fn("fsm.established")
	if est != nil {
		pd := newPostDom(est)
		var g *ssa.Go
		allInstrs(est, func(in ssa.Instruction) {
			if x, ok := in.(*ssa.Go); ok {
				g = x
			}
		})
		inner := p.closureWithCall(est, descIs("invoke:Plugin.OnEstablished"))
		okG := g != nil && inner != nil && pd.onEveryReturnPath(g)
		if okG {
			for _, cl := range p.callsIn(est, descIs("closure:"+p.Name(inner))) {
				if !instrDominates(g, cl.(ssa.Instruction)) {
					okG = false
				}
			}
			// the goroutine receives on the channel the writer sends on
			t := p.staticLocalCallee(g)
			recv := false
			if t != nil {
				allInstrs(t, func(in ssa.Instruction) {
					if s, ok := in.(*ssa.Select); ok {
						for _, ss := range s.States {
							if ss.Send == nil && chanFieldName(ss.Chan) == "resetKATimerCh" {
								recv = true
							}
						}
					}
				})
			}
			okG = okG && recv
			// ... and keeps receiving until told to close: every return of
			// the goroutine lies behind the close case of that select
			if t != nil && recv {
				var sel *ssa.Select
				allInstrs(t, func(in ssa.Instruction) {
					if s, ok := in.(*ssa.Select); ok {
						for _, ss := range s.States {
							if ss.Send == nil && chanFieldName(ss.Chan) == "resetKATimerCh" {
								sel = s
							}
						}
					}
				})
				live := sel != nil && sel.Blocking
				var closeBlocks []*ssa.BasicBlock
				if live {
					for k, ss := range sel.States {
						if ss.Send == nil && chanFieldName(ss.Chan) != "resetKATimerCh" {
							if cb := selectCaseBlock(sel, k); cb != nil {
								closeBlocks = append(closeBlocks, cb)
							}
						}
					}
				}
				nret := 0
				allInstrs(t, func(in ssa.Instruction) {
					r, ok := in.(*ssa.Return)
					if !ok || (t.Recover != nil && r.Block() == t.Recover) {
						return
					}
					nret++
					dom := false
					for _, cb := range closeBlocks {
						if cb.Dominates(r.Block()) {
							dom = true
						}
					}
					if !dom {
						live = false
					}
				})
				c.require(live, rule, p.Name(t), "keepalive manager keeps receiving", p.Pos(t.Pos()),
					fmt.Sprintf("the goroutine WriteUpdate hands off to returns (%d return(s)) only from a non-reset case of the blocking select that receives resetKATimerCh; an earlier exit leaves WriteUpdate blocked until the session ends (deadlock when called on the FSM goroutine)", nret))
			}
		}
		c.require(okG, rule, "fsm.established", "keepalive manager started first", p.Pos(est.Pos()), "the goroutine receiving resetKATimerCh is spawned on every path, before the session loop that calls OnEstablished")
	}
}

func (c *Check) writerLifetime(rule string) {
	p := c.P
	// updateMessageWriter fields are written only at construction inside established()
	n := 0
	for _, fn := range p.FuncSeq {
		for _, acc := range p.fieldAccesses(fn) {
			if acc.Struct != "updateMessageWriter" || !acc.Write {
				continue
			}
			n++
			ok := isFreshWrite(acc) && fn.Parent() != nil && p.Name(fn.Parent()) == "fsm.established"
			c.require(ok, rule, p.Name(fn), "write of updateMessageWriter."+acc.Field, p.InstrPos(acc.Instr), "writer fields are set once, on a writer allocated for this session inside established()")
			if st, isS := acc.Instr.(*ssa.Store); isS && ok {
				switch acc.Field {
				case "conn":
					ld, isL := p.origin(st.Val).(*ssa.UnOp)
					okC := false
					if isL {
						if fa, isF := ld.X.(*ssa.FieldAddr); isF && structFieldName(fa) == "conn" {
							okC = true
						}
					}
					c.require(okC, rule, p.Name(fn), "writer.conn provenance", p.InstrPos(st), "the writer's connection is the session's own f.conn")
				case "closeCh":
					_, okM := st.Val.(*ssa.MakeChan)
					c.require(okM, rule, p.Name(fn), "writer.closeCh fresh", p.InstrPos(st), "each session gets a fresh closeCh")
				}
			}
		}
	}
	c.floor(rule, n, 3, "writes of updateMessageWriter fields")
	// the writer handed to the plugin is an object allocated for this session
	// (a writer that lives in the FSM object is the same pointer in every
	// session: one kept from an earlier session writes into a later one)
	if est := p.Fn("fsm.established"); est != nil {
		if inner := p.closureWithCall(est, descIs("invoke:Plugin.OnEstablished")); inner != nil {
			a := NewAnalysis(p, inner)
			a.Run()
			seen := 0
			for _, cl := range p.callsIn(inner, descIs("invoke:Plugin.OnEstablished")) {
				for _, st := range a.At[cl.(ssa.Instruction)] {
					seen++
					args := a.argExprs(st, nil, cl.Common())
					w := args[len(args)-1]
					for w.Op == "makeiface" || w.Op == "conv" {
						w = w.Args[0]
					}
					ok := w.Op == "alloc" && st.fresh[w.Key]
					c.require(ok, rule, p.Name(inner), "writer allocated per session", p.InstrPos(cl.(ssa.Instruction)),
						"the UpdateMessageWriter passed to OnEstablished is an object allocated in this entry of established(); got "+trunc(w.Key, 80))
				}
			}
			c.floor(rule, seen, 1, "OnEstablished call sites analysed")
		}
	}
	_ = types.Typ
}

// markerCopyCovers: copy(header, "\xff…\xff") with a 16-octet all-ones string
// constant, into the start of the header buffer, before every return.
func markerCopyCovers(fn *ssa.Function) bool {
	found := false
	allInstrs(fn, func(in ssa.Instruction) {
		cl, ok := in.(*ssa.Call)
		if !ok {
			return
		}
		b, isB := cl.Call.Value.(*ssa.Builtin)
		if !isB || b.Name() != "copy" || len(cl.Call.Args) != 2 {
			return
		}
		src, isC := cl.Call.Args[1].(*ssa.Const)
		if !isC || src.Value == nil || src.Value.Kind() != constant.String {
			return
		}
		sv := constant.StringVal(src.Value)
		if len(sv) != 16 || strings.Trim(sv, "\xff") != "" {
			return
		}
		dst := cl.Call.Args[0]
		for {
			sl, isS := dst.(*ssa.Slice)
			if !isS {
				break
			}
			if sl.Low != nil {
				if lc, isLC := sl.Low.(*ssa.Const); !isLC || lc.Int64() != 0 {
					return
				}
			}
			if sl.High != nil {
				if hc, isHC := sl.High.(*ssa.Const); !isHC || hc.Int64() < 16 {
					return
				}
			}
			dst = sl.X
		}
		base := rootAlloc(dst)
		if curProg != nil {
			base = rootAlloc(curProg.origin(base))
		}
		switch base.(type) {
		case *ssa.Alloc, *ssa.MakeSlice:
		default:
			return
		}
		if n, okN := constLen(base); !okN || n != 19 {
			return
		}
		every := true
		ownInstrs(fn, func(r ssa.Instruction) {
			if _, isR := r.(*ssa.Return); isR && !instrDominates(cl, r) {
				every = false
			}
		})
		if every {
			found = true
		}
	})
	return found
}

// notificationFits: a NOTIFICATION corebgp builds from what it received must
// itself be a legal message: 21 octets plus its data at most 4096. Where the
// data is (a slice of) the received octets handed to the function that builds
// the NOTIFICATION, its length there is at most 4075.
func (c *Check) notificationFits(rule string) {
	p := c.P
	maxData := p.MustConst("maxMessageLength") - p.MustConst("headerLength") - 2
	n := 0
	cache := map[*ssa.Function]*Analysis{}
	for _, fn := range p.FuncSeq {
		sites := p.callsIn(fn, descIs("newNotification"))
		if len(sites) == 0 {
			continue
		}
		facts := p.entryLenFacts(fn, cache)
		a := NewAnalysis(p, fn)
		a.Init = func(a *Analysis, st *State) {
			for k, r := range facts {
				if k < len(fn.Params) && !r.Empty() {
					st.rng[mkLen(paramExpr(fn, k)).Key] = r
				}
			}
		}
		a.Run()
		for _, cl := range sites {
			if cl.Parent() != fn {
				continue // judged in the helper's own enumeration
			}
			for _, st := range a.At[cl.(ssa.Instruction)] {
				args := a.argExprs(st, nil, cl.Common())
				if len(args) != 3 || args[2].IsNil() {
					continue
				}
				root, _, _ := sliceParts(args[2])
				if root == nil || root.Op != "param" {
					continue // built here (a few octets) or by a helper: not a piece of the input
				}
				n++
				r := st.rangeOf(mkLen(args[2]))
				ok := !r.Empty() && r.Hi() != posInf && r.Hi() <= maxData
				c.require(ok, rule, p.Name(fn), "NOTIFICATION data taken from the input fits a message", p.InstrPos(cl.(ssa.Instruction)),
					fmt.Sprintf("the data is a piece of the received octets: its length here is %s, at most %d fits (21 + data <= 4096)", r, maxData))
			}
		}
	}
	if n == 0 {
		c.ok(rule, "", "no NOTIFICATION carries a piece of its input", "-", "nothing to bound")
	}
}
