package main

// Semantic events read out of engine V states: notification values, error
// classes, call arguments.

import (
	"fmt"
	"go/types"
	"strings"

	"golang.org/x/tools/go/ssa"
)

// NotifVal is a *Notification value as known in an abstract state.
type NotifVal struct {
	Code, Sub ISet
	Data      *Expr
	Ptr       *Expr
}

func (n NotifVal) String() string {
	return fmt.Sprintf("(%s,%s,data=%s)", n.Code, n.Sub, trunc(n.Data.String(), 80))
}

// loadField reads field `name` of the struct pointed to by ptr in state st.
func (p *Prog) loadField(st *State, ptr *Expr, typ, name string) *Expr {
	f := p.Field(typ, name)
	if f == nil {
		return nil
	}
	fa := mkFieldAddr(ptr, name, 0, types.NewPointer(f.Type()), typ)
	return st.load(fa, f.Type())
}

// notifAt interprets e (a *Notification pointer term) in st.
func (p *Prog) notifAt(st *State, e *Expr) (NotifVal, bool) {
	if e == nil {
		return NotifVal{}, false
	}
	if e.Op == "makeiface" && e.S == "*Notification" {
		e = e.Args[0]
	}
	if e.Op != "alloc" {
		return NotifVal{}, false
	}
	code := p.loadField(st, e, "Notification", "Code")
	sub := p.loadField(st, e, "Notification", "Subcode")
	data := p.loadField(st, e, "Notification", "Data")
	if code == nil || sub == nil {
		return NotifVal{}, false
	}
	return NotifVal{Code: st.rangeOf(code), Sub: st.rangeOf(sub), Data: data, Ptr: e}, true
}

// ErrClass describes an error value term.
type ErrClass struct {
	Kind  string // "nil", "notificationError", "Notification", "TreatAsWithdraw", "AttrDiscard", "wrapped", "joined", "other"
	Notif *NotifVal
	Out   ISet    // for notificationError
	Code  ISet    // attribute code for update errors
	Inner []*Expr // wrapped / joined operands
	Expr  *Expr
}

// classifyErr interprets an error-valued term.
func (p *Prog) classifyErr(st *State, e *Expr) ErrClass {
	ec := ErrClass{Kind: "other", Expr: e}
	if e == nil {
		return ec
	}
	if e.IsNil() {
		ec.Kind = "nil"
		return ec
	}
	if e.Op == "makeiface" {
		inner := e.Args[0]
		switch e.S {
		case "*notificationError":
			ec.Kind = "notificationError"
			if inner.Op == "alloc" {
				n := p.loadField(st, inner, "notificationError", "notification")
				if nv, ok := p.notifAt(st, n); ok {
					ec.Notif = &nv
				}
				if o := p.loadField(st, inner, "notificationError", "out"); o != nil {
					ec.Out = st.evalBool(o)
				}
			}
		case "*Notification":
			ec.Kind = "Notification"
			if nv, ok := p.notifAt(st, inner); ok {
				ec.Notif = &nv
			}
		case "*TreatAsWithdrawUpdateErr", "*AttrDiscardUpdateErr":
			tn := strings.TrimPrefix(e.S, "*")
			ec.Kind = map[string]string{"TreatAsWithdrawUpdateErr": "TreatAsWithdraw", "AttrDiscardUpdateErr": "AttrDiscard"}[tn]
			if inner.Op == "alloc" {
				if c := p.loadField(st, inner, tn, "Code"); c != nil {
					ec.Code = st.rangeOf(c)
				}
				n := p.loadField(st, inner, tn, "Notification")
				if nv, ok := p.notifAt(st, n); ok {
					ec.Notif = &nv
				}
			}
		}
		return ec
	}
	if e.Op == "call" {
		switch e.S {
		case "fmt.Errorf":
			ec.Kind = "wrapped"
			if len(e.Args) > 2 {
				ec.Inner = e.Args[2:]
			}
		case "errors.Join":
			ec.Kind = "joined"
			ec.Inner = e.Args
		case "errors.New":
			ec.Kind = "plain"
		}
	}
	return ec
}

// callArgsAt returns, for each reachable state before call c, the argument
// terms (receiver first for interface calls).
func (a *Analysis) callArgsAt(c ssa.CallInstruction) [][]*Expr {
	var out [][]*Expr
	for _, st := range a.At[c.(ssa.Instruction)] {
		out = append(out, a.argExprs(st, nil, c.Common()))
	}
	return out
}

// paramName returns the name of the i-th parameter (receiver counts as 0 for
// methods) of fn, or "" if out of range.
func paramName(fn *ssa.Function, i int) string {
	if fn == nil || i < 0 || i >= len(fn.Params) {
		return ""
	}
	return fn.Params[i].Name()
}
