package main

// Obligations, known findings, evidence and replay files.

import (
	"encoding/json"
	"fmt"
	"golang.org/x/tools/go/ssa"
	"os"
	"path/filepath"
	"sort"
	"strings"
	"time"
)

// Obligation is one decided (or undecided) instance of a rule.
type Obligation struct {
	Rule      string `json:"rule"`      // e.g. "C02.2 rejection-implies-fault"
	Fn        string `json:"function"`  // anchor function
	Construct string `json:"construct"` // stable description of the site (never a line number)
	Pos       string `json:"pos"`       // file:line, for the reader only
	Status    string `json:"status"`    // "ok", "violated", "undecided"
	Detail    string `json:"detail,omitempty"`
	Config    string `json:"config,omitempty"`
}

// Check accumulates the result of deciding one property.
type Check struct {
	ID     string
	P      *Prog
	Obls   []Obligation
	Funcs  map[string]bool
	Rules  map[string]int // rule -> instances
	Notes  []string
	Assume []string
}

func newCheck(id string, p *Prog) *Check {
	curProg = p
	return &Check{ID: id, P: p, Funcs: map[string]bool{}, Rules: map[string]int{}}
}

func (c *Check) add(status, rule, fn, construct, pos, detail string) {
	c.Rules[rule]++
	if fn != "" {
		c.Funcs[fn] = true
	}
	cfg := ""
	if c.P != nil {
		cfg = c.P.Cfg.String()
	}
	c.Obls = append(c.Obls, Obligation{Rule: rule, Fn: fn, Construct: construct, Pos: pos, Status: status, Detail: detail, Config: cfg})
}

func (c *Check) ok(rule, fn, construct, pos, detail string) {
	c.add("ok", rule, fn, construct, pos, detail)
}
func (c *Check) fail(rule, fn, construct, pos, detail string) {
	c.add("violated", rule, fn, construct, pos, detail)
}
func (c *Check) undecided(rule, fn, construct, pos, detail string) {
	c.add("undecided", rule, fn, construct, pos, detail)
}

// require records ok/violated depending on cond.
func (c *Check) require(cond bool, rule, fn, construct, pos, detail string) bool {
	if cond {
		c.ok(rule, fn, construct, pos, detail)
	} else {
		c.fail(rule, fn, construct, pos, detail)
	}
	return cond
}

// floor fails the check when a rule matched fewer instances than confirmed
// by hand on the pinned tree (a rule matching nothing passes vacuously).
func (c *Check) floor(rule string, got, min int, what string) {
	if got < min {
		c.undecided(rule, "", "instance-floor", "-", fmt.Sprintf("%s: found %d instances, expected at least %d", what, got, min))
	} else {
		c.ok(rule, "", "instance-floor", "-", fmt.Sprintf("%s: %d instances (floor %d)", what, got, min))
	}
}

// sig checks the parameter count (receiver included) a rule was written for;
// a different signature means the rule cannot be evaluated, which is reported
// rather than skipped (a rule that silently matches nothing passes for ever).
func (c *Check) sig(rule string, fn *ssa.Function, n int) bool {
	if len(fn.Params) == n {
		return true
	}
	c.undecided(rule, c.P.Name(fn), "signature", c.P.Pos(fn.Pos()), fmt.Sprintf("the rule expects %d parameters (receiver included), the function has %d", n, len(fn.Params)))
	return false
}

// anchors turns unresolved anchors into undecided obligations.
func (c *Check) anchors() {
	seen := map[string]bool{}
	for _, u := range c.P.unresolved {
		if seen[u] {
			continue
		}
		seen[u] = true
		c.undecided(c.ID+".anchor", "", "unresolved-anchor "+u, "-", "anchor could not be resolved through go/types; the rule set cannot be evaluated")
	}
	c.P.unresolved = nil
}

// ---- known findings ---------------------------------------------------------

type KnownFinding struct {
	Property  string `json:"property"`
	Rule      string `json:"rule"`
	Function  string `json:"function"`
	Construct string `json:"construct"`
	What      string `json:"what"`
	Short     string `json:"short,omitempty"`
	Status    string `json:"status"` // "known" | "fixed"
	Commit    string `json:"commit,omitempty"`
}

func verifDir() string {
	if d := os.Getenv("CBGP_VERIF"); d != "" {
		return d
	}
	return "/verif"
}

func loadKnown() []KnownFinding {
	b, err := os.ReadFile(filepath.Join(verifDir(), "known_findings.json"))
	if err != nil {
		return nil
	}
	var f struct {
		Findings []KnownFinding `json:"findings"`
	}
	if json.Unmarshal(b, &f) != nil {
		return nil
	}
	return f.Findings
}

func matchKnown(kf []KnownFinding, prop string, o Obligation) *KnownFinding {
	for i := range kf {
		k := &kf[i]
		if k.Status != "known" || k.Property != prop {
			continue
		}
		if k.Rule == o.Rule && k.Function == o.Fn && k.Construct == o.Construct {
			return k
		}
	}
	return nil
}

// ---- evidence ----------------------------------------------------------------

type runResult struct {
	ID          string
	Tier        string
	Seed        int64
	Checks      []*Check // one per build configuration
	Start       time.Time
	Extra       map[string]interface{}
	LoadErrors  []string
	LoadSeconds float64
}

func (r *runResult) finish() int {
	known := loadKnown()
	var viol, undec, okc, knownHits []Obligation
	rules := map[string]int{}
	funcs := map[string]bool{}
	var configs []string
	seenKF := map[string]bool{}
	var notes, assumptions []string
	for _, c := range r.Checks {
		if c.P != nil {
			configs = append(configs, c.P.Cfg.String())
		}
		for k, v := range c.Rules {
			if v > rules[k] {
				rules[k] = v
			}
		}
		for f := range c.Funcs {
			funcs[f] = true
		}
		notes = append(notes, c.Notes...)
		assumptions = append(assumptions, c.Assume...)
		for _, o := range c.Obls {
			switch o.Status {
			case "ok":
				okc = append(okc, o)
			case "undecided":
				undec = append(undec, o)
			default:
				if k := matchKnown(known, r.ID, o); k != nil {
					knownHits = append(knownHits, o)
					key := k.Rule + "|" + k.Function + "|" + k.Construct
					if !seenKF[key] {
						seenKF[key] = true
						what := k.Short
						if what == "" {
							what = k.What
						}
						fmt.Printf("KNOWN-FINDING: property=%s %s [%s %s: %s]\n", r.ID, what, k.Rule, k.Function, k.Construct)
					}
				} else {
					viol = append(viol, o)
				}
			}
		}
	}
	for _, e := range r.LoadErrors {
		undec = append(undec, Obligation{Rule: r.ID + ".load", Construct: "load", Status: "undecided", Detail: e})
	}
	total := len(okc) + len(viol) + len(undec) + len(knownHits)
	bad := len(viol) + len(undec)

	// samples: a few discharged obligations and all failing ones
	var samples []interface{}
	step := 1
	if len(okc) > 12 {
		step = len(okc) / 12
	}
	for i := 0; i < len(okc); i += step {
		samples = append(samples, okc[i])
	}
	for _, o := range viol {
		samples = append(samples, o)
	}
	for _, o := range undec {
		samples = append(samples, o)
	}
	if len(samples) == 0 {
		samples = append(samples, map[string]string{"note": "no obligations generated"})
	}
	fl := make([]string, 0, len(funcs))
	for f := range funcs {
		fl = append(fl, f)
	}
	sort.Strings(fl)
	sort.Strings(configs)
	assumptions = dedup(append(assumptions,
		"go/types, go/ssa (x/tools v0.29.0) faithfully represent the program the Go compiler builds",
		"documented contracts of io.ReadFull, net.Conn, time.Timer, sync, errors, encoding/binary, net/netip (library summaries, DESIGN.md §2.6)",
		"int (64-bit) arithmetic on slice lengths and small constants does not overflow",
	))
	distinct := map[string]bool{}
	for _, c := range r.Checks {
		for _, o := range c.Obls {
			if o.Construct != "instance-floor" {
				distinct[o.Rule+"|"+o.Fn+"|"+o.Construct] = true
			}
		}
	}
	cov := map[string]interface{}{
		"explanation": fmt.Sprintf("Static analysis of /repo's current source (type-checked, lowered to go/ssa; no code of the repository executed). "+
			"%d proof obligations generated by %d rules over %d functions in %d build configuration(s); %d discharged, %d violated, %d undecided, %d matched a listed known finding. "+
			"Each obligation is a structural necessary condition of property %s (DESIGN.md §4 %s); verdicts are decided on all paths of the analysed functions by dominance/post-dominance, "+
			"ownership/lockset, table agreement and a branch-refined value-set abstract interpretation.", total, len(rules), len(fl), len(configs), len(okc), len(viol), len(undec), len(knownHits), r.ID, r.ID),
		"obligations":          total,
		"discharged":           len(okc),
		"violated":             len(viol),
		"undecided":            len(undec),
		"known_findings_hit":   len(knownHits),
		"evaluations":          total,
		"distinct_nontrivial":  len(distinct),
		"rule":                 "one evaluation per (rule, function, construct, build configuration); distinct = distinct (rule, function, construct) keys excluding instance-floor bookkeeping",
		"samples":              samples,
		"rules":                rules,
		"functions":            fl,
		"build_configurations": configs,
		"checker_cmd":          fmt.Sprintf("bin/cbgpcheck check %s --tier %s", r.ID, r.Tier),
		"trusted_base":         []string{"go/types", "go/ssa", "library summaries (DESIGN.md §2.6)"},
		"exhaustive":           false,
	}
	if len(notes) > 0 {
		cov["notes"] = dedup(notes)
	}
	for k, v := range r.Extra {
		cov[k] = v
	}
	ev := map[string]interface{}{
		"property_id": r.ID,
		"tier":        r.Tier,
		"seed":        r.Seed,
		"level":       "other",
		"coverage":    cov,
		"assumptions": assumptions,
		"wall_s":      time.Since(r.Start).Seconds() + r.LoadSeconds,
		"violations":  len(viol) + len(undec),
	}
	evDir := filepath.Join(verifDir(), "evidence")
	os.MkdirAll(evDir, 0o755)
	b, _ := json.MarshalIndent(ev, "", " ")
	if err := os.WriteFile(filepath.Join(evDir, r.ID+".json"), b, 0o644); err != nil {
		fmt.Println("cannot write evidence:", err)
		bad++
	}
	fmt.Printf("%s: %d obligations, %d ok, %d violated, %d undecided, %d known (rules=%d funcs=%d configs=%d, %.1fs)\n",
		r.ID, total, len(okc), len(viol), len(undec), len(knownHits), len(rules), len(fl), len(configs), time.Since(r.Start).Seconds()+r.LoadSeconds)
	if bad > 0 {
		rpDir := filepath.Join(verifDir(), "replay")
		os.MkdirAll(rpDir, 0o755)
		rp := filepath.Join(rpDir, r.ID+".json")
		rb, _ := json.MarshalIndent(map[string]interface{}{"property": r.ID, "violated": viol, "undecided": undec}, "", " ")
		os.WriteFile(rp, rb, 0o644)
		for _, o := range viol {
			fmt.Printf("  violated  %-34s %s %s: %s — %s\n", o.Rule, o.Pos, o.Fn, o.Construct, o.Detail)
		}
		for _, o := range undec {
			fmt.Printf("  undecided %-34s %s %s: %s — %s\n", o.Rule, o.Pos, o.Fn, o.Construct, o.Detail)
		}
		fmt.Printf("VIOLATION property=%s replay=%s\n", r.ID, rp)
		return 1
	}
	return 0
}

func dedup(in []string) []string {
	seen := map[string]bool{}
	var out []string
	for _, s := range in {
		if !seen[s] {
			seen[s] = true
			out = append(out, s)
		}
	}
	return out
}

func trunc(s string, n int) string {
	s = strings.ReplaceAll(s, "\n", " ")
	if len(s) > n {
		return s[:n] + "…"
	}
	return s
}
