package main

// C03 — inbound UPDATEs reach the handler exactly once, in order, byte-exact.

import (
	"fmt"
	"go/token"

	"golang.org/x/tools/go/ssa"
)

func init() { register("C03", checkC03) }

func checkC03(c *Check) {
	c.connUses("C03.1 connection-use")
	c.readerFraming("C03.1 framing")
	c.readerHandoff()
	c.updateBodyPrivate("C03.3 delivered-slice-private")
	c.messageResults("C03.3 delivered-bytes")
	c.handlerDiscipline("C03.4 handler-discipline")
	c.notificationEncode("C03.4 notification-sent-verbatim")
	c.holdTimerDrainAndReset("C03.4 no-spurious-expiry")
	c.writeUpdateContract("C03.4 handler-not-wedged")
	c.restartAfterHandler("C03.4 restart-after-handler")
	// single sender / single receiver of the message channel
	p := c.P
	senders, receivers := map[string]bool{}, map[string]bool{}
	for _, fn := range p.FuncSeq {
		allInstrs(fn, func(in ssa.Instruction) {
			if sel, ok := in.(*ssa.Select); ok {
				for _, ss := range sel.States {
					if chanFieldName(ss.Chan) == "readerMsgCh" {
						if ss.Send != nil {
							senders[p.Name(fn)] = true
						} else {
							receivers[p.Name(fn)] = true
						}
					}
				}
			}
			if s, ok := in.(*ssa.Send); ok && chanFieldName(s.Chan) == "readerMsgCh" {
				senders[p.Name(fn)] = true
			}
			if u, ok := in.(*ssa.UnOp); ok && u.Op.String() == "<-" && chanFieldName(u.X) == "readerMsgCh" {
				receivers[p.Name(fn)] = true
			}
		})
	}
	okS := len(senders) == 1 && senders["fsm.read"]
	c.require(okS, "C03.2 reader-handoff", "fsm.read", "single sender", "-", fmt.Sprintf("readerMsgCh is sent on only by the reader goroutine (senders: %v)", sortedKeys(senders)))
	run := p.reach(p.Fn("fsm.run"))
	okR := len(receivers) > 0
	for r := range receivers {
		if f, ok := p.Funcs[r]; !ok || !run[f] {
			okR = false
		}
	}
	c.require(okR, "C03.2 reader-handoff", "fsm.run", "single receiving goroutine", "-", fmt.Sprintf("readerMsgCh is received only in the FSM goroutine (receivers: %v)", sortedKeys(receivers)))
}

// handlerIsResultOf: v is the value est returned, possibly with a function
// that does nothing substituted where est returned nil (`if h == nil { h =
// func(…) *Notification { return nil } }`).
func handlerIsResultOf(v, est ssa.Value) bool {
	if v == est {
		return true
	}
	phi, ok := v.(*ssa.Phi)
	if !ok {
		return false
	}
	sawEst := false
	for i, e := range phi.Edges {
		if e == est {
			sawEst = true
			continue
		}
		if e == ssa.Value(phi) {
			continue // the loop carries the value unchanged
		}
		if ct, isCT := e.(*ssa.ChangeType); isCT {
			e = ct.X
		}
		var f *ssa.Function
		switch x := e.(type) {
		case *ssa.MakeClosure:
			if len(x.Bindings) == 0 {
				f, _ = x.Fn.(*ssa.Function)
			}
		case *ssa.Function:
			f = x
		}
		if f == nil || !returnsNilOnly(f) {
			return false
		}
		// the substitute is chosen only where est is nil
		pred := phi.Block().Preds[i]
		guarded := false
		for _, b := range est.(ssa.Instruction).Parent().Blocks {
			iff, isIf := b.Instrs[len(b.Instrs)-1].(*ssa.If)
			if !isIf {
				continue
			}
			bo, isB := iff.Cond.(*ssa.BinOp)
			if !isB || (bo.Op != token.EQL && bo.Op != token.NEQ) {
				continue
			}
			cst, isC := bo.Y.(*ssa.Const)
			if bo.X != est || !isC || !cst.IsNil() {
				continue
			}
			succ := b.Succs[0]
			if bo.Op == token.NEQ {
				succ = b.Succs[1]
			}
			if len(succ.Preds) == 1 && succ.Dominates(pred) {
				guarded = true
			}
		}
		if !guarded {
			return false
		}
	}
	return sawEst
}

// returnsNilOnly: f calls nothing, stores nothing, and returns nil.
func returnsNilOnly(f *ssa.Function) bool {
	if len(f.Blocks) != 1 {
		return false
	}
	for _, in := range f.Blocks[0].Instrs {
		switch x := in.(type) {
		case *ssa.DebugRef:
		case *ssa.Return:
			for _, r := range x.Results {
				c, ok := r.(*ssa.Const)
				if !ok || !c.IsNil() {
					return false
				}
			}
		default:
			return false
		}
	}
	return true
}

// handlerDiscipline: OnEstablished / handler / OnClose protocol inside one
// session (C01.6, C03.4).
func (c *Check) handlerDiscipline(rule string) {
	p := c.P
	outer := p.Fn("fsm.established")
	if outer == nil {
		return
	}
	onEst, onClose := "invoke:Plugin.OnEstablished", "invoke:Plugin.OnClose"
	p.IfaceMethod("Plugin", "OnEstablished")
	p.IfaceMethod("Plugin", "OnClose")
	inner := p.closureWithCall(outer, descIs(onEst))
	if inner == nil {
		c.undecided(rule, "fsm.established", "OnEstablished call", p.Pos(outer.Pos()), "not found")
		return
	}
	in := p.Name(inner)
	est := p.callsIn(inner, descIs(onEst))
	hc := p.callsIn(inner, descIs("dyn:UpdateMessageHandler"))
	okE := len(est) == 1 && !inLoop(est[0].Block())
	c.require(okE, rule, in, "OnEstablished once", p.Pos(inner.Pos()), fmt.Sprintf("OnEstablished is called exactly once per session, outside the message loop (sites: %d)", len(est)))
	okH := len(hc) == 1 && okE
	if okH {
		h := hc[0]
		// a call made in a helper the handler was handed to is judged where
		// the session loop calls that helper, and its callee is the argument
		// passed there
		site := ssa.Instruction(h.(ssa.Instruction))
		callee := h.Common().Value
		for depth := 0; depth < 3 && site.Parent() != inner; depth++ {
			var up *ssa.Call
			n := 0
			seenG := map[*ssa.Function]bool{}
			for _, g := range append([]*ssa.Function{inner}, deepFuncs(inner)...) {
				if seenG[g] {
					continue
				}
				seenG[g] = true
				ownInstrs(g, func(x ssa.Instruction) {
					if cl, isC := x.(*ssa.Call); isC && p.helperCallee(x) == site.Parent() {
						up = cl
						n++
					}
				})
			}
			if n != 1 {
				break
			}
			if pr, isP := callee.(*ssa.Parameter); isP {
				for k, q := range site.Parent().Params {
					if q == pr && k < len(up.Call.Args) {
						callee = up.Call.Args[k]
					}
				}
			}
			site = up
		}
		okH = site.Parent() == inner && inLoop(site.Block()) && instrDominates(est[0].(ssa.Instruction), site) && handlerIsResultOf(callee, est[0].(ssa.Value))
		if _, isGo := h.(*ssa.Go); isGo {
			okH = false
		}
		if _, isDefer := h.(*ssa.Defer); isDefer {
			okH = false
		}
	}
	// every exit of the session loop comes after OnEstablished: the outer
	// function delivers OnClose on every exit, so a return before it would be
	// an OnClose without its OnEstablished
	if okE {
		ownInstrs(inner, func(x ssa.Instruction) {
			if ret, isR := x.(*ssa.Return); isR && !(ret.Block().Index != 0 && len(ret.Block().Preds) == 0) {
				c.require(instrDominates(est[0].(ssa.Instruction), ret), rule, in, "no exit before OnEstablished", p.InstrPos(ret),
					"the session loop returns only after OnEstablished was called (OnClose follows every return)")
			}
		})
	}
	c.require(okH, rule, in, "handler call", p.Pos(inner.Pos()), "the handler invoked is the value OnEstablished returned; it is called synchronously, at one site, inside the loop, after OnEstablished")
	// handler returns a notification => sent verbatim, session ends
	isHandlerRes := func(e *Expr) bool { return e.Op == "rcall" && e.S == "dyn:UpdateMessageHandler" }
	for _, v := range []int64{1, 0} {
		a := NewAnalysis(p, inner)
		a.EventArgs = p.sendNotifEventArgs
		a.AtomHook = hooks(msgTypeHook("updateMessage", []string{"*Notification", "*keepAliveMessage", "*openMessage", "updateMessage"}), func(e *Expr) (ISet, bool) {
			if e.Op == "nn" && isHandlerRes(e.Args[0]) {
				return isConst(v), true
			}
			if e.Op == "nn" && e.Args[0].Op == "rcall" && e.Args[0].S == onEst {
				return isConst(1), true
			}
			return nil, false
		})
		a.Run()
		n := 0
		for _, r := range a.Returns {
			if !typeSwitchDominated(r.Instr) {
				continue
			}
			n++
			st := r.State
			idle := p.MustConst("idleState")
			next, isC := st.rangeOf(r.Results[0]).IsConst()
			ok := v == 1 && isC && next == idle
			if ok {
				ec := p.classifyErr(st, r.Results[1])
				ok = ec.Kind == "notificationError"
				if ok {
					nn := p.loadField(st, r.Results[1].Args[0], "notificationError", "notification")
					o, isO := ec.Out.IsConst()
					ok = nn != nil && isHandlerRes(nn) && isO && o == 1 && st.must["call:fsm.sendNotification("+nn.Key+")"]
				}
			}
			c.require(ok, rule, in, fmt.Sprintf("handler result non-nil=%d", v), p.InstrPos(r.Instr),
				"a non-nil handler result is passed unchanged to sendNotification and returned as notificationError{n, out=true} with next state Idle; a nil result never ends the session")
		}
		if v == 1 && n == 0 {
			c.fail(rule, in, "handler result non-nil=1", p.Pos(inner.Pos()), "no return reachable after a non-nil handler result: the session is not ended")
		}
		if v == 0 && n == 0 {
			c.ok(rule, in, "handler result non-nil=0", p.Pos(inner.Pos()), "nil handler result: the loop continues")
		}
	}
	// teardown order in the outer function: closure call -> cleanupConnAndReader -> OnClose, each on every path
	pd := newPostDom(outer)
	var callClosure, cleanup, closeCall ssa.Instruction
	allInstrs(outer, func(x ssa.Instruction) {
		ci, ok := x.(ssa.CallInstruction)
		if !ok {
			return
		}
		switch d := p.calleeDesc(ci); {
		case d == "closure:"+in:
			callClosure = x
		case d == "fsm.cleanupConnAndReader":
			cleanup = x
		case d == onClose:
			closeCall = x
		}
	})
	okT := callClosure != nil && cleanup != nil && closeCall != nil
	if okT {
		okT = instrDominates(callClosure, cleanup) && instrDominates(cleanup, closeCall) &&
			pd.onEveryReturnPath(closeCall) && pd.onEveryReturnPath(cleanup) && !inLoop(closeCall.Block())
	}
	nClose := len(p.callsDeep(outer, descIs(onClose)))
	c.require(okT && nClose == 1, rule, "fsm.established", "teardown order", p.Pos(outer.Pos()),
		"on every exit: session loop returns, then cleanupConnAndReader(), then OnClose exactly once (after the last possible handler call)")
	// OnClose / OnEstablished are called nowhere else
	for _, fn := range p.FuncSeq {
		if fn == outer || fn == inner {
			continue
		}
		for _, cl := range p.callsIn(fn, descIs(onClose, onEst, "dyn:UpdateMessageHandler")) {
			c.fail(rule, p.Name(fn), "session callback outside established()", p.InstrPos(cl.(ssa.Instruction)), p.calleeDesc(cl)+" is called outside the established() session scope")
		}
	}
	// the writer is closed on every exit of the session loop, before teardown
	wr := p.fieldQuiet("updateMessageWriter", "closeCh")
	okW := false
	if wr != nil {
		allInstrs(inner, func(x ssa.Instruction) {
			d, ok := x.(*ssa.Defer)
			if !ok {
				return
			}
			if !instrDominates(d, est[0].(ssa.Instruction)) {
				return
			}
			// defer close(ch) directly, or a deferred function that closes it;
			// ch is a channel stored in the writer's closeCh field
			if p.calleeDesc(d) == "builtin:close" && len(d.Call.Args) == 1 && p.chanIsField(d.Call.Args[0], "updateMessageWriter", "closeCh") {
				okW = true
			}
			if t := p.staticLocalCallee(d); t != nil {
				for _, cl := range p.callsIn(t, descIs("builtin:close")) {
					if p.chanIsField(cl.Common().Args[0], "updateMessageWriter", "closeCh") {
						okW = true
					}
				}
			}
		})
	}
	c.require(okW, "C04.4 writer-lifetime", in, "deferred close(writer.closeCh)", p.Pos(inner.Pos()), "a defer registered before OnEstablished closes the writer's closeCh on every exit of the session loop (before connection teardown and OnClose)")
}
