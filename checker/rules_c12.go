package main

// C12 — protocol errors damp the peer; Cease and transport faults do not.

import (
	"fmt"
	"strconv"
	"strings"

	"golang.org/x/tools/go/ssa"
)

func init() { register("C12", checkC12) }

// dampPeerRule: dampPeer() is true exactly for codes other than Cease.
func (c *Check) dampPeerRule(rule string) {
	p := c.P
	if !p.HasFn("notificationError.dampPeer") {
		// the predicate written out where it is used: decided there (the
		// handle-error cases assume the notification's code instead)
		c.ok(rule, "peer.handleError", "damp predicate inlined", "-", "no dampPeer method: the handle-error cases are stated on the notification's code")
		return
	}
	fn := p.Fn("notificationError.dampPeer")
	if fn == nil {
		return
	}
	cease := p.MustConst("NOTIF_CODE_CEASE")
	for _, w := range []struct {
		name string
		code ISet
		out  int64
		want int64
	}{
		{"Cease sent", isConst(cease), 1, 0}, {"Cease received", isConst(cease), 0, 0},
		{"other code sent", isRange(0, 255).Minus(isConst(cease)), 1, 1}, {"other code received", isRange(0, 255).Minus(isConst(cease)), 0, 1},
	} {
		a := NewAnalysis(p, fn)
		a.AtomHook = hooks(rangeHook(func(e *Expr) bool { return isFieldRead(e, "Code") }, w.code), rangeHook(func(e *Expr) bool { return isFieldRead(e, "out") }, isConst(w.out)))
		a.Run()
		ok := len(a.Returns) > 0
		for _, r := range a.Returns {
			v, isC := r.State.evalBool(r.Results[0]).IsConst()
			if !isC || v != w.want {
				ok = false
			}
		}
		c.require(ok, rule, "notificationError.dampPeer", w.name, p.Pos(fn.Pos()), fmt.Sprintf("dampPeer() = %v", w.want == 1))
	}
}

// holdDownSemantics: who sets/clears inHoldDown and what happens with it.
func (c *Check) holdDownSemantics(rule string) {
	p := c.P
	run := p.Fn("peer.run")
	if run == nil {
		return
	}
	p.Field("peer", "inHoldDown")
	// stores to inHoldDown
	n := 0
	for _, fn := range p.FuncSeq {
		allInstrs(fn, func(in ssa.Instruction) {
			st, ok := in.(*ssa.Store)
			if !ok {
				return
			}
			fa, ok := st.Addr.(*ssa.FieldAddr)
			if !ok || structFieldName(fa) != "inHoldDown" {
				return
			}
			n++
			cst, isC := st.Val.(*ssa.Const)
			val := isC && cst.Value != nil && cst.Value.String() == "true"
			switch {
			case val:
				c.require(p.Name(fn) == "peer.handleError", rule, p.Name(fn), "inHoldDown = true", p.InstrPos(in), "hold-down starts only in handleError")
			default:
				okC := p.Name(fn) == "peer.run" && isC
				if okC {
					// preceded in the same block sequence by enableFSM(out, nil)
					okC = false
					for _, cl := range p.callsIn(fn, descIs("peer.enableFSM")) {
						if instrDominates(cl.(ssa.Instruction), in) && cl.Block() == in.Block() {
							okC = true
						}
					}
				}
				c.require(okC, rule, p.Name(fn), "inHoldDown = false", p.InstrPos(in), "hold-down ends only in the damping-timer case of the peer manager, together with enableFSM(out, nil)")
			}
		})
	}
	c.floor(rule, n, 2, "stores to peer.inHoldDown")
}

func checkC12(c *Check) {
	p := c.P
	c.rendezvousChannels("C12.2 error-seen-before-next-transition", "errorCh")
	c.fsmContracts("C12.2 fsm-effects")
	c.notificationDecode("C12.1 received-notification-decoded")
	c.messageResults("C12.1 received-notification-type")
	c.disableEnablePairing("C12.5 recorded-state-reset-when-damped")
	c.specConstants("C12.1 spec-constants", "NOTIF_CODE_CEASE")
	c.dampPeerRule("C12.1 damp-predicate")
	he := p.Fn("peer.handleError")
	if he == nil {
		return
	}
	// unwrap-aware test: errors.As with a **notificationError target, no type assertion on err
	as := p.callsIn(he, descIs("errors.As"))
	okAs := len(as) == 1
	if okAs {
		t := as[0].Common().Args[1]
		if mi, isMI := t.(*ssa.MakeInterface); isMI {
			t = mi.X
		}
		okAs = strings.Contains(t.Type().String(), "notificationError")
	}
	ta := 0
	allInstrs(he, func(in ssa.Instruction) {
		if _, ok := in.(*ssa.TypeAssert); ok {
			ta++
		}
	})
	c.require(okAs && ta == 0, "C12.2 handle-error", "peer.handleError", "errors.As", p.Pos(he.Pos()),
		"the notification is looked up with errors.As (the FSM wraps reader/validation errors with %w); a plain type assertion would miss them")
	isAs := func(e *Expr) bool { return e.Op == "call" && strings.HasPrefix(e.S, "errors.As:") }
	isDamp := func(e *Expr) bool { return e.Op == "rcall" && e.S == "notificationError.dampPeer" }
	in, out := p.MustConst("in"), p.MustConst("out")
	for _, w := range []struct {
		name     string
		as, damp int64
		expect   bool
	}{{"notification error that damps", 1, 1, true}, {"notification error that does not damp (Cease)", 1, 0, false}, {"not a notification error (transport)", 0, 0, false}} {
		a := NewAnalysis(p, he)
		a.AtomHook = hooks(rangeHook(isAs, isConst(w.as)), rangeHook(isDamp, isConst(w.damp)))
		if !p.HasFn("notificationError.dampPeer") {
			// damping is "any code but Cease"
			cease := p.MustConst("NOTIF_CODE_CEASE")
			codes := isConst(cease)
			if w.damp == 1 {
				codes = isRange(0, 255).Minus(isConst(cease))
			}
			a.AtomHook = hooks(rangeHook(isAs, isConst(w.as)), rangeHook(func(e *Expr) bool { return isFieldRead(e, "Code") }, codes))
		}
		a.EventArgs = func(st *State, desc string, args []*Expr) string {
			if desc == "peer.disableFSM" && len(args) == 2 {
				if v, ok := st.rangeOf(args[1]).IsConst(); ok {
					return fmt.Sprint(v)
				}
			}
			return ""
		}
		a.NoInline = map[string]bool{"notificationError.dampPeer": true}
		a.Run()
		ok := len(a.Returns) > 0
		detail := ""
		for _, r := range a.Returns {
			st := r.State
			hd := false
			for k, v := range st.mem {
				if me := st.memE[k]; me != nil && me.Op == "fa" && me.S == "inHoldDown" {
					if cv, isC := v.IsConst(); isC && cv == 1 {
						hd = true
					}
				}
			}
			all := st.must[fmt.Sprintf("call:peer.disableFSM(%d)", in)] && st.must[fmt.Sprintf("call:peer.disableFSM(%d)", out)] && st.must["call:peer.updateStartupDelay"] && hd
			none := !st.may["call:peer.disableFSM"] && !st.may["call:peer.updateStartupDelay"] && !hd
			if w.expect && !all {
				ok = false
				detail = "both FSMs must be disabled, the startup delay updated and inHoldDown set"
			}
			if !w.expect && !none {
				ok = false
				detail = "no FSM may be disabled, no delay started, inHoldDown untouched"
			}
		}
		c.require(ok, "C12.2 handle-error", "peer.handleError", w.name, p.Pos(he.Pos()), detail)
	}
	// only handleError calls updateStartupDelay; only updateStartupDelay touches the error history
	for _, fn := range p.FuncSeq {
		for _, cl := range p.callsIn(fn, descIs("peer.updateStartupDelay")) {
			c.require(fn == he, "C12.2 handle-error", p.Name(fn), "updateStartupDelay call", p.InstrPos(cl.(ssa.Instruction)), "the delay is updated only for damping errors")
		}
		for _, acc := range p.fieldAccesses(fn) {
			if acc.Struct == "peer" && (acc.Field == "lastProtoError" || acc.Field == "startupDelay") && acc.Write && !isFreshWrite(acc) {
				c.require(p.Name(fn) == "peer.updateStartupDelay", "C12.4 backoff", p.Name(fn), "write of peer."+acc.Field, p.InstrPos(acc.Instr),
					"the protocol-error history (last error time, current delay) changes only inside updateStartupDelay, i.e. only for damping errors")
			}
		}
		for _, cl := range p.callsIn(fn, descIs("time.Since")) {
			c.require(p.Name(fn) == "peer.updateStartupDelay", "C12.4 backoff", p.Name(fn), "amnesia test", p.InstrPos(cl.(ssa.Instruction)), "the amnesia clock is consulted only when a damping error occurs")
		}
	}
	c.notificationReachesManager("C12.3 notification-reaches-manager")
	c.readerHandoffRule("C12.3 received-notification-not-overtaken")
	c.cleanupContract("C12.5 damping-drops-connections")
	c.backoffArithmetic("C12.4 backoff")
	c.holdDownSemantics("C12.5 hold-down")
	c.inboundAdmission("C12.5 hold-down")
}

func (c *Check) backoffArithmetic(rule string) {
	p := c.P
	fn := p.Fn("peer.updateStartupDelay")
	if fn == nil {
		return
	}
	sec := int64(1000000000)
	okK := p.MustConst("errorAmnesiaTime") == 300*sec && p.MustConst("errorDelayMinTime") == 60*sec && p.MustConst("errorDelayMaxTime") == 300*sec
	c.require(okK, rule, "peer.updateStartupDelay", "constants", p.Pos(fn.Pos()), "amnesia 300 s, minimum 60 s, maximum 300 s")
	isDelay := func(e *Expr) bool { return isLoadOfField(e, "startupDelay") }
	isSince := func(e *Expr) bool { return isCallNamed(e, "time.Since") || (e.Op == "rcall" && e.S == "time.Since") }
	isLastNN := func(e *Expr) bool { return e.Op == "nn" && isLoadOfField(e.Args[0], "lastProtoError") }
	finalDelay := func(st *State) *Expr {
		for k, v := range st.mem {
			if me := st.memE[k]; me != nil && me.Op == "fa" && me.S == "startupDelay" {
				return v
			}
		}
		return nil
	}
	type want struct {
		name string
		hook func(e *Expr) (ISet, bool)
		chk  func(v *Expr, st *State) bool
	}
	isMin60 := func(v *Expr, st *State) bool { cv, ok := v.IsConst(); return ok && cv == 60*sec }
	// exactly twice the old delay (a linear form 2*delay)
	isDouble := func(v *Expr, st *State) bool {
		l := st.linOf(v)
		if len(l.T) != 1 || l.C != 0 {
			return false
		}
		for k, coef := range l.T {
			if coef != 2 || !isDelay(l.E[k]) {
				return false
			}
		}
		return true
	}
	isMax300 := func(v *Expr, st *State) bool { cv, ok := st.rangeOf(v).IsConst(); return ok && cv == 300*sec }
	for _, w := range []want{
		{"amnesia elapsed => 60 s", hooks(rangeHook(isLastNN, isConst(1)), rangeHook(isSince, isRange(300*sec, posInf))), isMin60},
		{"no earlier error, delay 0 => 60 s", hooks(rangeHook(isLastNN, isConst(0)), rangeHook(isDelay, isRange(negInf, 0))), isMin60},
		{"recent error, 0 < delay <= 150 s => 2*delay", hooks(rangeHook(isLastNN, isConst(1)), rangeHook(isSince, isRange(0, 300*sec-1)), rangeHook(isDelay, isRange(1, 150*sec))), isDouble},
		{"recent error, 150 s <= delay <= 300 s => 300 s", hooks(rangeHook(isLastNN, isConst(1)), rangeHook(isSince, isRange(0, 300*sec-1)), rangeHook(isDelay, isRange(150*sec, 300*sec))), isMax300},
	} {
		a := NewAnalysis(p, fn)
		a.AtomHook = w.hook
		a.EventArgs = p.timerEventArgs
		a.Run()
		ok := len(a.Returns) > 0
		detail := ""
		for _, r := range a.Returns {
			v := finalDelay(r.State)
			if v == nil || !w.chk(v, r.State) {
				ok = false
				detail = fmt.Sprintf("new delay = %v", v)
			}
			// timer recreated with the new delay and the error time stamped
			if !r.State.must["assign:startupDelayTimer"] || !r.State.must["assign:lastProtoError"] {
				ok = false
				detail += "; the delay timer must be re-created and the error time recorded on every path"
			}
		}
		c.require(ok, rule, "peer.updateStartupDelay", w.name, p.Pos(fn.Pos()), detail)
	}
	// the timer is created with the (new) startupDelay
	a := NewAnalysis(p, fn)
	a.Run()
	for _, cl := range p.callsIn(fn, descIs("time.NewTimer")) {
		for _, st := range a.At[cl.(ssa.Instruction)] {
			args := a.argExprs(st, nil, cl.Common())
			v := finalDelay(st)
			ok := isDelay(args[0]) || (v != nil && args[0].Key == v.Key)
			c.require(ok, rule, "peer.updateStartupDelay", "timer duration", p.InstrPos(cl.(ssa.Instruction)), "the damping timer runs for the newly computed startupDelay")
		}
	}
}

// fmtVerbs returns the verbs of a format string in argument order.
func fmtVerbs(f string) []byte {
	var out []byte
	for i := 0; i < len(f); i++ {
		if f[i] != '%' {
			continue
		}
		i++
		for i < len(f) && strings.IndexByte("+-# 0123456789.*[]", f[i]) >= 0 {
			i++
		}
		if i < len(f) && f[i] != '%' {
			out = append(out, f[i])
		}
	}
	return out
}

// wrappedOperands returns the operands of a fmt.Errorf term that are wrapped
// with %w (the only verb errors.As can see through).
func wrappedOperands(e *Expr) []*Expr {
	if e == nil || e.Op != "call" || e.S != "fmt.Errorf" || len(e.Args) < 3 || e.Args[1].Op != "str" {
		return nil
	}
	f := e.Args[1].S
	if uq, err := strconv.Unquote(f); err == nil {
		f = uq
	}
	verbs := fmtVerbs(f)
	var out []*Expr
	for i, a := range e.Args[2:] {
		if i < len(verbs) && verbs[i] == 'w' {
			out = append(out, a)
		}
	}
	return out
}

// notificationReachesManager: the peer manager damps on what the state
// functions return (handleError looks for a *notificationError with
// errors.As). So whenever a state function passes a notification to
// sendNotification, the error it returns must carry that very notification as
// a *notificationError with out=true (directly or behind %w), and whenever it
// hands an error to handleNotificationInErr (which sends the notification the
// error carries) it must return that error, or the *notificationError found
// in it, wrapped with %w. Otherwise a protocol error is sent to the peer but
// never damps it.
func (c *Check) notificationReachesManager(rule string) {
	p := c.P
	n := 0
	for _, top := range p.FuncSeq {
		for _, fn := range withAnon(top) {
			res := fn.Signature.Results()
			if res.Len() == 0 || res.At(res.Len()-1).Type().String() != "error" {
				continue
			}
			if len(p.callsIn(fn, descIs("fsm.sendNotification")))+len(p.callsIn(fn, descIs("fsm.handleNotificationInErr"))) == 0 {
				continue
			}
			if p.Name(fn) == "fsm.sendNotification" {
				continue
			}
			fnName := p.Name(fn)
			a := NewAnalysis(p, fn)
			a.EventArgs = func(st *State, desc string, args []*Expr) string {
				switch desc {
				case "fsm.sendNotification", "fsm.handleNotificationInErr":
					if len(args) == 2 {
						return args[1].Key
					}
				case "errors.As":
					if len(args) == 2 {
						t := args[1]
						if t.Op == "makeiface" {
							t = t.Args[0]
						}
						return args[0].Key + " => " + t.Key
					}
				}
				return ""
			}
			a.Run()
			for _, u := range a.Undecided {
				c.undecided(rule, fnName, "analysis", p.Pos(fn.Pos()), u)
			}
			for _, r := range a.Returns {
				st := r.State
				var sent, handled []string
				asTargets := map[string]string{} // target alloc key -> source error key
				for ev := range st.may {
					switch {
					case strings.HasPrefix(ev, "call:fsm.sendNotification("):
						sent = append(sent, strings.TrimSuffix(strings.TrimPrefix(ev, "call:fsm.sendNotification("), ")"))
					case strings.HasPrefix(ev, "call:fsm.handleNotificationInErr("):
						handled = append(handled, strings.TrimSuffix(strings.TrimPrefix(ev, "call:fsm.handleNotificationInErr("), ")"))
					case strings.HasPrefix(ev, "call:errors.As("):
						parts := strings.SplitN(strings.TrimSuffix(strings.TrimPrefix(ev, "call:errors.As("), ")"), " => ", 2)
						if len(parts) == 2 {
							asTargets[parts[1]] = parts[0]
						}
					}
				}
				if len(sent)+len(handled) == 0 {
					continue
				}
				e := r.Results[len(r.Results)-1]
				// carriesSent: e is / wraps a notificationError{notification K, out=true}
				var carriesSent func(e *Expr, k string, depth int) bool
				carriesSent = func(e *Expr, k string, depth int) bool {
					if e == nil || depth > 3 {
						return false
					}
					if e.Op == "makeiface" && e.S == "*notificationError" && e.Args[0].Op == "alloc" {
						nt := p.loadField(st, e.Args[0], "notificationError", "notification")
						o := p.loadField(st, e.Args[0], "notificationError", "out")
						if nt == nil || o == nil || nt.Key != k {
							return false
						}
						ov, isC := st.evalBool(o).IsConst()
						return isC && ov == 1
					}
					for _, in := range wrappedOperands(e) {
						if carriesSent(in, k, depth+1) {
							return true
						}
					}
					return false
				}
				// carriesHandled: e wraps (with %w) the handled error k or the
				// *notificationError errors.As extracted from it
				carriesHandled := func(e *Expr, k string) bool {
					if e != nil && e.Key == k {
						return true
					}
					for _, in := range wrappedOperands(e) {
						if in.Key == k {
							return true
						}
						if in.Op == "makeiface" && in.S == "*notificationError" && in.Args[0].Op == "ld" {
							if src, ok := asTargets[in.Args[0].Args[0].Key]; ok && src == k {
								return true
							}
						}
					}
					return false
				}
				ok := false
				for _, k := range sent {
					if carriesSent(e, k, 0) {
						ok = true
					}
				}
				for _, k := range handled {
					if carriesHandled(e, k) {
						ok = true
					}
				}
				n++
				c.require(ok, rule, fnName, "return after a notification was sent", p.InstrPos(r.Instr),
					fmt.Sprintf("the returned error carries the sent notification as *notificationError{out=true} (or the error given to handleNotificationInErr) directly or behind %%w; returned %s", trunc(e.Key, 120)))
			}
		}
	}
	c.floor(rule, n, 12, "returns that follow a sent notification")
}
