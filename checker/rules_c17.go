package main

// C17 — UpdateDecoder reports errors with the RFC 7606 approach they require.

import (
	"fmt"
	"go/types"
	"strings"

	"golang.org/x/tools/go/ssa"
)

func init() { register("C17", checkC17) }

func checkC17(c *Check) {
	p := c.P
	c.updateFraming("C17.1 framing", "C17.1 guards-before-callbacks")
	c.specConstants("C17.2 spec-constants", "NOTIF_CODE_UPDATE_MESSAGE_ERR", "NOTIF_SUBCODE_MALFORMED_ATTR_LIST", "NOTIF_SUBCODE_UNRECOGNIZED_WELL_KNOWN_ATTR", "NOTIF_SUBCODE_MISSING_WELL_KNOWN_ATTR", "NOTIF_SUBCODE_ATTR_FLAGS_ERR", "NOTIF_SUBCODE_ATTR_LEN_ERR", "NOTIF_SUBCODE_INVALID_ORIGIN_ATTR", "NOTIF_SUBCODE_INVALID_NEXT_HOP_ATTR", "NOTIF_SUBCODE_OPTIONAL_ATTR_ERR", "NOTIF_SUBCODE_INVALID_NETWORK_FIELD", "NOTIF_SUBCODE_MALFORMED_AS_PATH", "PATH_ATTR_ORIGIN", "PATH_ATTR_AS_PATH", "PATH_ATTR_NEXT_HOP", "PATH_ATTR_MED", "PATH_ATTR_LOCAL_PREF", "PATH_ATTR_ATOMIC_AGGREGATE", "PATH_ATTR_AGGREGATOR", "PATH_ATTR_COMMUNITY", "PATH_ATTR_ORIGINATOR_ID", "PATH_ATTR_CLUSTER_LIST", "PATH_ATTR_MP_REACH_NLRI", "PATH_ATTR_MP_UNREACH_NLRI", "PATH_ATTR_LARGE_COMMUNITY")
	c.attrIteration("C17.1 attribute-iteration", "C17.1 duplicates-and-overruns")
	c.errorAccumulation("C17.2 error-accumulation")
	c.mandatoryAttrs("C17.3 mandatory-attributes")
	c.bitmapAgreement("C17.3 seen-bitmap-agreement")
	c.decoderStateless("C17.3 decoder-stateless")
	c.notificationFromErr("C17.4 severity-mapping")
	c.errorClassesOpaque("C17.4 error-classes-opaque")
	_ = p
}

// errorAccumulation: Decode returns the join of every error produced so far,
// nil exactly when nothing failed, and stops at the first *Notification.
func (c *Check) errorAccumulation(rule string) {
	p := c.P
	fn := p.Fn("UpdateDecoder.Decode")
	if fn == nil {
		return
	}
	stage := func(e *Expr) string {
		if e.Op != "rcall" {
			return ""
		}
		switch {
		case e.S == "UpdateDecoder.decodePathAttrs":
			return "pa"
		case e.S == "dyn:DecodeFn[T]":
			// distinguish wr / nlri by the slice argument: wrFn's slice has an upper bound
			last := e.Args[len(e.Args)-1]
			if _, _, hi := sliceParts(last); hi != nil {
				return "wr"
			}
			return "nlri"
		}
		return ""
	}
	isAs := func(e *Expr) (string, bool) {
		if e.Op == "call" && strings.HasPrefix(e.S, "errors.As:") {
			return stage(e.Args[0]), true
		}
		return "", false
	}
	type scen struct {
		name  string
		nn    map[string]int64 // stage -> non-nil?
		notif string           // stage whose error contains a *Notification ("" none)
	}
	var scens []scen
	for _, wr := range []int64{0, 1} {
		for _, pa := range []int64{0, 1} {
			for _, nl := range []int64{0, 1} {
				scens = append(scens, scen{fmt.Sprintf("wr=%d pa=%d nlri=%d, no notification", wr, pa, nl), map[string]int64{"wr": wr, "pa": pa, "nlri": nl}, ""})
			}
		}
	}
	scens = append(scens,
		scen{"withdrawn callback returns a notification", map[string]int64{"wr": 1, "pa": 0, "nlri": 0}, "wr"},
		scen{"attribute stage returns a notification after a withdrawn error", map[string]int64{"wr": 1, "pa": 1, "nlri": 0}, "pa"},
		scen{"attribute stage returns a notification, withdrawn ok", map[string]int64{"wr": 0, "pa": 1, "nlri": 0}, "pa"},
	)
	for _, sc := range scens {
		a := NewAnalysis(p, fn)
		sc := sc
		a.AtomHook = func(e *Expr) (ISet, bool) {
			if e.Op == "nn" {
				if s := stage(e.Args[0]); s != "" {
					return isConst(sc.nn[s]), true
				}
			}
			if s, ok := isAs(e); ok {
				return isConst(b2i(s == sc.notif && s != "")), true
			}
			return nil, false
		}
		a.Run()
		if len(a.Undecided) > 0 {
			c.undecided(rule, "UpdateDecoder.Decode", sc.name, p.Pos(fn.Pos()), a.Undecided[0])
			continue
		}
		n := 0
		var probs []string
		for _, r := range a.Returns {
			st := r.State
			if !st.may["call:dyn:DecodeFn[T]"] {
				continue // framing error returns
			}
			n++
			res := r.Results[0]
			// which stages ran
			ran := map[string]bool{"wr": true}
			if st.may["call:UpdateDecoder.decodePathAttrs"] {
				ran["pa"] = true
			}
			// nlri ran iff two DecodeFn calls... approximate by reaching the final return
			mentions := func(s string) bool {
				found := false
				var walk func(e *Expr)
				walk = func(e *Expr) {
					if e == nil || found {
						return
					}
					if stage(e) == s {
						found = true
						return
					}
					if e.Op == "call" && e.S == "errors.Join" {
						for _, x := range e.Args {
							walk(x)
						}
					}
				}
				walk(res)
				return found
			}
			stopAt := sc.notif
			order := []string{"wr", "pa", "nlri"}
			anyErr := false
			stopped := false
			for _, s := range order {
				if stopped {
					if mentions(s) {
						probs = append(probs, "decoding continued after a *Notification: "+s+" error present")
					}
					continue
				}
				if sc.nn[s] == 1 {
					anyErr = true
					if !mentions(s) {
						probs = append(probs, "the "+s+" error is missing from the returned error tree: "+trunc(res.Key, 100))
					}
				}
				if s == stopAt {
					stopped = true
				}
			}
			nn := st.nonNil(res)
			if anyErr {
				if v, ok := nn.IsConst(); !ok || v != 1 {
					probs = append(probs, "must be non-nil")
				}
			} else if !res.IsNil() {
				if v, ok := nn.IsConst(); !ok || v != 0 {
					probs = append(probs, "must be nil when no stage failed; got "+trunc(res.Key, 80))
				}
			}
			if stopAt != "" {
				// stages after the stop must not have run
				if stopAt == "wr" && st.may["call:UpdateDecoder.decodePathAttrs"] {
					probs = append(probs, "attribute stage ran after a withdrawn-routes *Notification")
				}
			}
		}
		if n == 0 {
			probs = append(probs, "no return reachable")
		}
		c.require(len(probs) == 0, rule, "UpdateDecoder.Decode", sc.name, p.Pos(fn.Pos()), strings.Join(dedup(probs), "; "))
	}
	// the same discipline inside decodePathAttrs for paFn results
	pa := p.Fn("UpdateDecoder.decodePathAttrs")
	if pa == nil {
		return
	}
	isPaRes := func(e *Expr) bool { return e.Op == "rcall" && e.S == "dyn:PathAttrsDecodeFn[T]" }
	// the attribute loop may live in a helper (see attrIteration): the
	// accumulator rules are evaluated where the loop is
	errIdx := 0
	for _, g := range deepFuncs(pa) {
		if g == pa {
			continue
		}
		hasPa := false
		ownInstrs(g, func(in ssa.Instruction) {
			if ci, ok := in.(ssa.CallInstruction); ok {
				if ld, ok := ci.Common().Value.(*ssa.UnOp); ok {
					if fa, ok := ld.X.(*ssa.FieldAddr); ok && structFieldName(fa) == "paFn" {
						hasPa = true
					}
				}
			}
		})
		if hasPa {
			pa = g
			res := pa.Signature.Results()
			for i := 0; i < res.Len(); i++ {
				if typeKey(res.At(i).Type()) == "error" {
					errIdx = i
				}
			}
		}
	}
	// the accumulator: the error-typed loop phi
	var acc *ssa.Phi
	for _, blk := range pa.Blocks {
		for _, in := range blk.Instrs {
			phi, ok := in.(*ssa.Phi)
			if !ok {
				break
			}
			if inLoop(blk) && typeKey(phi.Type()) == "error" {
				isHead := false
				for _, pr := range blk.Preds {
					if blk.Dominates(pr) {
						isHead = true
					}
				}
				if isHead {
					acc = phi
				}
			}
		}
	}
	if acc == nil {
		c.fail(rule, "UpdateDecoder.decodePathAttrs", "accumulator", p.Pos(pa.Pos()), "no loop-carried error accumulator")
		return
	}
	accLeaf := mkLeaf("phi", acc.Name(), acc.Type())
	for _, notif := range []int64{0, 1} {
		a := NewAnalysis(p, pa)
		a.NoInline = map[string]bool{"attrsBitmap.isSet": true, "attrsBitmap.set": true}
		a.AtomHook = func(e *Expr) (ISet, bool) {
			if e.Op == "nn" && isPaRes(e.Args[0]) {
				return isConst(1), true
			}
			if e.Op == "call" && strings.HasPrefix(e.S, "errors.As:") {
				return isConst(notif), true
			}
			if e.Op == "rcall" && e.S == "attrsBitmap.isSet" && len(e.Args) == 3 {
				if _, isC := e.Args[2].IsConst(); !isC {
					return isConst(0), true
				}
			}
			return nil, false
		}
		a.Run()
		var probs []string
		joined := func(e *Expr) bool {
			return e.Op == "call" && e.S == "errors.Join" && len(e.Args) == 2 && (e.Args[0].Key == accLeaf.Key || e.Args[0].IsNil()) && isPaRes(e.Args[1])
		}
		blk := acc.Block()
		back := 0
		for i, e := range acc.Edges {
			pred := blk.Preds[i]
			if !blk.Dominates(pred) {
				continue
			}
			for _, st := range a.EdgeOut[[2]int{pred.Index, blk.Index}] {
				if !st.may["call:dyn:PathAttrsDecodeFn[T]"] {
					continue
				}
				back++
				if notif == 1 {
					probs = append(probs, "iteration continues after a callback returned a *Notification")
					continue
				}
				if ne := a.exprOf(st, nil, e); !joined(ne) {
					probs = append(probs, "after a failing callback the accumulator must become errors.Join(accumulator, callback error); got "+trunc(ne.Key, 90))
				}
			}
		}
		if notif == 0 && back == 0 {
			probs = append(probs, "loop does not continue after a non-notification callback error")
		}
		if notif == 1 {
			okR := false
			for _, r := range a.Returns {
				if r.State.may["call:dyn:PathAttrsDecodeFn[T]"] && joined(r.Results[errIdx]) {
					okR = true
				}
			}
			if !okR {
				probs = append(probs, "a callback error containing a *Notification must be returned at once, joined with what was accumulated")
			}
		}
		c.require(len(probs) == 0, rule, "UpdateDecoder.decodePathAttrs", fmt.Sprintf("callback error, contains notification=%d", notif), p.Pos(pa.Pos()), strings.Join(dedup(probs), "; "))
	}
	// every return hands back the accumulator (possibly joined with more)
	b := NewAnalysis(p, pa)
	b.NoInline = map[string]bool{"attrsBitmap.isSet": true, "attrsBitmap.set": true}
	b.Run()
	for _, r := range b.Returns {
		res := r.Results[errIdx]
		ok := false
		var walk func(e *Expr)
		walk = func(e *Expr) {
			if e == nil {
				return
			}
			if e.Op == "phi" || e.IsNil() {
				ok = true
			}
			if e.Op == "call" && e.S == "errors.Join" {
				for _, x := range e.Args {
					walk(x)
				}
			}
		}
		walk(res)
		c.require(ok, rule, "UpdateDecoder.decodePathAttrs", fmt.Sprintf("return#%d carries the accumulator", returnOrdinal(pa, r.Instr)), p.InstrPos(r.Instr), "the result is the accumulated error (or a join that includes it); got "+trunc(res.Key, 80))
	}
}

// mandatoryAttrs: the ORIGIN / AS_PATH presence check cannot be bypassed.
func (c *Check) mandatoryAttrs(rule string) {
	p := c.P
	fn := p.Fn("UpdateDecoder.decodePathAttrs")
	if fn == nil || !c.sig(rule, fn, 4) {
		return
	}
	origin, aspath, mpReach := p.MustConst("PATH_ATTR_ORIGIN"), p.MustConst("PATH_ATTR_AS_PATH"), p.MustConst("PATH_ATTR_MP_REACH_NLRI")
	hasNLRI := paramName(fn, 3)
	isSetOf := func(e *Expr) (int64, bool) {
		if e.Op == "rcall" && e.S == "attrsBitmap.isSet" && len(e.Args) == 3 {
			if cv, isC := e.Args[2].IsConst(); isC {
				return cv, true
			}
			return -1, true
		}
		return 0, false
	}
	isPaRes := func(e *Expr) bool { return e.Op == "rcall" && e.S == "dyn:PathAttrsDecodeFn[T]" }
	type scen struct {
		name        string
		nlri        int64
		seen        map[int64]int64 // code -> isSet result after the loop
		cbErr       int64           // callbacks return a (non-notification) error
		empty       bool            // attribute block empty
		wantMissing int64           // 0: no TAW expected
	}
	scens := []scen{
		{"NLRI present, ORIGIN and AS_PATH missing", 1, map[int64]int64{origin: 0, aspath: 0, mpReach: 0}, 0, false, origin},
		{"NLRI present, AS_PATH missing", 1, map[int64]int64{origin: 1, aspath: 0, mpReach: 0}, 0, false, aspath},
		{"NLRI present, ORIGIN missing", 1, map[int64]int64{origin: 0, aspath: 1, mpReach: 0}, 0, false, origin},
		{"MP_REACH present, AS_PATH missing, no NLRI", 0, map[int64]int64{origin: 1, aspath: 0, mpReach: 1}, 0, false, aspath},
		{"NLRI present, empty attribute block", 1, map[int64]int64{origin: 0, aspath: 0, mpReach: 0}, 0, true, origin},
		{"NLRI present, mandatory missing, a callback returned a weaker error", 1, map[int64]int64{origin: 0, aspath: 0, mpReach: 0}, 1, false, origin},
		{"NLRI present, both mandatory attributes present", 1, map[int64]int64{origin: 1, aspath: 1, mpReach: 0}, 0, false, 0},
		{"no routes announced, nothing present", 0, map[int64]int64{origin: 0, aspath: 0, mpReach: 0}, 0, false, 0},
	}
	for _, sc := range scens {
		sc := sc
		a := NewAnalysis(p, fn)
		a.NoInline = map[string]bool{"attrsBitmap.isSet": true, "attrsBitmap.set": true}
		a.Init = func(a *Analysis, st *State) {
			st.rng[mkLeaf("param", hasNLRI, fn.Params[3].Type()).Key] = isConst(sc.nlri)
			if sc.empty {
				st.rng[mkLen(paramExpr(fn, 2)).Key] = isConst(0)
			}
		}
		a.AtomHook = func(e *Expr) (ISet, bool) {
			if code, ok := isSetOf(e); ok {
				if code == -1 {
					return isConst(0), true // no duplicates
				}
				if v, has := sc.seen[code]; has {
					return isConst(v), true
				}
			}
			if e.Op == "nn" && isPaRes(e.Args[0]) {
				return isConst(sc.cbErr), true
			}
			if e.Op == "call" && strings.HasPrefix(e.S, "errors.As:") {
				return isConst(0), true
			}
			return nil, false
		}
		a.Run()
		var probs []string
		n := 0
		for _, r := range a.Returns {
			n++
			st := r.State
			res := r.Results[0]
			found := false
			var missing ISet
			for _, in := range classifyJoined(p, st, res) {
				if in.Kind == "TreatAsWithdraw" && in.Notif != nil {
					cc, _ := in.Notif.Code.IsConst()
					ss, _ := in.Notif.Sub.IsConst()
					if cc == 3 && ss == 3 {
						found = true
						missing = in.Code
						// data = [missing code]
						root, _, _ := sliceParts(in.Notif.Data)
						okD := false
						if root != nil && root.Op == "arr" && root.C == 1 {
							for k, v := range st.mem {
								if me := st.memE[k]; me != nil && me.Op == "ia" && me.Args[0].Key == root.Key {
									if cv, isC := st.rangeOf(v).IsConst(); isC && cv == sc.wantMissing {
										okD = true
									}
								}
							}
						}
						if !okD && sc.wantMissing != 0 {
							probs = append(probs, "fallback notification data must be the missing type code")
						}
					}
				}
			}
			if sc.wantMissing != 0 {
				if !found {
					probs = append(probs, "the treat-as-withdraw error (Missing Well-known Attribute) is not part of the result: "+trunc(res.Key, 90))
				} else if cv, isC := missing.IsConst(); !isC || cv != sc.wantMissing {
					probs = append(probs, fmt.Sprintf("reported missing code %v, want %d", missing, sc.wantMissing))
				}
			} else if found {
				probs = append(probs, "a missing-attribute error is reported although nothing is missing / no routes are announced")
			}
		}
		if n == 0 {
			probs = append(probs, "no return reachable")
		}
		c.require(len(probs) == 0, rule, "UpdateDecoder.decodePathAttrs", sc.name, p.Pos(fn.Pos()), strings.Join(dedup(probs), "; "))
	}
}

// notificationFromErr: nil -> nil, severity order, first-wins, stop at a
// *Notification, generic fallback; AsSessionReset of the concrete types.
func (c *Check) notificationFromErr(rule string) {
	p := c.P
	fn := p.Fn("UpdateNotificationFromErr")
	if fn == nil {
		return
	}
	// a slot of the walk's working state: a captured variable (named by the
	// variable) or a field of a struct local to this function (named by the field)
	cellName := func(e *Expr) string {
		if e == nil || e.Op != "ld" {
			return ""
		}
		if e.Args[0].Op == "fa" {
			if r := rootOf(e.Args[0]); r != nil && (r.Op == "alloc" || r.Op == "param") {
				return e.Args[0].S
			}
			return ""
		}
		if e.Args[0].Op != "alloc" {
			return ""
		}
		name := strings.TrimSuffix(e.Args[0].S, "#")
		var out string
		allInstrs(fn, func(in ssa.Instruction) {
			if al, ok := in.(*ssa.Alloc); ok && al.Name() == name {
				out = al.Comment
			}
		})
		return out
	}
	errNN := func(v int64) func(e *Expr) (ISet, bool) {
		return func(e *Expr) (ISet, bool) {
			if e.Op == "nn" && isParamNamed(e.Args[0], paramName(fn, 0)) {
				return isConst(v), true
			}
			return nil, false
		}
	}
	// the tree walker (a recursive closure or a recursive helper) is an opaque
	// writer of the slots in the case analysis below
	noInline := map[string]bool{}
	for _, g := range deepFuncs(fn) {
		if g == fn {
			continue
		}
		for _, cl := range p.callsIn(g, func(string) bool { return true }) {
			if p.staticLocalCallee(cl) == g {
				noInline[p.Name(g)] = true
			}
		}
	}
	a := NewAnalysis(p, fn)
	a.AtomHook = errNN(0)
	a.NoInline = noInline
	a.Run()
	ok := len(a.Returns) > 0
	for _, r := range a.Returns {
		if !r.Results[0].IsNil() {
			ok = false
		}
	}
	c.require(ok, rule, "UpdateNotificationFromErr", "nil maps to nil", p.Pos(fn.Pos()), "a nil error yields a nil notification")
	order := []string{"n", "taw", "ad", "ue"}
	for k := 0; k <= len(order); k++ {
		k := k
		b := NewAnalysis(p, fn)
		b.AtomHook = hooks(errNN(1), func(e *Expr) (ISet, bool) {
			if e.Op != "nn" {
				return nil, false
			}
			nm := cellName(e.Args[0])
			for i, o := range order {
				if nm == o {
					return isConst(b2i(i == k)), i <= k
				}
			}
			return nil, false
		})
		b.NoInline = noInline
		b.Run()
		name := "nothing extracted => generic (3,0)"
		if k < len(order) {
			name = "strongest class present: " + order[k]
		}
		okc := len(b.Returns) > 0
		detail := ""
		for _, r := range b.Returns {
			res := r.Results[0]
			switch {
			case k == 0:
				if cellName(res) != "n" {
					okc, detail = false, "must return the *Notification found; got "+trunc(res.Key, 60)
				}
			case k < len(order):
				if res.Op != "rcall" || !strings.HasSuffix(res.S, "AsSessionReset") || len(res.Args) < 2 || cellName(res.Args[1]) != order[k] {
					okc, detail = false, "must return "+order[k]+".AsSessionReset(); got "+trunc(res.Key, 80)
				}
			default:
				nv, isN := p.notifAt(r.State, res)
				okc = isN
				if isN {
					cc, _ := nv.Code.IsConst()
					ss, _ := nv.Sub.IsConst()
					okc = cc == 3 && ss == 0 && nv.Data.IsNil()
				}
				if !okc {
					detail = "must return &Notification{Code: UPDATE Message Error}"
				}
			}
			if v, isC := r.State.nonNil(res).IsConst(); k == len(order) && (!isC || v != 1) && res.Op != "alloc" {
				okc, detail = false, "non-nil error must map to a non-nil notification"
			}
		}
		c.require(okc, rule, "UpdateNotificationFromErr", name, p.Pos(fn.Pos()), detail)
	}
	// the tree walk: first-wins assignments, stop descending at a *Notification
	var walk *ssa.Function
	for _, g := range fn.AnonFuncs {
		walk = g
	}
	if walk == nil {
		// a recursive helper called from here
		for _, g := range deepFuncs(fn) {
			if g == fn {
				continue
			}
			for _, cl := range p.callsIn(g, func(string) bool { return true }) {
				if p.staticLocalCallee(cl) == g {
					walk = g
				}
			}
		}
	}
	if walk != nil {
		n := 0
		// slotKey names the slot an address denotes inside the walker
		slotKey := func(v ssa.Value) string {
			switch x := v.(type) {
			case *ssa.FreeVar:
				if x.Name() == "unwrap" {
					return ""
				}
				return "var " + x.Name()
			case *ssa.FieldAddr:
				if _, isP := x.X.(*ssa.Parameter); isP {
					return "field " + structFieldName(x)
				}
			}
			return ""
		}
		ownInstrs(walk, func(in ssa.Instruction) {
			st, ok := in.(*ssa.Store)
			if !ok {
				return
			}
			key := slotKey(st.Addr)
			if key == "" {
				return
			}
			n++
			// guarded by `slot == nil`
			b := st.Block()
			okG := len(b.Preds) == 1
			if okG {
				iff, isIf := b.Preds[0].Instrs[len(b.Preds[0].Instrs)-1].(*ssa.If)
				okG = isIf && b.Preds[0].Succs[0] == b
				if okG {
					bo, isB := iff.Cond.(*ssa.BinOp)
					okG = isB && bo.Op.String() == "=="
					if okG {
						ld, isL := bo.X.(*ssa.UnOp)
						okG = isL && slotKey(ld.X) == key
					}
				}
			}
			c.require(okG, rule, p.Name(walk), "first-wins: "+key, p.InstrPos(in), "the earliest error of a class is kept (assignment only while the slot is nil)")
		})
		c.floor(rule, n, 4, "class slots assigned in the tree walk")
		// the walk descends into both kinds of children: the single error of
		// Unwrap() error (fmt.Errorf("%w")) and every error of Unwrap() []error
		// (errors.Join); a recursive call is a call of the walker itself or
		// through the variable that holds it
		isRec := func(cl *ssa.Call) bool {
			if p.staticLocalCallee(cl) == walk {
				return true
			}
			if ld, ok := cl.Call.Value.(*ssa.UnOp); ok {
				if fv, ok := ld.X.(*ssa.FreeVar); ok {
					// the cell holding the closure: bound to walk's own MakeClosure
					par := walk.Parent()
					if par != nil {
						for _, b := range par.Blocks {
							for _, in := range b.Instrs {
								if st, ok := in.(*ssa.Store); ok {
									if mc, ok := st.Val.(*ssa.MakeClosure); ok && mc.Fn == ssa.Value(walk) {
										for i, bnd := range mc.Bindings {
											if bnd == st.Addr && i < len(walk.FreeVars) && walk.FreeVars[i] == fv {
												return true
											}
										}
									}
								}
							}
						}
					}
				}
			}
			return false
		}
		single, multi := false, false
		ownInstrs(walk, func(in ssa.Instruction) {
			cl, ok := in.(*ssa.Call)
			if !ok || !isRec(cl) || len(cl.Call.Args) == 0 {
				return
			}
			arg := cl.Call.Args[len(cl.Call.Args)-1]
			if inv, ok := arg.(*ssa.Call); ok && inv.Call.IsInvoke() && inv.Call.Method.Name() == "Unwrap" {
				single = true
				return
			}
			if inLoopLocal(cl.Block()) && everyIteration(cl) {
				multi = true
			}
		})
		if !single && multi {
			// the children gathered by a helper: it asks for both kinds, and the
			// single child is put into the list it returns
			var one, many bool
			for _, g := range deepFuncs(walk) {
				ownInstrs(g, func(in ssa.Instruction) {
					inv, ok := in.(*ssa.Call)
					if !ok || !inv.Call.IsInvoke() || inv.Call.Method.Name() != "Unwrap" {
						return
					}
					if _, isSlice := inv.Type().Underlying().(*types.Slice); isSlice {
						many = true
						return
					}
					for _, r := range *inv.Referrers() {
						if st, isS := r.(*ssa.Store); isS {
							if _, isIA := st.Addr.(*ssa.IndexAddr); isIA {
								one = true
							}
						}
					}
				})
			}
			single = one && many
		}
		c.require(single && multi, rule, p.Name(walk), "descends into wrapped and joined errors", p.Pos(walk.Pos()),
			"the walker calls itself on x.Unwrap() and, for every element, on x.Unwrap() []error")
		// after a *Notification is found nothing below it is visited
		for _, blk := range walk.Blocks {
			for _, in := range blk.Instrs {
				ta, ok := in.(*ssa.TypeAssert)
				if !ok || typeKey(ta.AssertedType) != "*Notification" {
					continue
				}
				// on the ok edge every path returns without a recursive call
				var okBlk *ssa.BasicBlock
				for _, r := range *ta.Referrers() {
					if ex, isE := r.(*ssa.Extract); isE && ex.Index == 1 {
						for _, rr := range *ex.Referrers() {
							if iff, isIf := rr.(*ssa.If); isIf {
								okBlk = iff.Block().Succs[0]
							}
						}
					}
				}
				if okBlk == nil {
					continue
				}
				hit := pathSearch(walk, okBlk.Instrs[0], func(x ssa.Instruction) bool {
					if ci, isC := x.(ssa.CallInstruction); isC {
						d := p.calleeDesc(ci)
						return strings.HasPrefix(d, "dyn:") || strings.HasPrefix(d, "invoke:") || p.staticLocalCallee(ci) == walk
					}
					return false
				}, nil)
				c.require(hit == nil, rule, p.Name(walk), "stop at *Notification", p.InstrPos(in), "once a *Notification is found the walk returns without descending into it")
			}
		}
		// a node of any other class is still descended into: classifying it
		// does not end the visit (a wrapper that is itself an UpdateError may
		// hide a stronger error)
		nCls := 0
		for _, blk := range walk.Blocks {
			for _, in := range blk.Instrs {
				ta, ok := in.(*ssa.TypeAssert)
				if !ok || !ta.CommaOk {
					continue
				}
				switch typeKey(ta.AssertedType) {
				case "*TreatAsWithdrawUpdateErr", "*AttrDiscardUpdateErr", "UpdateError":
				default:
					continue
				}
				var okBlk *ssa.BasicBlock
				for _, r := range *ta.Referrers() {
					if ex, isE := r.(*ssa.Extract); isE && ex.Index == 1 {
						for _, rr := range *ex.Referrers() {
							if iff, isIf := rr.(*ssa.If); isIf {
								okBlk = iff.Block().Succs[0]
							}
						}
					}
				}
				if okBlk == nil {
					continue
				}
				nCls++
				hit := pathSearch(walk, okBlk.Instrs[0], func(x ssa.Instruction) bool {
					switch y := x.(type) {
					case *ssa.TypeAssert:
						if it, isI := y.AssertedType.Underlying().(*types.Interface); isI {
							for i := 0; i < it.NumMethods(); i++ {
								if it.Method(i).Name() == "Unwrap" {
									return true
								}
							}
						}
					case ssa.CallInstruction:
						cc := y.Common()
						return cc.IsInvoke() && cc.Method.Name() == "Unwrap"
					}
					return false
				}, nil)
				c.require(hit != nil, rule, p.Name(walk), "a classified node is still descended into: "+typeKey(ta.AssertedType), p.InstrPos(in),
					"after an error is recorded as "+typeKey(ta.AssertedType)+" the walk still asks it for Unwrap(): what it wraps may be stronger")
			}
		}
		if nCls == 0 {
			c.ok(rule, p.Name(walk), "classified nodes descended into", p.Pos(walk.Pos()), "no comma-ok class assertions in the walker (classes are told apart otherwise)")
		}
	}
	for _, t := range []string{"TreatAsWithdrawUpdateErr", "AttrDiscardUpdateErr"} {
		g := p.Fn(t + ".AsSessionReset")
		if g == nil {
			continue
		}
		for _, v := range []int64{1, 0} {
			b := NewAnalysis(p, g)
			b.AtomHook = func(e *Expr) (ISet, bool) {
				if e.Op == "nn" && isFieldRead(e.Args[0], "Notification") {
					return isConst(v), true
				}
				return nil, false
			}
			b.Run()
			okc := len(b.Returns) > 0
			for _, r := range b.Returns {
				res := r.Results[0]
				if v == 1 {
					okc = okc && isFieldRead(res, "Notification")
				} else {
					nv, isN := p.notifAt(r.State, res)
					okc = okc && isN
					if isN {
						cc, _ := nv.Code.IsConst()
						ss, _ := nv.Sub.IsConst()
						okc = okc && cc == 3 && ss == 0
					}
				}
			}
			c.require(okc, rule, t+".AsSessionReset", fmt.Sprintf("embedded notification present=%d", v), p.Pos(g.Pos()), "returns the embedded notification, or a generic UPDATE Message Error")
		}
	}
}

// errorClassesOpaque: Decode decides "session reset, stop decoding" with
// errors.As(err, **Notification), and UpdateNotificationFromErr ranks classes
// by walking Unwrap() chains. Both rely on the RFC 7606 error types being
// leaves: a treat-as-withdraw or attribute-discard error that exposed its
// fallback *Notification through Unwrap/As/Is would be taken for a session
// reset (decoding stops before the NLRI callback; the strongest class of the
// returned tree changes). The method sets are therefore pinned.
func (c *Check) errorClassesOpaque(rule string) {
	p := c.P
	n := 0
	for _, tn := range []string{"TreatAsWithdrawUpdateErr", "AttrDiscardUpdateErr", "Notification", "notificationError"} {
		named := p.Named(tn)
		if named == nil {
			continue
		}
		ms := types.NewMethodSet(types.NewPointer(named))
		for i := 0; i < ms.Len(); i++ {
			m := ms.At(i).Obj().Name()
			n++
			switch m {
			case "Unwrap", "As", "Is":
				c.fail(rule, tn+"."+m, "error type exposes "+m+"()", p.Pos(ms.At(i).Obj().Pos()),
					"errors.As / errors.Is / Unwrap walks must stop at this type: its class is decided by its own type only")
			default:
				c.ok(rule, tn+"."+m, "method of an error class", "-", "not an unwrapping hook")
			}
		}
	}
	c.floor(rule, n, 4, "methods of the UPDATE error classes")
}
