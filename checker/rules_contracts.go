package main

// Event contracts (contracts.go) for the peer manager, the server and the FSM.

import (
	"fmt"
	"go/types"
	"strings"

	"golang.org/x/tools/go/ssa"
)

// selectIndexHook fixes the case taken by the select that satisfies pick.
func selectIndexHook(fn *ssa.Function, pick func(*ssa.Select) bool, idx int64) func(e *Expr) (ISet, bool) {
	var names []string
	for _, g := range deepFuncs(fn) {
		ownInstrs(g, func(in ssa.Instruction) {
			if s, ok := in.(*ssa.Select); ok && pick(s) {
				names = append(names, s.Name()+"#")
			}
		})
	}
	return func(e *Expr) (ISet, bool) {
		if e.Op != "ex" || len(e.Args) != 2 || e.Args[0].Op != "val" {
			return nil, false
		}
		if k, isC := e.Args[1].IsConst(); !isC || k != 0 {
			return nil, false
		}
		for _, n := range names {
			if e.Args[0].S == n || strings.HasSuffix(e.Args[0].S, "."+n) {
				return isConst(idx), true
			}
		}
		return nil, false
	}
}

// selectCaseOf returns the index of the case of s that sends on / receives
// from the named channel, or -1.
func selectCaseOf(s *ssa.Select, ch string, send bool) int64 {
	for i, ss := range s.States {
		if (ss.Send != nil) == send && (chanFieldName(ss.Chan) == ch || chanThroughField(ss.Chan, ch)) {
			return int64(i)
		}
	}
	return -1
}

func anySelect(*ssa.Select) bool { return true }

// nnField: "field f is (non-)nil" as an assumption on loads of that field.
func nnField(field string, nonNil bool) func(e *Expr) (ISet, bool) {
	return func(e *Expr) (ISet, bool) {
		if e.Op == "nn" && isFieldRead(e.Args[0], field) {
			return isConst(b2i(nonNil)), true
		}
		return nil, false
	}
}

// nnSlot: "element of the array field f is (non-)nil".
func nnSlot(field string, nonNil bool) func(e *Expr) (ISet, bool) {
	return func(e *Expr) (ISet, bool) {
		if e.Op != "nn" {
			return nil, false
		}
		x := e.Args[0]
		if x.Op == "ld" && x.Args[0].Op == "ia" {
			b := x.Args[0].Args[0]
			if b.Op == "arr" && len(b.Args) > 0 {
				b = b.Args[0]
			}
			if b.Op == "fa" && b.S == field {
				return isConst(b2i(nonNil)), true
			}
		}
		return nil, false
	}
}

// nnResult: "the error result of calls of callee is (non-)nil".
func nnResult(callee string, nonNil bool) func(e *Expr) (ISet, bool) {
	return func(e *Expr) (ISet, bool) {
		if e.Op != "nn" {
			return nil, false
		}
		x := e.Args[0]
		if x.Op == "ex" && len(x.Args) > 0 {
			x = x.Args[0]
		}
		if x.Op == "rcall" && x.S == callee {
			return isConst(b2i(nonNil)), true
		}
		return nil, false
	}
}

func paramConst(fn *ssa.Function, idx int, v int64) func(a *Analysis, st *State) {
	return func(a *Analysis, st *State) {
		st.rng[mkLeaf("param", paramName(fn, idx), fn.Params[idx].Type()).Key] = isConst(v)
	}
}

// peerManagerContracts: what the peer manager's helpers do, not only what
// they refrain from.
func (c *Check) peerManagerContracts(rule string) {
	p := c.P
	out, in := p.MustConst("out"), p.MustConst("in")
	var rows []contract
	if fn := p.Fn("peer.sendTransitionToFSM"); fn != nil {
		pick := func(s *ssa.Select) bool { return selectCaseOf(s, "transitionCh", true) >= 0 }
		var sel *ssa.Select
		for _, g := range deepFuncs(fn) {
			ownInstrs(g, func(x ssa.Instruction) {
				if s, ok := x.(*ssa.Select); ok && pick(s) {
					sel = s
				}
			})
		}
		if sel == nil {
			c.undecided(rule, "peer.sendTransitionToFSM", "grant select", p.Pos(fn.Pos()), "no select sending on transitionCh")
		} else {
			rows = append(rows,
				contract{fn: "peer.sendTransitionToFSM", name: "grant sent => state recorded", hook: selectIndexHook(fn, pick, selectCaseOf(sel, "transitionCh", true)),
					must: []string{"store:fsmState[]"}, why: "the manager's record of an FSM's state is what the collision and admission decisions read; it changes exactly when a transition is granted"},
				contract{fn: "peer.sendTransitionToFSM", name: "peer stopping => nothing recorded", hook: selectIndexHook(fn, pick, selectCaseOf(sel, "closeCh", false)),
					mustNot: []string{"store:fsmState[]"}, why: "a grant that was not delivered is not recorded"})
		}
	}
	if fn := p.Fn("peer.enableFSM"); fn != nil && len(fn.Params) == 3 {
		passive := func(v int64) func(e *Expr) (ISet, bool) {
			return rangeHook(func(e *Expr) bool { return isFieldRead(e, "passive") }, isConst(v))
		}
		for _, i := range []int64{out, in} {
			rows = append(rows,
				contract{fn: "peer.enableFSM", name: fmt.Sprintf("empty slot %d (not passive) => FSM created, recorded and started", i), init: paramConst(fn, 1, i),
					hook: hooks(nnSlot("fsms", false), passive(0)), must: []string{"call:newFSM", "call:fsm.start", "store:fsms[]", "store:fsmState[]"},
					why: "an enabled FSM that is not started never requests a transition: the peer neither dials nor answers"},
				contract{fn: "peer.enableFSM", name: fmt.Sprintf("occupied slot %d => untouched", i), init: paramConst(fn, 1, i),
					hook: hooks(nnSlot("fsms", true), passive(0)), mustNot: []string{"call:newFSM", "call:fsm.start", "store:fsms[]"},
					why: "a running FSM is never replaced without being stopped"})
		}
	}
	if fn := p.Fn("peer.disableFSM"); fn != nil {
		rows = append(rows,
			contract{fn: "peer.disableFSM", name: "occupied slot => stopped, joined, cleared", hook: nnSlot("fsms", true),
				must: []string{"call:fsm.stop", "store:fsms[]", "store:fsmState[]"}, why: "disabling is stop + join + clearing both the slot and its recorded state"},
			contract{fn: "peer.disableFSM", name: "empty slot => no-op", hook: nnSlot("fsms", false),
				mustNot: []string{"call:fsm.stop", "store:fsms[]"}, noReach: []string{"fsm.stop"}, why: "stop on a nil FSM is a nil dereference in the manager goroutine"})
	}
	rows = append(rows,
		contract{fn: "peer.start", name: "outbound FSM enabled, manager started", must: []string{fmt.Sprintf("call:peer.enableFSM(%d)", out), "go:peer.run"},
			why: "a started peer dials (unless passive) and has a manager goroutine"},
		contract{fn: "peer.stop", name: "close signalled then joined", must: []string{"call:sync.Once.Do", "recv:doneCh"},
			why: "stop returns only after the manager goroutine has disabled both FSMs"},
		contract{fn: "peer.stop", closure: onceBody, name: "the Once closes closeCh", must: []string{"close:closeCh"},
			why: "closeCh is what every blocking select of the manager and its senders listens to"},
		contract{fn: "fsm.stop", name: "close signalled then joined", must: []string{"call:sync.Once.Do", "recv:doneCh"},
			why: "disableFSM relies on stop returning only after run's deferred cleanup"},
		contract{fn: "fsm.stop", closure: onceBody, name: "the Once closes closeCh", must: []string{"close:closeCh"},
			why: "closeCh is what every blocking select of the FSM listens to"},
		contract{fn: "fsm.start", name: "run goroutine started", must: []string{"go:fsm.run"}, why: "start starts the FSM"},
	)
	if fn := p.Fn("peer.handleStateTransition"); fn != nil && len(fn.Params) == 3 {
		h := c.peerHooks(fn)
		idle, openSent, openConfirm, established := p.MustConst("idleState"), p.MustConst("openSentState"), p.MustConst("openConfirmState"), p.MustConst("establishedState")
		for _, i := range []int64{out, in} {
			other := out + in - i
			rows = append(rows,
				contract{fn: "peer.handleStateTransition", name: fmt.Sprintf("FSM %d -> Established: other disabled, transition granted", i), init: paramConst(fn, 1, i),
					hook: hooks(rangeHook(h.tTo, isConst(established)), rangeHook(h.tFrom, isConst(openConfirm))),
					must: []string{fmt.Sprintf("call:peer.disableFSM(%d)", other), fmt.Sprintf("call:peer.sendTransitionToFSM(%d)", i)},
					why:  "an approved transition is answered: an FSM whose request is never answered waits for ever"},
				contract{fn: "peer.handleStateTransition", name: fmt.Sprintf("FSM %d -> OpenConfirm, other not in OpenConfirm/Established: granted", i), init: paramConst(fn, 1, i),
					hook: hooks(rangeHook(h.tTo, isConst(openConfirm)), rangeHook(h.tFrom, isConst(openSent)), rangeHook(h.otherState, isRange(0, openSent))),
					must: []string{fmt.Sprintf("call:peer.sendTransitionToFSM(%d)", i)}, mustNot: []string{"call:peer.disableFSM"},
					why: "without a collision the OpenConfirm request is granted"})
		}
		rows = append(rows,
			contract{fn: "peer.handleStateTransition", name: "outbound FSM, any transition below OpenConfirm: granted", init: paramConst(fn, 1, out),
				hook: hooks(rangeHook(h.tTo, isRange(idle, openSent))), must: []string{fmt.Sprintf("call:peer.sendTransitionToFSM(%d)", out)},
				why: "idle/connect/active/openSent requests of the outbound FSM are always granted"},
			contract{fn: "peer.handleStateTransition", name: "inbound FSM moving up below OpenConfirm: granted", init: paramConst(fn, 1, in),
				hook: hooks(rangeHook(h.tTo, isConst(openSent)), rangeHook(h.tFrom, isRange(0, openSent-1))), must: []string{fmt.Sprintf("call:peer.sendTransitionToFSM(%d)", in)},
				why: "the inbound FSM's upward requests are granted"})
		// collision won: the kill was delivered => loser joined, survivor granted
		pick := func(s *ssa.Select) bool { return selectCaseOf(s, "closeCh", true) >= 0 }
		var sel *ssa.Select
		ownInstrs(fn, func(x ssa.Instruction) {
			if s, ok := x.(*ssa.Select); ok && pick(s) {
				sel = s
			}
		})
		if sel != nil {
			for _, i := range []int64{out, in} {
				other := out + in - i
				dh := relHook(h.id, h.remoteID, ">")
				if i == in {
					dh = relHook(h.id, h.remoteID, "<")
				}
				rows = append(rows, contract{fn: "peer.handleStateTransition", name: fmt.Sprintf("collision, FSM %d survives, kill delivered: loser joined, survivor granted", i), init: paramConst(fn, 1, i),
					hook: hooks(rangeHook(h.tTo, isConst(openConfirm)), rangeHook(h.tFrom, isConst(openSent)), rangeHook(h.otherState, isConst(openConfirm)), dh,
						selectIndexHook(fn, pick, selectCaseOf(sel, "closeCh", true))),
					must: []string{fmt.Sprintf("call:peer.disableFSM(%d)", other), fmt.Sprintf("call:peer.sendTransitionToFSM(%d)", i)},
					why:  "the surviving connection proceeds to OpenConfirm only after the losing FSM has stopped completely, and it does proceed"})
			}
		}
	}
	// newPeer: both slots get their channels
	if fn := p.Fn("newPeer"); fn != nil {
		for _, f := range []string{"transitionCh", "errorCh"} {
			ok := false
			allInstrs(fn, func(x ssa.Instruction) {
				st, isS := x.(*ssa.Store)
				if !isS {
					return
				}
				ia, isIA := st.Addr.(*ssa.IndexAddr)
				if !isIA {
					return
				}
				fa, isFA := ia.X.(*ssa.FieldAddr)
				if !isFA || structFieldName(fa) != f {
					return
				}
				if _, isMC := st.Val.(*ssa.MakeChan); !isMC {
					return
				}
				if cst, isC := ia.Index.(*ssa.Const); isC && cst.Value != nil {
					return // written out per index: counted below
				}
				lo, hi, _, okS := loopSpan(ia.Index)
				if okS && lo == 0 && hi == 2 && everyIteration(st) {
					ok = true
				}
			})
			if !ok {
				// written out per index
				seen := map[int64]bool{}
				allInstrs(fn, func(x ssa.Instruction) {
					if st, isS := x.(*ssa.Store); isS {
						if ia, isIA := st.Addr.(*ssa.IndexAddr); isIA {
							if fa, isFA := ia.X.(*ssa.FieldAddr); isFA && structFieldName(fa) == f {
								if cst, isC := ia.Index.(*ssa.Const); isC && cst.Value != nil {
									if _, isMC := st.Val.(*ssa.MakeChan); isMC && !inLoop(st.Block()) {
										seen[cst.Int64()] = true
									}
								}
							}
						}
					}
				})
				ok = seen[0] && seen[1]
			}
			c.require(ok, rule, "newPeer", "channel "+f+" of both slots", p.Pos(fn.Pos()), f+"[0] and "+f+"[1] are both created (a nil channel blocks its FSM for ever)")
		}
	}
	c.contracts(rule, rows)
}

// serverContracts: Close and Serve do their part of the shutdown protocol.
func (c *Check) serverContracts(rule string) {
	p := c.P
	serving := func(v int64) func(e *Expr) (ISet, bool) {
		return rangeHook(func(e *Expr) bool { return isLoadOfField(e, "serving") }, isConst(v))
	}
	rows := []contract{
		{fn: "Server.Close", name: "serving => close signalled, Serve's shutdown awaited", hook: serving(1), must: []string{"call:sync.Once.Do", "recv:doneServingCh", "call:sync.Mutex.Unlock"},
			why: "Close returns only after Serve has stopped every peer (OnClose delivered)"},
		{fn: "Server.Close", name: "not serving => close signalled, returns at once", hook: serving(0), must: []string{"call:sync.Once.Do", "call:sync.Mutex.Unlock"}, mustNot: []string{"recv:doneServingCh"},
			why: "nobody will ever close doneServingCh when Serve is not running: waiting for it would hang"},
		{fn: "Server.Close", closure: onceBody, name: "the Once closes closeCh", must: []string{"close:closeCh"},
			why: "closeCh is what Serve's blocking select listens to"},
		{fn: "Server.Serve", name: "after serving started: listeners closed and accept loops joined before returning", inline: true,
			sel:  func(r ReturnSite) bool { return r.State.must["store:serving"] },
			must: []string{"call:sync.WaitGroup.Wait", "close:Serve:stop"},
			why:  "Serve's return (and with it Close's) means no accept loop is still handing connections to peers"},
	}
	c.contracts(rule, rows)
	// one Add(1) per accept goroutine
	if fn := p.Fn("Server.Serve"); fn != nil {
		a := NewAnalysis(p, fn)
		a.Run()
		n := 0
		for _, cl := range p.callsIn(fn, descIs("sync.WaitGroup.Add")) {
			for _, st := range a.At[cl.(ssa.Instruction)] {
				n++
				args := a.argExprs(st, nil, cl.Common())
				arg := args[len(args)-1]
				v, isC := st.rangeOf(arg).IsConst()
				okAdd := isC && v == 1
				if !okAdd && arg.Op == "len" && !inLoop(cl.(ssa.Instruction).Block()) {
					// all of them accounted for up front: Add(len(x)) before a loop
					// over the same x that starts one goroutine per element
					for _, sp := range p.spawns() {
						if p.ownerTop(sp.In) != fn || !inLoop(sp.Instr.Block()) || !everyIteration(sp.Instr) || !instrDominates(cl.(ssa.Instruction), sp.Instr) {
							continue
						}
						h := loopHeadLocal(sp.Instr.Block())
						if h == nil {
							continue
						}
						sameLen := func(in ssa.Instruction) bool {
							lc, isL := in.(*ssa.Call)
							if !isL {
								return false
							}
							bi, isBI := lc.Call.Value.(*ssa.Builtin)
							if !isBI || bi.Name() != "len" {
								return false
							}
							for _, st2 := range a.At[in] {
								if a.ExprAt(st2, lc.Call.Args[0]).Key == arg.Args[0].Key {
									return true
								}
							}
							return false
						}
						blocks := []*ssa.BasicBlock{h}
						for _, pr := range h.Preds {
							if !h.Dominates(pr) {
								blocks = append(blocks, pr)
							}
						}
						for _, blk := range blocks {
							for _, in := range blk.Instrs {
								if sameLen(in) {
									okAdd = true
								}
							}
						}
					}
				}
				c.require(okAdd, rule, "Server.Serve", "WaitGroup.Add(1) per accept goroutine", p.InstrPos(cl.(ssa.Instruction)),
					"each go statement is preceded by Add(1): a larger count makes Wait (and Close) hang, a smaller one panics or returns early")
			}
		}
		c.floor(rule, n, 1, "WaitGroup.Add sites in Serve")
		// accept loop: an Accept error ends the loop, a connection is handled
		for _, errNil := range []bool{true, false} {
			cl := p.closureWithCall(fn, descIs("invoke:net.Listener.Accept"))
			if cl == nil {
				// the accept loop as a function of its own
				for _, g := range p.AllFuncs {
					if len(p.callsIn(g, descIs("invoke:net.Listener.Accept"))) > 0 && cl == nil {
						cl = g
					}
				}
			}
			if cl == nil {
				c.undecided(rule, "Server.Serve", "accept loop", p.Pos(fn.Pos()), "no closure calling Listener.Accept")
				break
			}
			b := NewAnalysis(p, cl)
			b.AtomHook = nnResult("invoke:net.Listener.Accept", !errNil)
			b.Run()
			handled := false
			for in, sts := range b.At {
				if ci, isC := in.(ssa.CallInstruction); isC && len(sts) > 0 && p.calleeDesc(ci) == "Server.handleInboundConn" {
					handled = true
				}
			}
			if errNil {
				c.require(handled && len(b.Returns) == 0, rule, p.Name(cl), "accepted connection => handled, loop continues", p.Pos(cl.Pos()), "every accepted connection is passed to handleInboundConn and the loop goes on accepting")
			} else {
				c.require(!handled && len(b.Returns) > 0, rule, p.Name(cl), "Accept error => loop ends, nothing handled", p.Pos(cl.Pos()), "a failed Accept returns a nil connection: it is never handled, and the goroutine ends (reporting the error unless the listeners are being closed)")
			}
		}
	}
}

// timerChanName renders "holdTimer.C" for the channel of a timer field.
func selChanName(v ssa.Value) string {
	if pr, isP := v.(*ssa.Parameter); isP && curProg != nil {
		// a helper's parameter stands for the argument at the site the
		// running enumeration entered it from
		v = curProg.origin(pr)
	}
	if ld, ok := v.(*ssa.UnOp); ok {
		if fa, ok := ld.X.(*ssa.FieldAddr); ok && structFieldName(fa) == "C" {
			if ld2, ok := fa.X.(*ssa.UnOp); ok {
				if fa2, ok := ld2.X.(*ssa.FieldAddr); ok {
					return structFieldName(fa2) + ".C"
				}
			}
		}
	}
	return chanFieldName(v)
}

// findSelectCase: the select of fn (own body or helpers) with a case on the
// named channel in the given direction, and that case's index.
func findSelectCase(fn *ssa.Function, ch string, send bool) (*ssa.Select, int64) {
	var sel *ssa.Select
	idx := int64(-1)
	allInstrs(fn, func(in ssa.Instruction) {
		s, ok := in.(*ssa.Select)
		if !ok || sel != nil {
			return
		}
		for i, ss := range s.States {
			if (ss.Send != nil) == send && selChanName(ss.Chan) == ch {
				sel, idx = s, int64(i)
			}
		}
	})
	return sel, idx
}

func caseHook(fn *ssa.Function, ch string, send bool) func(e *Expr) (ISet, bool) {
	sel, idx := findSelectCase(fn, ch, send)
	if sel == nil {
		return func(e *Expr) (ISet, bool) { return nil, false }
	}
	return selectIndexHook(fn, func(s *ssa.Select) bool { return s == sel }, idx)
}

func resultConst(k int, v int64) func(r ReturnSite) bool {
	return func(r ReturnSite) bool {
		if k >= len(r.Results) {
			return false
		}
		c, ok := r.State.rangeOf(r.Results[k]).IsConst()
		return ok && c == v
	}
}

// fsmContracts: the FSM's positive obligations.
func (c *Check) fsmContracts(rule string) {
	p := c.P
	var rows []contract
	idle, openSent, openConfirm := p.MustConst("idleState"), p.MustConst("openSentState"), p.MustConst("openConfirmState")
	_ = openSent
	// cleanup
	rows = append(rows,
		contract{fn: "fsm.cleanup", name: "connection and reader released", must: []string{"call:fsm.cleanupConnAndReader"},
			why: "run's deferred cleanup is what closes the connection of an FSM that is stopped"},
		contract{fn: "fsm.cleanup", name: "dial in flight => cancelled and joined", hook: nnField("cancelDialFn", true), must: []string{"call:dyn:context.CancelFunc", "recv:dialResultCh"},
			why: "a stopped FSM leaves no dial goroutine (and no half-open connection) behind"},
		contract{fn: "fsm.cleanup", name: "no dial ever started => nothing to cancel", hook: nnField("cancelDialFn", false), mustNot: []string{"call:dyn:context.CancelFunc", "recv:dialResultCh"},
			why: "calling a nil cancel function panics; receiving from a nil channel blocks for ever"},
	)
	if fn := p.Fn("fsm.cleanup"); fn != nil {
		// timers: stopped when set, untouched when nil
		for _, set := range []bool{true, false} {
			a := NewAnalysis(p, fn)
			a.Unroll = 8
			a.AtomHook = func(e *Expr) (ISet, bool) {
				if e.Op == "nn" && typeKey(e.Args[0].Typ) == "*time.Timer" {
					return isConst(b2i(set)), true
				}
				if e.Op == "nn" && isFieldRead(e.Args[0], "cancelDialFn") {
					return isConst(0), true
				}
				return nil, false
			}
			a.Run()
			stop := false
			for in, sts := range a.At {
				if ci, isC := in.(ssa.CallInstruction); isC && len(sts) > 0 && p.calleeDesc(ci) == "time.Timer.Stop" {
					stop = true
				}
			}
			c.require(stop == set && len(a.Returns) > 0, rule, "fsm.cleanup", fmt.Sprintf("timers set=%v", set), p.Pos(fn.Pos()),
				"timers that exist are stopped; a timer that was never created is not touched (nil dereference)")
		}
	}
	// cleanupConnAndReader
	rows = append(rows,
		contract{fn: "fsm.cleanupConnAndReader", name: "reader exists => told to stop and joined", hook: nnField("closeReaderCh", true), must: []string{"call:sync.Once.Do", "recv:readerDoneCh"},
			why: "the connection slot is reused only after the reader of the old connection has exited"},
		contract{fn: "fsm.cleanupConnAndReader", name: "no reader ever started => returns", hook: nnField("closeReaderCh", false), mustNot: []string{"call:sync.Once.Do", "recv:readerDoneCh"},
			why: "closing a nil channel panics; receiving from a nil channel blocks for ever"},
		contract{fn: "fsm.cleanupConnAndReader", closure: onceBody, name: "the Once closes closeReaderCh", must: []string{"close:closeReaderCh"},
			why: "closeReaderCh is what the reader's hand-off selects listen to"},
		contract{fn: "fsm.cleanupConnAndReader", name: "no connection => Close not called", hook: nnField("conn", false), noReach: []string{"invoke:net.Conn.Close"},
			why: "Close on a nil connection panics"},
	)
	// sendNotification / sendKeepAlive
	rows = append(rows,
		contract{fn: "fsm.sendNotification", name: "encoded => written", hook: nnResult("Notification.encode", false), must: []string{"call:invoke:net.Conn.Write"},
			why: "a NOTIFICATION the FSM decided to send reaches the connection"},
		contract{fn: "fsm.sendNotification", name: "encode error => nothing written", hook: nnResult("Notification.encode", true), mustNot: []string{"call:invoke:net.Conn.Write"},
			why: "nothing but whole messages is written"},
		contract{fn: "fsm.sendKeepAlive", name: "encoded => written", hook: nnResult("keepAliveMessage.encode", false), must: []string{"call:invoke:net.Conn.Write"},
			why: "a KEEPALIVE the FSM decided to send reaches the connection"},
	)
	// connect
	if fn := p.Fn("fsm.connect"); fn != nil {
		drErr := func(nonNil bool) func(e *Expr) (ISet, bool) { return nnField("err", nonNil) }
		for _, ch := range []string{"dialResultCh", "connectRetryTimer.C"} {
			sel := caseHook(fn, ch, false)
			rows = append(rows,
				contract{fn: "fsm.connect", name: "case " + ch + ", dial succeeded => connection stored, OPEN sent", hook: hooks(sel, drErr(false)),
					must: []string{"store:conn", "call:fsm.sendOpenAndSetHoldTimer"}, why: "a connection that was established is used (and owned) by the FSM"},
			)
		}
		rows = append(rows,
			contract{fn: "fsm.connect", name: "dial failed => back to Idle without OPEN", hook: hooks(caseHook(fn, "dialResultCh", false), drErr(true)),
				sel: func(r ReturnSite) bool { return true }, mustNot: []string{"call:fsm.sendOpenAndSetHoldTimer", "store:conn"},
				why: "no OPEN is attempted on a connection that does not exist"},
			contract{fn: "fsm.connect", name: "retry timer fired, dial failed => dials again", hook: hooks(caseHook(fn, "connectRetryTimer.C", false), drErr(true)),
				minRet: -1, reach: []string{"fsm.dialPeer"}, mustNot: []string{"call:fsm.sendOpenAndSetHoldTimer"},
				why: "the connect-retry timer restarts the dial: without it the state waits on a closed result channel"},
		)
	}
	// active / idle
	rows = append(rows,
		contract{fn: "fsm.active", name: "connection present => OPEN sent at once", hook: nnField("conn", true), must: []string{"call:fsm.sendOpenAndSetHoldTimer"},
			why: "an accepted connection is answered with an OPEN without waiting for a timer"},
		contract{fn: "fsm.active", name: "no connection => waits for the retry timer, then dials", hook: hooks(nnField("conn", false), caseHook(p.Fn("fsm.active"), "connectRetryTimer.C", false)),
			must: []string{"call:fsm.dialPeer", "store:connectRetryTimer"}, mustNot: []string{"call:fsm.sendOpenAndSetHoldTimer"}, why: "Active leads back to Connect with a fresh dial"},
		contract{fn: "fsm.idle", name: "idle hold timer fired => dial started, retry timer armed", hook: caseHook(p.Fn("fsm.idle"), "idleHoldTimer.C", false),
			must: []string{"call:fsm.dialPeer", "store:connectRetryTimer", "call:time.Timer.Reset"}, why: "Idle leads to Connect with a dial in flight"},
	)
	// run: start state, refusal on close, error hand-off
	if fn := p.Fn("fsm.run"); fn != nil {
		for _, withConn := range []bool{true, false} {
			first, known := p.firstRequestTargets(fn, nnField("conn", withConn))
			want := p.MustConst("activeState")
			if !withConn {
				want = idle
			}
			ok := known && len(first) > 0
			for _, v := range first {
				if v != want {
					ok = false
				}
			}
			c.require(ok, rule, "fsm.run", fmt.Sprintf("first request with connection=%v", withConn), p.Pos(fn.Pos()),
				fmt.Sprintf("an FSM created for an accepted connection first asks for Active (and sends its OPEN there); one without asks for Idle; first targets seen: %v", first))
		}
		// a request answered by closeCh is a refusal: no state function runs
		selOuter, idxSend := findSelectCase(fn, "transitionCh", true)
		if selOuter != nil {
			idxClose := selectCaseOf(selOuter, "closeCh", false)
			stateFns := []string{"fsm.idle", "fsm.connect", "fsm.active", "fsm.openSent", "fsm.openConfirm", "fsm.established"}
			rows = append(rows, contract{fn: "fsm.run", name: "closed while offering the request => no state entered",
				hook:    selectIndexHook(fn, func(s *ssa.Select) bool { return s == selOuter }, idxClose),
				noReach: stateFns, why: "a transition the manager has not granted is never taken"})
			// inner select: the grant, or close
			var inner *ssa.Select
			ownInstrs(fn, func(in ssa.Instruction) {
				if s, ok := in.(*ssa.Select); ok && s != selOuter && selectCaseOf(s, "transitionCh", false) >= 0 && selectCaseOf(s, "closeCh", false) >= 0 {
					inner = s
				}
			})
			if inner != nil {
				rows = append(rows, contract{fn: "fsm.run", name: "closed while waiting for the grant => no state entered",
					hook: hooks(selectIndexHook(fn, func(s *ssa.Select) bool { return s == selOuter }, idxSend),
						selectIndexHook(fn, func(s *ssa.Select) bool { return s == inner }, selectCaseOf(inner, "closeCh", false))),
					noReach: stateFns, why: "a transition the manager has not granted is never taken"})
			}
		}
		// disabled mid-transition with a live session => Cease is sent
		if selOuter != nil {
			fromHook := func(set ISet) func(e *Expr) (ISet, bool) {
				return func(e *Expr) (ISet, bool) {
					if (e.Op == "mphi" || e.Op == "ld" || e.Op == "phi") && strings.Contains(e.Key, "fa:from(alloc") {
						return set, true
					}
					if isFieldVal(e, "from") && strings.Contains(e.Key, "(alloc:") && !strings.Contains(e.Key, "rcall:") {
						return set, true
					}
					return nil, false
				}
			}
			idxClose := selectCaseOf(selOuter, "closeCh", false)
			// (the request being made is never for disabled: run returns there)
			toHook := func(e *Expr) (ISet, bool) {
				if (e.Op == "mphi" || e.Op == "ld" || e.Op == "phi") && strings.Contains(e.Key, "fa:to(alloc") {
					return isRange(1, p.MustConst("establishedState")), true
				}
				if isFieldVal(e, "to") && strings.Contains(e.Key, "(alloc:") && !strings.Contains(e.Key, "rcall:") {
					return isRange(1, p.MustConst("establishedState")), true
				}
				return nil, false
			}
			outerClosed := hooks(selectIndexHook(fn, func(s *ssa.Select) bool { return s == selOuter }, idxClose), toHook)
			// any iteration, not the first: the transition variable is unknown
			// when the loop is entered
			generic := func(from, to *ssa.BasicBlock, st *State) {
				if to.Parent() != fn || to.Dominates(from) {
					return
				}
				isHead := false
				for _, pr := range to.Preds {
					if to.Dominates(pr) {
						isHead = true
					}
				}
				if !isHead {
					return
				}
				for k := range st.mem {
					me := st.memE[k]
					if me == nil {
						continue
					}
					r := rootOf(me)
					if r != nil && r.Op == "alloc" && r.Typ != nil && strings.HasSuffix(r.Typ.String(), "stateTransition") {
						delete(st.mem, k)
					}
				}
			}
			live := isRange(openSent, p.MustConst("establishedState"))
			early := isRange(0, p.MustConst("activeState"))
			rows = append(rows,
				contract{fn: "fsm.run", name: "disabled mid-transition, live session => Cease sent", hook: hooks(outerClosed, nnField("conn", true), fromHook(live)), after: generic,
					must: []string{"call:fsm.sendNotification"}, why: "a connection that was in OpenSent or later gets a Cease before it is closed"},
				contract{fn: "fsm.run", name: "disabled mid-transition, no connection => nothing sent", hook: hooks(outerClosed, nnField("conn", false), fromHook(live)), after: generic,
					mustNot: []string{"call:fsm.sendNotification"}, why: "writing to a nil connection panics"},
				contract{fn: "fsm.run", name: "disabled mid-transition before OpenSent => nothing sent", hook: hooks(outerClosed, nnField("conn", true), fromHook(early)), after: generic,
					mustNot: []string{"call:fsm.sendNotification"}, why: "no NOTIFICATION precedes the OPEN"},
			)
		}
		// the next request is (state just left, state the handler asked for)
		{
			a := NewAnalysis(p, fn)
			var bad []string
			n := 0
			a.AfterFlow = func(from, to *ssa.BasicBlock, st *State) {
				if to.Parent() != fn || !to.Dominates(from) {
					return
				}
				// the transition variable: the local of type stateTransition
				var tv *ssa.Alloc
				ownInstrs(fn, func(in ssa.Instruction) {
					if al, isA := in.(*ssa.Alloc); isA && strings.HasSuffix(al.Type().String(), "stateTransition") && al.Parent() == fn {
						tv = al
					}
				})
				if tv == nil {
					return
				}
				for _, v := range []*Expr{p.loadField(st, a.ExprAt(st, tv), "stateTransition", "to")} {
					if v == nil {
						continue
					}
					n++
					if cv, isC := st.rangeOf(v).IsConst(); isC && cv == 0 {
						continue
					}
					if strings.Contains(v.Key, "rcall:fsm.") {
						continue
					}
					if v.Op == "phi" {
						// the variable the dispatch assigns: every edge (through
						// further phis) a state handler's result, or disabled
						var fromHandlers func(x ssa.Value, depth int) bool
						fromHandlers = func(x ssa.Value, depth int) bool {
							if depth > 4 {
								return false
							}
							switch y := x.(type) {
							case *ssa.Const:
								return y.Value != nil && y.Int64() == 0
							case *ssa.Call:
								d := p.calleeDesc(y)
								if h := p.helperCallee(y); h != nil {
									// a dispatch helper: its results
									ok := true
									for _, b := range h.Blocks {
										if ret, isR := b.Instrs[len(b.Instrs)-1].(*ssa.Return); isR && len(ret.Results) > 0 {
											ok = ok && fromHandlers(ret.Results[0], depth+1)
										}
									}
									return ok
								}
								return strings.HasPrefix(d, "fsm.")
							case *ssa.Extract:
								if y.Index != 0 {
									return false
								}
								return fromHandlers(y.Tuple, depth+1)
							case *ssa.Phi:
								for _, e := range y.Edges {
									if e != ssa.Value(y) && !fromHandlers(e, depth+1) {
										return false
									}
								}
								return true
							case *ssa.UnOp:
								// a named result read back from its cell
								if al, isA := y.X.(*ssa.Alloc); isA {
									ok, n := true, 0
									for _, r := range *al.Referrers() {
										if st, isS := r.(*ssa.Store); isS && st.Addr == ssa.Value(al) {
											n++
											ok = ok && fromHandlers(st.Val, depth+1)
										}
									}
									return ok && n > 0
								}
							}
							return false
						}
						okPhi := false
						for _, g := range deepFuncs(fn) {
							ownInstrs(g, func(in ssa.Instruction) {
								if ph, isPhi := in.(*ssa.Phi); isPhi && ph.Name()+"#" == v.S && fromHandlers(ph, 0) {
									okPhi = true
								}
							})
						}
						if okPhi {
							continue
						}
					}
					bad = append(bad, trunc(v.Key, 60))
				}
			}
			a.Run()
			c.require(len(bad) == 0 && n > 0, rule, "fsm.run", "next request is the handler's result", p.Pos(fn.Pos()),
				fmt.Sprintf("at the end of an iteration t.to is the state the handler returned (or disabled); other values: %v", bad))
		}
		// errors reach the manager exactly when there is one
		errOf := func(nonNil bool) func(e *Expr) (ISet, bool) {
			return func(e *Expr) (ISet, bool) {
				if e.Op != "nn" {
					return nil, false
				}
				x := e.Args[0]
				if x.Op == "phi" && typeKey(x.Typ) == "error" {
					return isConst(b2i(nonNil)), true
				}
				if x.Op == "ex" && len(x.Args) > 0 && x.Args[0].Op == "rcall" && strings.HasPrefix(x.Args[0].S, "fsm.") {
					return isConst(b2i(nonNil)), true
				}
				return nil, false
			}
		}
		for _, nonNil := range []bool{true, false} {
			a := NewAnalysis(p, fn)
			a.AtomHook = errOf(nonNil)
			a.Run()
			offered := false
			for in, sts := range a.At {
				if s, ok := in.(*ssa.Select); ok && len(sts) > 0 && selectCaseOf(s, "errorCh", true) >= 0 {
					offered = true
				}
			}
			c.require(offered == nonNil, rule, "fsm.run", fmt.Sprintf("state function error non-nil=%v", nonNil), p.Pos(fn.Pos()),
				"an error returned by a state function is offered to the manager (damping is decided there); no error, nothing offered")
		}
	}
	// openSent: remote identifier recorded, hold timer drained when hold time 0
	if fn := p.Fn("fsm.openSent"); fn != nil {
		rows = append(rows,
			contract{fn: "fsm.openSent", closure: closureCalling("invoke:Plugin.OnOpenMessage"), name: "accepted OPEN => remote identifier recorded",
				sel: resultConst(0, openConfirm), must: []string{"store:remoteID", "call:fsm.sendKeepAlive"},
				why: "collision resolution compares the identifier the remote sent in this OPEN"},
			contract{fn: "fsm.openSent", closure: closureCalling("invoke:Plugin.OnOpenMessage"), name: "hold timer already fired when stopped => its tick is consumed",
				hook: func(e *Expr) (ISet, bool) {
					if e.Op == "rcall" && e.S == "time.Timer.Stop" || (e.Op == "call" && e.S == "time.Timer.Stop") {
						return isConst(0), true
					}
					return nil, false
				},
				force: []string{"fsm.drainAndResetHoldTimer"},
				sel:   resultConst(0, openConfirm), must: []string{"recv:holdTimer.C"},
				why: "a stale tick left in the hold timer's channel is a spurious Hold Timer Expired in OpenConfirm (also with hold time 0)"},
		)
	}
	// keepalive timer branch of OpenConfirm and Established
	for _, outer := range []string{"fsm.openConfirm", "fsm.established"} {
		fn := p.Fn(outer)
		if fn == nil {
			continue
		}
		cl := p.closureWithCall(fn, descIs("fsm.sendKeepAlive"))
		if cl == nil {
			c.undecided(rule, outer, "keepalive branch", p.Pos(fn.Pos()), "no closure calling sendKeepAlive")
			continue
		}
		for _, fails := range []bool{false, true} {
			a := NewAnalysis(p, cl)
			a.Init = p.closureInit(cl)
			a.AtomHook = hooks(caseHook(cl, "keepAliveTimer.C", false), nnResult("fsm.sendKeepAlive", fails))
			a.Run()
			if fails {
				ok := len(a.Returns) > 0
				for _, r := range a.Returns {
					if v, isC := r.State.rangeOf(r.Results[0]).IsConst(); !isC || v != idle {
						ok = false
					}
					if v, isC := r.State.nonNil(r.Results[1]).IsConst(); !isC || v != 1 {
						ok = false
					}
				}
				c.require(ok, rule, p.Name(cl), "KEEPALIVE write failed => Idle with the error", p.Pos(cl.Pos()), "a failed write ends the session")
			} else {
				c.require(len(a.Returns) == 0, rule, p.Name(cl), "KEEPALIVE written => the state continues", p.Pos(cl.Pos()),
					fmt.Sprintf("a successful periodic KEEPALIVE does not leave the state (%d return(s) reachable)", len(a.Returns)))
			}
		}
	}
	// established: nil handler is never called
	if fn := p.Fn("fsm.established"); fn != nil {
		if cl := p.closureWithCall(fn, descIs("invoke:Plugin.OnEstablished")); cl != nil {
			a := NewAnalysis(p, cl)
			a.AtomHook = nnResult("invoke:Plugin.OnEstablished", false)
			a.Run()
			called := false
			for in, sts := range a.At {
				if ci, isC := in.(ssa.CallInstruction); isC && len(sts) > 0 && strings.HasPrefix(p.calleeDesc(ci), "dyn:UpdateMessageHandler") {
					// reached with a value that may be the nil OnEstablished returned
					for _, st := range sts {
						if v, isK := st.nonNil(a.exprOf(st, nil, ci.Common().Value)).IsConst(); !isK || v != 1 {
							called = true
						}
					}
				}
			}
			c.require(!called, rule, p.Name(cl), "nil UpdateMessageHandler => never called", p.Pos(cl.Pos()), "OnEstablished may return nil: UPDATEs are then accepted without a handler call")
		}
	}
	// WriteUpdate: keepalive timer restarted exactly after a successful write
	if fn := p.Fn("updateMessageWriter.WriteUpdate"); fn != nil {
		for _, fails := range []bool{false, true} {
			a := NewAnalysis(p, fn)
			a.AtomHook = nnResult("invoke:net.Conn.Write", fails)
			a.Run()
			offered := false
			for in, sts := range a.At {
				if s, ok := in.(*ssa.Select); ok && len(sts) > 0 && selectCaseOf(s, "resetKATimerCh", true) >= 0 {
					offered = true
				}
			}
			c.require(offered == !fails, rule, "updateMessageWriter.WriteUpdate", fmt.Sprintf("write failed=%v", fails), p.Pos(fn.Pos()),
				"the keepalive timer is restarted after an UPDATE was written (it counts as a KEEPALIVE), and only then")
		}
	}
	c.contracts(rule, rows)
}

// codecContracts: results of inner decoders / encoders are used, and the
// one-octet length limits sit exactly at 255.
func (c *Check) codecContracts(rule string) {
	p := c.P
	var rows []contract
	if fn := p.Fn("openMessage.decode"); fn != nil && len(fn.Params) == 2 {
		b := paramExpr(fn, 1)
		wellFormed := func(a *Analysis, st *State) {
			lenB := mkLen(b)
			st.addFact(Fact{L: st.linOf(lenB).add(linConst(10), -1)})
			d := st.linOf(byteLoad(b, 9)).add(st.linOf(lenB), -1).add(linConst(10), 1)
			st.addFact(Fact{L: d})
			st.addFact(Fact{L: d.neg()})
		}
		errNil := func(r ReturnSite) bool { return len(r.Results) == 1 && r.Results[0].IsNil() }
		rows = append(rows,
			contract{fn: "openMessage.decode", name: "parameters decoded => stored, accepted", init: wellFormed, hook: nnResult("decodeOptionalParams", false),
				sel: func(r ReturnSite) bool { return true }, must: []string{"store:optionalParams", "store:version", "store:asn", "store:holdTime", "store:bgpID"},
				why: "an OPEN whose fixed part and parameters are well-formed is accepted with everything recorded"},
			contract{fn: "openMessage.decode", name: "parameter decoding failed => rejected", init: wellFormed, hook: nnResult("decodeOptionalParams", true),
				sel: errNil, minRet: -1, mustNot: []string{"call:decodeOptionalParams"},
				why: "an OPEN with malformed optional parameters is never accepted"},
		)
		// accepted means nil: under the first assumption no return carries an error
		a := NewAnalysis(p, fn)
		a.Init = wellFormed
		a.AtomHook = nnResult("decodeOptionalParams", false)
		a.Run()
		rej := 0
		for _, rs := range p.errReturns(a) {
			if !isAccept(rs) {
				rej++
			}
		}
		c.require(rej == 0 && len(a.Returns) > 0, rule, "openMessage.decode", "well-formed OPEN => no error", p.Pos(fn.Pos()), "a well-formed OPEN whose parameters decode is accepted")
	}
	if fn := p.Fn("openMessage.getCapabilities"); fn != nil {
		isCap := func(v int64) func(e *Expr) (ISet, bool) {
			return func(e *Expr) (ISet, bool) {
				if e.Op == "istype" {
					return p.assertAnswer(e.S, "*capabilityOptionalParam", v == 1)
				}
				return nil, false
			}
		}
		rows = append(rows,
			contract{fn: "openMessage.getCapabilities", name: "capability parameters contribute their capabilities", hook: isCap(1), minRet: -1, reach: []string{"builtin:append"},
				why: "the capabilities the remote sent are what validation and the plugin see"},
			contract{fn: "openMessage.getCapabilities", name: "other parameters contribute nothing", hook: isCap(0), minRet: -1, noReach: []string{"builtin:append"},
				why: "a parameter of another type has no capability list (nil dereference)"},
		)
	}
	if fn := p.Fn("openMessage.encode"); fn != nil {
		// the success return admits exactly up to 255 octets of parameters
		a := NewAnalysis(p, fn)
		a.Run()
		n := 0
		for _, r := range a.Returns {
			if len(r.Results) != 2 || !r.Results[1].IsNil() || r.Results[0].Op != "rcall" || len(r.Results[0].Args) < 2 {
				continue
			}
			lay, lerr := r.State.layoutOf(r.Results[0].Args[1], 0)
			if lerr != "" || len(lay) == 0 || lay[len(lay)-1].Kind != "bytes" {
				continue // no parameters in this state
			}
			n++
			rng := r.State.rangeOf(mkLen(lay[len(lay)-1].Val))
			c.require(rng.Contains(255) && !rng.Contains(256), rule, "openMessage.encode", "Opt Parm Len limit", p.InstrPos(r.Instr),
				"the one-octet Opt Parm Len holds up to 255: on success len(params) ∈ "+rng.String()+" must reach 255 and not 256")
		}
		c.floor(rule, n, 1, "successful returns of openMessage.encode with parameters")
		rows = append(rows, contract{fn: "openMessage.encode", name: "a parameter that cannot be encoded => error",
			hook: nnResult("invoke:optionalParam.encode", true),
			sel:  func(r ReturnSite) bool { return len(r.Results) == 2 && r.Results[1].IsNil() }, minRet: -1,
			mustNot: []string{"call:invoke:optionalParam.encode"}, why: "an OPEN is emitted only when all of it was encoded"})
	}
	c.contracts(rule, rows)
}

// accumulatorsStartEmpty: a slice that a loop grows by append(acc, …) starts
// with no elements (make(T, 0[, cap]), nil, or an empty literal): an
// accumulator made with a non-zero length hands out zero elements (octets,
// capabilities, prefixes) nobody put there.
func (c *Check) accumulatorsStartEmpty(rule string, fns ...string) {
	p := c.P
	n := 0
	for _, name := range fns {
		fn := p.Funcs[name]
		if fn == nil {
			continue
		}
		for _, g := range deepFuncs(fn) {
			for _, b := range g.Blocks {
				for _, in := range b.Instrs {
					phi, ok := in.(*ssa.Phi)
					if !ok {
						break
					}
					if _, isSlice := phi.Type().Underlying().(*types.Slice); !isSlice || !inLoopLocal(b) {
						continue
					}
					grows := false
					for i, e := range phi.Edges {
						if !b.Dominates(b.Preds[i]) {
							continue
						}
						seen := map[ssa.Value]bool{}
						var viaAppend func(v ssa.Value) bool
						viaAppend = func(v ssa.Value) bool {
							if seen[v] {
								return false
							}
							seen[v] = true
							switch x := v.(type) {
							case *ssa.Call:
								if bi, isB := x.Call.Value.(*ssa.Builtin); isB && bi.Name() == "append" {
									return x.Call.Args[0] == ssa.Value(phi) || viaAppend(x.Call.Args[0])
								}
							case *ssa.Phi:
								for _, y := range x.Edges {
									if viaAppend(y) {
										return true
									}
								}
							}
							return false
						}
						if viaAppend(e) {
							grows = true
						}
					}
					if !grows {
						continue
					}
					for i, e := range phi.Edges {
						if b.Dominates(b.Preds[i]) {
							continue
						}
						n++
						var startsEmpty func(v ssa.Value, depth int) bool
						startsEmpty = func(v ssa.Value, depth int) bool {
							if depth > 6 {
								return false
							}
							switch x := v.(type) {
							case *ssa.MakeSlice:
								cst, isC := x.Len.(*ssa.Const)
								if !isC || cst.Value == nil {
									return false
								}
								if cst.Int64() == 0 {
									return true
								}
								// a fixed prefix written out element by element before
								// the loop (a header the loop appends the body to)
								written := map[int64]bool{}
								for _, r := range *x.Referrers() {
									if ia, isIA := r.(*ssa.IndexAddr); isIA {
										if k, isK := ia.Index.(*ssa.Const); isK && k.Value != nil {
											for _, rr := range *ia.Referrers() {
												if st, isS := rr.(*ssa.Store); isS && st.Addr == ssa.Value(ia) && st.Block().Dominates(b) {
													written[k.Int64()] = true
												}
											}
										}
									}
								}
								for k := int64(0); k < cst.Int64(); k++ {
									if !written[k] {
										return false
									}
								}
								return cst.Int64() <= 16
							case *ssa.Const:
								return x.IsNil()
							case *ssa.Slice:
								// an empty literal: new [0]T sliced
								if al, isA := x.X.(*ssa.Alloc); isA {
									if at, isArr := al.Type().(*types.Pointer).Elem().Underlying().(*types.Array); isArr && at.Len() == 0 {
										return true
									}
								}
							case *ssa.Parameter:
								return true // the caller's accumulator
							case *ssa.Call:
								// elements put there on purpose before the loop
								if bi, isB := x.Call.Value.(*ssa.Builtin); isB && bi.Name() == "append" {
									return startsEmpty(x.Call.Args[0], depth+1)
								}
							}
							return false
						}
						ok := startsEmpty(e, 0)
						c.require(ok, rule, p.Name(g), "accumulator "+phi.Comment, p.InstrPos(phi), "a slice grown by append in a loop starts empty")
					}
				}
			}
		}
	}
	if n == 0 {
		c.ok(rule, "", "append accumulators", "-", "no slice is grown by append in a loop in the named functions (pre-sized or index-filled results are covered by their own rules)")
	}
}

// attrErrData: the data of an attribute-based fallback NOTIFICATION is the
// attribute's type code, its length (one octet, or two when the value is
// longer than 255) and its value.
func (c *Check) attrErrData(rule string) {
	p := c.P
	fn := p.Fn("notifDataForAttrBasedErr")
	if fn == nil || !c.sig(rule, fn, 2) {
		return
	}
	code, data := paramExpr(fn, 0), paramExpr(fn, 1)
	for _, ext := range []bool{false, true} {
		a := NewAnalysis(p, fn)
		a.Init = func(a *Analysis, st *State) {
			if ext {
				st.rng[mkLen(data).Key] = isRange(256, 65535)
			} else {
				st.rng[mkLen(data).Key] = isRange(0, 255)
			}
		}
		a.Run()
		ok := len(a.Returns) > 0
		detail := ""
		for _, r := range a.Returns {
			st := r.State
			lay, lerr := st.layoutOf(r.Results[0], 0)
			isLen := func(v *Expr) bool {
				x := v
				for x != nil && x.Op == "conv" {
					x = x.Args[0]
				}
				d := st.linOf(x).add(st.linOf(mkLen(data)), -1)
				k, isC := d.isConst()
				return isC && k == 0
			}
			lenKind := "byte"
			if ext {
				lenKind = "be16"
			}
			pats := []segPat{
				{Kind: "byte", Pred: func(v *Expr) bool { return v != nil && v.Key == code.Key }, What: "byte(type code)"},
				{Kind: lenKind, Pred: isLen, What: lenKind + "(len(value))"},
			}
			// an empty value is not a segment
			if z, isZ := st.rangeOf(mkLen(data)).IsConst(); !(isZ && z == 0) {
				pats = append(pats, segPat{Kind: "bytes", Pred: func(v *Expr) bool { return v != nil && v.Key == data.Key }, What: "the value"})
			}
			if lerr != "" {
				ok, detail = false, "construction not understood: "+lerr
				continue
			}
			if good, d := matchLayout(lay, pats); !good {
				ok, detail = false, d+" (layout "+layoutString(lay)+")"
			}
		}
		c.require(ok, rule, "notifDataForAttrBasedErr", fmt.Sprintf("extended length=%v", ext), p.Pos(fn.Pos()), "data = type code, length, value — "+detail)
	}
}

// passiveOption: a peer is passive exactly when WithPassive was given.
func (c *Check) passiveOption(rule string) {
	p := c.P
	if fn := p.Fn("defaultPeerOptions"); fn != nil {
		a := NewAnalysis(p, fn)
		a.Run()
		ok := len(a.Returns) > 0
		for _, r := range a.Returns {
			v := mkField(r.Results[0], "passive", 0, nil)
			if cv, isC := r.State.rangeOf(v).IsConst(); !isC || cv != 0 {
				ok = false
			}
		}
		c.require(ok, rule, "defaultPeerOptions", "peers are active by default", p.Pos(fn.Pos()), "defaultPeerOptions().passive is false: a peer added without WithPassive dials out")
	}
	if fn := p.Fn("WithPassive"); fn != nil {
		ok := false
		for _, g := range withAnon(fn) {
			if g == fn || len(g.Params) != 1 {
				continue
			}
			a := NewAnalysis(p, g)
			a.Run()
			o := paramExpr(g, 0)
			for _, r := range a.Returns {
				if v := p.loadField(r.State, o, "peerOptions", "passive"); v != nil {
					if cv, isC := r.State.rangeOf(v).IsConst(); isC && cv == 1 {
						ok = true
					}
				}
			}
		}
		if !ok {
			// a named setter handed to the option constructor
			for _, cl := range p.callsIn(fn, func(string) bool { return true }) {
				for _, arg := range cl.Common().Args {
					if g := p.funcValueOf(arg); g != nil && len(g.Params) == 1 {
						a := NewAnalysis(p, g)
						a.Run()
						o := paramExpr(g, 0)
						for _, r := range a.Returns {
							if v := p.loadField(r.State, o, "peerOptions", "passive"); v != nil {
								if cv, isC := r.State.rangeOf(v).IsConst(); isC && cv == 1 {
									ok = true
								}
							}
						}
					}
				}
			}
		}
		c.require(ok, rule, "WithPassive", "sets passive", p.Pos(fn.Pos()), "the option WithPassive returns sets peerOptions.passive to true")
	}
}

// noWaitUnderLock: Server.mu is not held while waiting for goroutines that
// themselves take Server.mu (the accept loops, through handleInboundConn):
// whoever holds the lock waits for a goroutine that waits for the lock.
func (c *Check) noWaitUnderLock(rule string) {
	p := c.P
	// goroutines that signal a WaitGroup and may lock Server.mu
	locksMu := func(f *ssa.Function) bool {
		hit := false
		for g := range p.reach(f) {
			ownInstrs(g, func(in ssa.Instruction) {
				cl, ok := in.(*ssa.Call)
				if !ok || p.calleeDesc(cl) != "sync.Mutex.Lock" || len(cl.Call.Args) == 0 {
					return
				}
				if fa, ok := cl.Call.Args[0].(*ssa.FieldAddr); ok && structFieldName(fa) == "mu" && structNameOfPtr(fa.X.Type()) == "Server" {
					hit = true
				}
			})
		}
		return hit
	}
	var waiters []*ssa.Function
	for _, s := range p.spawns() {
		if s.Target == nil {
			continue
		}
		signals := len(p.callsDeep(s.Target, descIs("sync.WaitGroup.Done"))) > 0
		if !signals {
			for _, g := range withAnon(s.Target) {
				ownInstrs(g, func(in ssa.Instruction) {
					if d, ok := in.(*ssa.Defer); ok && p.calleeDesc(d) == "sync.WaitGroup.Done" {
						signals = true
					}
				})
			}
		}
		if signals && locksMu(s.Target) {
			waiters = append(waiters, s.Target)
		}
	}
	n := 0
	for _, fn := range p.FuncSeq {
		waits := p.callsIn(fn, descIs("sync.WaitGroup.Wait"))
		if len(waits) == 0 {
			continue
		}
		held := p.lockHeld(fn, "mu")
		if par := p.enteredOnlyThroughHelper(fn); par != nil {
			held = p.lockHeld(par, "mu")
		}
		for _, w := range waits {
			n++
			c.require(!(held[w.(ssa.Instruction)] && len(waiters) > 0), rule, p.Name(fn), "WaitGroup.Wait", p.InstrPos(w.(ssa.Instruction)),
				"Server.mu is not held while waiting for goroutines that take Server.mu themselves (accept loops call handleInboundConn): that wait can never end")
		}
	}
	c.floor(rule, n, 1, "WaitGroup.Wait sites")
}

// restartAfterHandler: in Established the hold timer is restarted after the
// UPDATE handler has returned, never before it: time spent in the handler is
// not silence of the peer (a restart before a slow handler leaves an expired
// timer pending beside the next queued message).
func (c *Check) restartAfterHandler(rule string) {
	p := c.P
	fn := p.Fn("fsm.established")
	if fn == nil {
		return
	}
	cl := p.closureWithCall(fn, descIs("invoke:Plugin.OnEstablished"))
	if cl == nil {
		c.undecided(rule, "fsm.established", "session loop", p.Pos(fn.Pos()), "no closure calling OnEstablished")
		return
	}
	var handlerCalls []ssa.Instruction
	allInstrs(cl, func(in ssa.Instruction) {
		if ci, ok := in.(*ssa.Call); ok && strings.HasPrefix(p.calleeDesc(ci), "dyn:UpdateMessageHandler") {
			handlerCalls = append(handlerCalls, in)
		}
	})
	n := 0
	for _, r := range p.callsIn(cl, func(d string) bool { return d == "fsm.drainAndResetHoldTimer" || d == "time.Timer.Reset" }) {
		ri := r.(ssa.Instruction)
		if p.calleeDesc(r) == "time.Timer.Reset" {
			// only resets of the hold timer
			isHold := false
			for _, arg := range r.Common().Args {
				if ld, ok := arg.(*ssa.UnOp); ok {
					if fa, ok := ld.X.(*ssa.FieldAddr); ok && structFieldName(fa) == "holdTimer" {
						isHold = true
					}
				}
			}
			if !isHold {
				continue
			}
		}
		n++
		hit := pathSearch(cl, ri, func(x ssa.Instruction) bool {
			for _, h := range handlerCalls {
				if x == h {
					return true
				}
			}
			return false
		}, func(x ssa.Instruction) bool {
			_, isSel := x.(*ssa.Select)
			return isSel
		})
		c.require(hit == nil, rule, p.Name(cl), "hold timer restart", p.InstrPos(ri),
			"no UPDATE handler call follows a hold-timer restart before the next select: the timer is restarted when the handler has returned")
	}
	c.floor(rule, n, 1, "hold-timer restarts in the session loop")
}

// optionsApplied: a PeerOption's apply runs the function it was built with
// (an option that is accepted and silently not applied leaves the default).
func (c *Check) optionsApplied(rule string) {
	p := c.P
	n := 0
	for _, name := range sortedKeys(p.Funcs) {
		fn := p.Funcs[name]
		if fn.Parent() != nil || fn.Name() != "apply" || fn.Signature.Recv() == nil || len(fn.Params) != 2 {
			continue
		}
		n++
		a := NewAnalysis(p, fn)
		a.Run()
		ok := len(a.Returns) > 0
		for _, r := range a.Returns {
			called := false
			for ev := range r.State.must {
				if strings.HasPrefix(ev, "call:dyn:func(") {
					called = true
				}
			}
			if !called {
				ok = false
			}
		}
		c.require(ok, rule, name, "runs its function", p.Pos(fn.Pos()), "apply calls the option's function on the options it is given, on every path")
	}
	c.floor(rule, n, 1, "PeerOption implementations")
}

// firstRequestTargets: the values of the transition variable's target when
// the request loop of fsm.run is first entered, under the given assumption
// (read from the abstract memory on the loop's entry edge, whatever builds the
// transition: a constructor call, a composite literal, field assignments).
func (p *Prog) firstRequestTargets(fn *ssa.Function, hook func(e *Expr) (ISet, bool)) (first []int64, known bool) {
	a := NewAnalysis(p, fn)
	a.AtomHook = hook
	known = true
	a.AfterFlow = func(from, to *ssa.BasicBlock, st *State) {
		if to.Parent() != fn || to.Dominates(from) {
			return
		}
		isHead := false
		for _, pr := range to.Preds {
			if to.Dominates(pr) {
				isHead = true
			}
		}
		if !isHead {
			return
		}
		seen := false
		for k, v := range st.mem {
			me := st.memE[k]
			if me != nil && me.Op == "fa" && me.S == "to" && me.Args[0].Op == "alloc" {
				seen = true
				if cv, isC := st.rangeOf(v).IsConst(); isC {
					first = append(first, cv)
				} else {
					known = false
				}
			}
		}
		if !seen {
			known = false
		}
	}
	a.Run()
	if len(a.Undecided) > 0 {
		known = false
	}
	return first, known
}
