package main

// specConstants: the named protocol constants the rules (and the code) work
// with have the values the RFCs / IANA registries assign. The other rules take
// a constant's value from the tree (so that renaming or regrouping is free);
// this one pins the values, written here from the specifications.

var specConstTable = map[string]int64{
	// RFC 4271 §4.1, §4.2
	"openMessageType": 1, "updateMessageType": 2, "notificationMessageType": 3, "keepAliveMessageType": 4,
	"headerLength": 19, "maxMessageLength": 4096,
	// RFC 6793, RFC 5492
	"asTrans": 23456, "capabilityOptionalParamType": 2,
	"CAP_MP_EXTENSIONS": 1, "CAP_FOUR_OCTET_AS": 65, "CAP_ADD_PATH": 69,
	"AFI_IPV4": 1, "AFI_IPV6": 2, "SAFI_UNICAST": 1,
	// RFC 4271 §4.5, §6
	"NOTIF_CODE_MESSAGE_HEADER_ERR": 1, "NOTIF_CODE_OPEN_MESSAGE_ERR": 2, "NOTIF_CODE_UPDATE_MESSAGE_ERR": 3,
	"NOTIF_CODE_HOLD_TIMER_EXPIRED": 4, "NOTIF_CODE_FSM_ERR": 5, "NOTIF_CODE_CEASE": 6,
	"NOTIF_SUBCODE_CONN_NOT_SYNCHRONIZED": 1, "NOTIF_SUBCODE_BAD_MESSAGE_LEN": 2, "NOTIF_SUBCODE_BAD_MESSAGE_TYPE": 3,
	"NOTIF_SUBCODE_UNSUPPORTED_VERSION_NUM": 1, "NOTIF_SUBCODE_BAD_PEER_AS": 2, "NOTIF_SUBCODE_BAD_BGP_ID": 3,
	"NOTIF_SUBCODE_UNSUPPORTED_OPTIONAL_PARAM": 4, "NOTIF_SUBCODE_UNACCEPTABLE_HOLD_TIME": 6, "NOTIF_SUBCODE_UNSUPPORTED_CAPABILITY": 7,
	"NOTIF_SUBCODE_MALFORMED_ATTR_LIST": 1, "NOTIF_SUBCODE_UNRECOGNIZED_WELL_KNOWN_ATTR": 2, "NOTIF_SUBCODE_MISSING_WELL_KNOWN_ATTR": 3,
	"NOTIF_SUBCODE_ATTR_FLAGS_ERR": 4, "NOTIF_SUBCODE_ATTR_LEN_ERR": 5, "NOTIF_SUBCODE_INVALID_ORIGIN_ATTR": 6,
	"NOTIF_SUBCODE_INVALID_NEXT_HOP_ATTR": 8, "NOTIF_SUBCODE_OPTIONAL_ATTR_ERR": 9, "NOTIF_SUBCODE_INVALID_NETWORK_FIELD": 10,
	"NOTIF_SUBCODE_MALFORMED_AS_PATH": 11,
	// RFC 6608
	"NOTIF_SUBCODE_RX_UNEXPECTED_MESSAGE_OPENSENT": 1, "NOTIF_SUBCODE_RX_UNEXPECTED_MESSAGE_OPENCONFIRM": 2, "NOTIF_SUBCODE_RX_UNEXPECTED_MESSAGE_ESTABLISHED": 3,
	// path attribute type codes (RFC 4271, 4456, 4760, 1997, 8092)
	"PATH_ATTR_ORIGIN": 1, "PATH_ATTR_AS_PATH": 2, "PATH_ATTR_NEXT_HOP": 3, "PATH_ATTR_MED": 4, "PATH_ATTR_LOCAL_PREF": 5,
	"PATH_ATTR_ATOMIC_AGGREGATE": 6, "PATH_ATTR_AGGREGATOR": 7, "PATH_ATTR_COMMUNITY": 8, "PATH_ATTR_ORIGINATOR_ID": 9,
	"PATH_ATTR_CLUSTER_LIST": 10, "PATH_ATTR_MP_REACH_NLRI": 14, "PATH_ATTR_MP_UNREACH_NLRI": 15, "PATH_ATTR_LARGE_COMMUNITY": 32,
}

func (c *Check) specConstants(rule string, names ...string) {
	p := c.P
	n := 0
	for _, name := range names {
		want, ok := specConstTable[name]
		if !ok {
			c.undecided(rule, "", "constant "+name, "-", "no specification value recorded for this constant")
			continue
		}
		if !p.HasConst(name) {
			continue // the tree no longer names it: the rules that need it report that themselves
		}
		n++
		got := p.MustConst(name)
		c.require(got == want, rule, "", "constant "+name, "-", itoa(int(got))+" in the tree, "+itoa(int(want))+" in the specification")
	}
	c.floor(rule, n, 1, "specification constants present in the tree")
}
