package main

// Engine G: goroutine roots, reachability, field-access matrix, locksets.

import (
	"fmt"
	"go/types"
	"sort"
	"strings"

	"golang.org/x/tools/go/ssa"
)

// Spawn is one `go` statement.
type Spawn struct {
	Instr  *ssa.Go
	In     *ssa.Function // function containing the go statement
	Target *ssa.Function // local function started (nil if not resolvable)
	Desc   string
}

// spawns lists every go statement of the package.
func (p *Prog) spawns() []Spawn {
	var out []Spawn
	for _, fn := range p.FuncSeq {
		allInstrs(fn, func(in ssa.Instruction) {
			g, ok := in.(*ssa.Go)
			if !ok {
				return
			}
			s := Spawn{Instr: g, In: fn, Desc: p.calleeDesc(g)}
			s.Target = p.staticLocalCallee(g)
			out = append(out, s)
		})
	}
	return out
}

// callEdges returns the local functions that fn may invoke synchronously
// (static calls, deferred calls, closures it creates and does not pass to a go
// statement, CHA-resolved interface calls, func-valued calls by signature).
func (p *Prog) callEdges(fn *ssa.Function) []*ssa.Function {
	var out []*ssa.Function
	goTargets := map[*ssa.MakeClosure]bool{}
	allInstrs(fn, func(in ssa.Instruction) {
		if g, ok := in.(*ssa.Go); ok {
			if mc, ok := g.Call.Value.(*ssa.MakeClosure); ok {
				goTargets[mc] = true
			}
		}
	})
	allInstrs(fn, func(in ssa.Instruction) {
		switch x := in.(type) {
		case *ssa.Go:
			return
		case *ssa.MakeClosure:
			if !goTargets[x] {
				out = append(out, x.Fn.(*ssa.Function))
			}
		case ssa.CallInstruction:
			cc := x.Common()
			if cc.IsInvoke() {
				out = append(out, p.implementations(cc.Value.Type(), cc.Method)...)
				return
			}
			if f := p.staticLocalCallee(x); f != nil {
				out = append(out, f)
				return
			}
			if _, isB := cc.Value.(*ssa.Builtin); isB {
				return
			}
			if _, isF := cc.Value.(*ssa.Function); isF {
				return // external function
			}
			// dynamic call through a func value: local closures/functions of the
			// same signature that are used as values somewhere
			if nt, ok := cc.Value.Type().(*types.Named); ok && nt.Obj().Pkg() != nil && nt.Obj().Pkg().Path() != corebgpPath {
				return // func type of another package (context.CancelFunc): never a local closure
			}
			if sig, ok := cc.Value.Type().Underlying().(*types.Signature); ok {
				for _, g := range p.FuncSeq {
					if g.Parent() != nil && types.Identical(g.Signature, sig) && p.escapesLocally(g) {
						out = append(out, g)
					}
				}
			}
		}
	})
	return out
}

// escapesLocally reports whether closure g is stored, returned or handed to a
// local function as a value, so that a dynamic call elsewhere in the package
// may reach it. Closures only called directly, deferred, started with go or
// handed to external functions (sync.Once.Do) are attributed to their creator.
func (p *Prog) escapesLocally(g *ssa.Function) bool {
	par := g.Parent()
	if par == nil {
		return false
	}
	for _, b := range par.Blocks {
		for _, in := range b.Instrs {
			mc, ok := in.(*ssa.MakeClosure)
			if !ok || mc.Fn != ssa.Value(g) {
				continue
			}
			for _, r := range *mc.Referrers() {
				switch x := r.(type) {
				case *ssa.Go, *ssa.Defer, *ssa.DebugRef:
				case *ssa.Call:
					if x.Call.Value == ssa.Value(mc) {
						continue // called directly
					}
					if p.staticLocalCallee(x) != nil {
						return true // handed to a local function
					}
				default:
					return true
				}
			}
		}
	}
	return false
}

// isGoTargetOnly reports whether closure g is only ever used as the target of
// a go statement.
func (p *Prog) isGoTargetOnly(g *ssa.Function) bool {
	par := g.Parent()
	if par == nil {
		return false
	}
	only := false
	for _, b := range par.Blocks {
		for _, in := range b.Instrs {
			mc, ok := in.(*ssa.MakeClosure)
			if !ok || mc.Fn != ssa.Value(g) {
				continue
			}
			only = true
			for _, r := range *mc.Referrers() {
				if _, isGo := r.(*ssa.Go); !isGo {
					return false
				}
			}
		}
	}
	return only
}

// reach returns the functions reachable from root without crossing a go.
func (p *Prog) reach(root *ssa.Function) map[*ssa.Function]bool {
	seen := map[*ssa.Function]bool{}
	var walk func(f *ssa.Function)
	walk = func(f *ssa.Function) {
		if f == nil || seen[f] {
			return
		}
		seen[f] = true
		for _, g := range p.callEdges(f) {
			walk(g)
		}
	}
	walk(root)
	return seen
}

// Root is a goroutine root with the functions it may execute.
type Root struct {
	Name  string
	Funcs map[*ssa.Function]bool
}

// roots returns one root per go-statement target plus the API root (exported
// functions and methods, and methods of exported interfaces' implementations
// handed to the user such as updateMessageWriter.WriteUpdate).
func (p *Prog) roots() []Root {
	var out []Root
	seen := map[*ssa.Function]bool{}
	for _, s := range p.spawns() {
		if s.Target == nil || seen[s.Target] {
			continue
		}
		seen[s.Target] = true
		// a goroutine is named by its target when that is a known function,
		// else by the known function that starts it
		rn := "go " + p.Name(s.Target)
		if s.Target.Parent() != nil || !knownFuncs[p.Name(s.Target)] {
			rn = "go@" + p.ownerName(s.In)
			// a closure that only wraps one known function (defers around a
			// call of it) is that function's goroutine
			if w := p.wrappedKnown(s.Target); w != nil {
				rn = "go " + p.Name(w)
				if p.rootWrapper == nil {
					p.rootWrapper = map[string]*ssa.Function{}
				}
				p.rootWrapper[rn] = s.Target
			}
		}
		out = append(out, Root{Name: rn, Funcs: p.reach(s.Target)})
	}
	api := Root{Name: "API", Funcs: map[*ssa.Function]bool{}}
	for _, fn := range p.FuncSeq {
		if fn.Parent() != nil {
			continue
		}
		exported := false
		if obj := fn.Object(); obj != nil && obj.Exported() {
			exported = true
		}
		if exported {
			for f := range p.reach(fn) {
				api.Funcs[f] = true
			}
		}
	}
	out = append(out, api)
	sort.Slice(out, func(i, j int) bool { return out[i].Name < out[j].Name })
	return out
}

// Access is one field access.
type Access struct {
	Struct, Field string
	Write         bool
	Fn            *ssa.Function
	Instr         ssa.Instruction
	AddrTaken     bool // address passed to a call (sync primitives etc.)
}

func structNameOfPtr(t types.Type) string {
	if pt, ok := t.Underlying().(*types.Pointer); ok {
		if n, ok := pt.Elem().(*types.Named); ok {
			return n.Obj().Name()
		}
		return types.TypeString(pt.Elem(), nil)
	}
	return types.TypeString(t, nil)
}

// fieldAccesses lists accesses to struct fields of package types in fn.
func (p *Prog) fieldAccesses(fn *ssa.Function) []Access {
	var out []Access
	var classify func(root *ssa.FieldAddr, v ssa.Value, sname, fname string, depth int)
	classify = func(root *ssa.FieldAddr, v ssa.Value, sname, fname string, depth int) {
		if depth > 4 {
			return
		}
		for _, r := range *v.Referrers() {
			switch x := r.(type) {
			case *ssa.Store:
				if x.Addr == v {
					out = append(out, Access{sname, fname, true, fn, x, false})
				} else {
					out = append(out, Access{sname, fname, false, fn, x, true})
				}
			case *ssa.UnOp:
				out = append(out, Access{sname, fname, false, fn, x, false})
			case *ssa.IndexAddr:
				classify(root, x, sname, fname, depth+1)
			case *ssa.FieldAddr:
				// nested struct field: access to the outer field (read of its
				// part) — the inner field is recorded by its own FieldAddr.
				classify(root, x, sname, fname, depth+1)
			case *ssa.Slice:
				out = append(out, Access{sname, fname, false, fn, x, false})
			case ssa.CallInstruction:
				out = append(out, Access{sname, fname, false, fn, x.(ssa.Instruction), true})
			case *ssa.MakeClosure, *ssa.Phi, *ssa.MakeInterface:
				out = append(out, Access{sname, fname, true, fn, r, true})
			case *ssa.DebugRef:
			default:
				out = append(out, Access{sname, fname, false, fn, r, true})
			}
		}
	}
	allInstrs(fn, func(in ssa.Instruction) {
		switch x := in.(type) {
		case *ssa.FieldAddr:
			st := x.X.Type().Underlying().(*types.Pointer).Elem().Underlying().(*types.Struct)
			classify(x, x, structNameOfPtr(x.X.Type()), st.Field(x.Field).Name(), 0)
		case *ssa.Field:
			st := x.X.Type().Underlying().(*types.Struct)
			n := types.TypeString(x.X.Type(), nil)
			if nn, ok := x.X.Type().(*types.Named); ok {
				n = nn.Obj().Name()
			}
			out = append(out, Access{n, st.Field(x.Field).Name(), false, fn, x, false})
		}
	})
	return out
}

// ---- locksets -------------------------------------------------------------------

// lockState computes, for every instruction of fn, whether the mutex field
// `mutexField` of the receiver struct is held on all paths (must-analysis).
// deferred Unlock releases at function exit only.
func (p *Prog) lockHeld(fn *ssa.Function, mutexField string) map[ssa.Instruction]bool {
	isMu := func(v ssa.Value) bool {
		fa, ok := v.(*ssa.FieldAddr)
		if !ok {
			return false
		}
		st := fa.X.Type().Underlying().(*types.Pointer).Elem().Underlying().(*types.Struct)
		return st.Field(fa.Field).Name() == mutexField
	}
	kind := func(in ssa.Instruction) int { // +1 lock, -1 unlock, 0 other
		c, ok := in.(*ssa.Call)
		if !ok {
			return 0
		}
		d := p.calleeDesc(c)
		if len(c.Call.Args) == 0 || !isMu(c.Call.Args[0]) {
			return 0
		}
		switch d {
		case "sync.Mutex.Lock":
			return 1
		case "sync.Mutex.Unlock":
			return -1
		}
		return 0
	}
	held := map[ssa.Instruction]bool{}
	seenInstr := map[ssa.Instruction]bool{}
	deferredUnlock := map[*ssa.Function]bool{}
	// flow computes the lock state through g entered with state entry (0 not
	// held, 1 held) and returns the state at its normal returns (must: held
	// only if held at every return). Helpers are flowed through in place.
	var flow func(g *ssa.Function, entry int, depth int) int
	flow = func(g *ssa.Function, entry int, depth int) int {
		in := map[*ssa.BasicBlock]int{} // -1 unknown(top), 0 not held, 1 held
		for _, b := range g.Blocks {
			in[b] = -1
		}
		in[g.Blocks[0]] = entry
		exit := -1
		changed := true
		for round := 0; changed && round < 50; round++ {
			changed = false
			exit = -1
			for _, b := range g.Blocks {
				st := in[b]
				if st == -1 {
					continue
				}
				for _, i := range b.Instrs {
					h := st == 1
					if seenInstr[i] {
						h = h && held[i]
					}
					held[i] = h
					seenInstr[i] = true
					if d, isD := i.(*ssa.Defer); isD && depth > 0 && p.calleeDesc(d) == "sync.Mutex.Unlock" && len(d.Call.Args) > 0 && isMu(d.Call.Args[0]) {
						deferredUnlock[g] = true // a helper's deferred Unlock takes effect when the helper returns
					}
					if _, isRet := i.(*ssa.Return); isRet && depth > 0 && deferredUnlock[g] {
						st = 0
					}
					switch kind(i) {
					case 1:
						st = 1
					case -1:
						st = 0
					default:
						if depth < maxHelperDepth {
							if hf := p.helperCallee(i); hf != nil && hf != g {
								// (the virtual call stack lets a function-typed
								// parameter of the helper resolve to this site's argument)
								p.ctx = append(p.ctx, i)
								st = flow(hf, st, depth+1)
								p.ctx = p.ctx[:len(p.ctx)-1]
								if st == -1 {
									st = 0
								}
							}
						}
					}
					if _, isRet := i.(*ssa.Return); isRet {
						if exit == -1 {
							exit = st
						} else if exit != st {
							exit = 0
						}
					}
				}
				for _, s := range b.Succs {
					ns := st
					if in[s] != -1 && in[s] != st {
						ns = 0 // must-analysis: held only if held on all paths
					}
					if in[s] == -1 || (in[s] == 1 && ns == 0) {
						if in[s] != ns {
							in[s] = ns
							changed = true
						}
					}
				}
			}
		}
		return exit
	}
	savedCtx := p.ctx
	p.ctx = nil
	flow(fn, 0, 0)
	p.ctx = savedCtx
	return held
}

func (a Access) String() string {
	rw := "read"
	if a.Write {
		rw = "write"
	}
	return fmt.Sprintf("%s %s.%s", rw, a.Struct, a.Field)
}

func rootNames(rs []string) string { sort.Strings(rs); return strings.Join(rs, ", ") }

// knownOwners returns fn itself when the rule sets know it (or it is a
// closure of a known function), else the nearest known callers of fn within
// the given function set.
func (p *Prog) knownOwners(fn *ssa.Function, within map[*ssa.Function]bool) []*ssa.Function {
	top := fn
	for top.Parent() != nil {
		top = top.Parent()
	}
	if knownFuncs[p.Name(top)] {
		return []*ssa.Function{fn}
	}
	seen := map[*ssa.Function]bool{}
	var out []*ssa.Function
	var up func(f *ssa.Function, depth int)
	up = func(f *ssa.Function, depth int) {
		if seen[f] || depth > 4 {
			return
		}
		seen[f] = true
		for g := range within {
			calls := false
			for _, c := range p.callEdges(g) {
				if c == f {
					calls = true
				}
			}
			if !calls {
				continue
			}
			t := g
			for t.Parent() != nil {
				t = t.Parent()
			}
			if knownFuncs[p.Name(t)] {
				out = append(out, g)
			} else {
				up(g, depth+1)
			}
		}
	}
	up(fn, 0)
	if len(out) == 0 {
		return []*ssa.Function{fn}
	}
	return out
}

// wrappedKnown: g is a closure whose body is, apart from deferred calls and
// builtins, exactly one plain call of a known local function.
func (p *Prog) wrappedKnown(g *ssa.Function) *ssa.Function {
	if g == nil || g.Parent() == nil {
		return nil
	}
	var target *ssa.Function
	n := 0
	for _, b := range g.Blocks {
		for _, in := range b.Instrs {
			switch x := in.(type) {
			case *ssa.Call:
				if _, isB := x.Call.Value.(*ssa.Builtin); isB {
					continue
				}
				n++
				if t := p.staticLocalCallee(x); t != nil && t.Parent() == nil && knownFuncs[p.Name(t)] {
					target = t
				}
			case *ssa.Go, *ssa.Select, *ssa.Send:
				return nil
			}
		}
	}
	if n == 1 {
		return target
	}
	return nil
}

// enteredOnlyThroughHelper: g is a closure whose only use is as the argument
// of helper calls in its parent (the helper calls it through a function-typed
// parameter): its body runs in the context of those calls. Returns the parent.
func (p *Prog) enteredOnlyThroughHelper(g *ssa.Function) *ssa.Function {
	par := g.Parent()
	if par == nil || len(p.valueEntries(g)) == 0 {
		return nil
	}
	ok := true
	found := false
	for _, b := range par.Blocks {
		for _, in := range b.Instrs {
			mc, isMC := in.(*ssa.MakeClosure)
			if !isMC || mc.Fn != ssa.Value(g) {
				continue
			}
			found = true
			for _, r := range *mc.Referrers() {
				switch x := r.(type) {
				case *ssa.DebugRef:
				case *ssa.Call:
					if p.helperCallee(x) == nil || x.Call.Value == ssa.Value(mc) {
						ok = false
					}
				default:
					ok = false
				}
			}
		}
	}
	if !ok || !found {
		return nil
	}
	return par
}
