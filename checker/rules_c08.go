package main

// C08 — receive-side header validation and stream framing; NOTIFICATION
// encoding is total.

import (
	"golang.org/x/tools/go/ssa"
)

func init() { register("C08", checkC08) }

func checkC08(c *Check) {
	c.connUses("C03.1 connection-use")
	c.readerFraming("C08.1 framing")
	c.readerHandoff()
	c.messageDispatch("C08.1 type-dispatch")
	c.messageResults("C08.1 type-results")
	c.specConstants("C08.1 spec-constants", "openMessageType", "updateMessageType", "notificationMessageType", "keepAliveMessageType", "headerLength", "maxMessageLength", "NOTIF_CODE_MESSAGE_HEADER_ERR", "NOTIF_SUBCODE_CONN_NOT_SYNCHRONIZED", "NOTIF_SUBCODE_BAD_MESSAGE_LEN", "NOTIF_SUBCODE_BAD_MESSAGE_TYPE")
	c.notificationEncode("C08.3 notification-encode")
	c.notifSentThenTeardown("C08.2 notification-sent")
	c.notifInErr("C08.2 received-not-echoed", "C08.2 notification-sent")
	c.writeSites("C08.3 frames-not-interleaved")
	c.fsmContracts("C08.2 fsm-effects")
}

// notificationEncode: code -> byte 0, subcode -> byte 1, data appended
// whenever it is non-empty.
func (c *Check) notificationEncode(rule string) {
	p := c.P
	fn := p.Fn("Notification.encode")
	if fn == nil {
		return
	}
	dataLen := func(e *Expr) bool { return e.Op == "len" && isFieldRead(e.Args[0], "Data") }
	for _, w := range []struct {
		name string
		set  ISet
		app  bool
	}{{"len(Data) >= 1 => data appended", isRange(1, posInf), true}, {"len(Data) == 0", isConst(0), false}} {
		a := NewAnalysis(p, fn)
		a.AtomHook = rangeHook(dataLen, w.set)
		a.Run()
		ok := len(a.Returns) > 0
		detail := "every path appends n.Data to the body handed to prependHeader"
		for _, r := range a.Returns {
			st := r.State
			res := r.Results[0]
			if !(res.Op == "rcall" && res.S == "prependHeader" && len(res.Args) >= 3) {
				ok = false
				detail = "result is not prependHeader(body, type): " + trunc(res.Key, 80)
				continue
			}
			lay, lerr := st.layoutOf(res.Args[1], 0)
			if lerr != "" {
				ok = false
				detail = "body construction not understood: " + lerr
				continue
			}
			pats := []segPat{
				{Kind: "byte", Pred: func(v *Expr) bool { return isFieldRead(v, "Code") }, What: "byte(Code)"},
				{Kind: "byte", Pred: func(v *Expr) bool { return isFieldRead(v, "Subcode") }, What: "byte(Subcode)"},
			}
			if w.app {
				pats = append(pats, segPat{Kind: "bytes", Pred: func(v *Expr) bool { return isFieldRead(v, "Data") }, What: "all of Data"})
			}
			if okL, d := matchLayout(lay, pats); !okL {
				ok = false
				detail = "body must be Code, Subcode" + map[bool]string{true: ", Data", false: ""}[w.app] + ": " + d
			}
			// message type constant
			if tv, isC := res.Args[2].IsConst(); !isC || tv != p.MustConst("notificationMessageType") {
				ok = false
				detail = "prependHeader type argument is not notificationMessageType"
			}
		}
		c.require(ok, rule, "Notification.encode", w.name, p.Pos(fn.Pos()), detail)
	}
}

// notifSentThenTeardown: after a reader error the state functions call
// handleNotificationInErr with that error and tear the connection down.
func (c *Check) notifSentThenTeardown(rule string) {
	p := c.P
	for _, s := range []string{"fsm.openSent", "fsm.openConfirm", "fsm.established"} {
		fn := p.stateClosure(s)
		if fn == nil {
			continue
		}
		a := NewAnalysis(p, fn)
		a.Run()
		n := 0
		for _, cl := range p.callsIn(fn, descIs("fsm.handleNotificationInErr")) {
			for _, args := range a.callArgsAt(cl) {
				if len(args) == 2 && (args[1].Op == "ex" || args[1].Op == "val") {
					// the value received from readerErrCh in this select
					n++
					c.ok(rule, p.Name(fn), "reader error handed to handleNotificationInErr", p.InstrPos(cl.(ssa.Instruction)), "the error received from the reader is the one inspected for an outgoing notification")
				}
			}
		}
		c.floor(rule, n, 1, "reader-error handling in "+p.Name(fn))
	}
	// sendNotification writes exactly the encoding of its argument
	if sn := p.Fn("fsm.sendNotification"); sn != nil {
		a := NewAnalysis(p, sn)
		a.Run()
		ok := false
		for _, cl := range p.callsIn(sn, descIs("invoke:net.Conn.Write")) {
			for _, args := range a.callArgsAt(cl) {
				if len(args) == 2 && args[1].Op == "ex" && args[1].Args[0].Op == "rcall" && args[1].Args[0].S == "Notification.encode" && isParamNamed(args[1].Args[0].Args[1], paramName(sn, 1)) {
					ok = true
				}
			}
		}
		c.require(ok, rule, "fsm.sendNotification", "writes n.encode()", p.Pos(sn.Pos()), "the bytes written are the encoding of the notification passed in")
	}
}
