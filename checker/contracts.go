package main

// Positive obligations ("this happens") as event contracts.
//
// Most rules say "X only if Y". A statement dropped on one path -- a close, a
// join, a grant, a recorded state -- violates none of them. Each row here
// names a function, an assumption (optional), a selection of its returns, and
// events that must / must not have happened on every selected return, with
// the reason the property needs it. Events are engine V's (calls with their
// resolved callee, field assignments, channel operations by channel identity),
// seen through helpers, so a row is indifferent to where inside the function
// (or in which helper of it) the effect is written.

import (
	"fmt"
	"os"
	"strings"

	"golang.org/x/tools/go/ssa"
)

type contract struct {
	fn      string                                        // known function
	closure func(p *Prog, fn *ssa.Function) *ssa.Function // optional: the closure of fn the row is about
	inner   func(p *Prog, fn *ssa.Function) *ssa.Function // optional: same, selected directly
	name    string
	hook    func(e *Expr) (ISet, bool)
	init    func(a *Analysis, st *State)
	inline  bool     // analyse directly called closures in place
	force   []string // known functions analysed in place
	sel     func(r ReturnSite) bool
	must    []string
	mustNot []string
	reach   []string // call descriptions that must be reachable under the assumption
	noReach []string // … that must not be
	minRet  int      // at least this many selected returns (default 1; -1: none required)
	after   func(from, to *ssa.BasicBlock, st *State)
	why     string
}

// contractEventArgs renders the arguments that identify an effect.
func contractEventArgs(st *State, desc string, args []*Expr) string {
	switch desc {
	case "builtin:close":
		if len(args) == 1 {
			return chanName(args[0])
		}
	case "sync.WaitGroup.Add":
		if len(args) == 2 {
			if v, ok := st.rangeOf(args[1]).IsConst(); ok {
				return fmt.Sprint(v)
			}
		}
	case "peer.disableFSM", "peer.enableFSM", "peer.sendTransitionToFSM", "peer.handleStateTransition", "peer.handleError":
		if len(args) > 1 {
			if v, ok := st.rangeOf(args[1]).IsConst(); ok {
				return fmt.Sprint(v)
			}
		}
	case "newNotificationError":
		if len(args) == 2 {
			if v, ok := st.rangeOf(args[1]).IsConst(); ok {
				return fmt.Sprintf("out=%d", v)
			}
		}
	}
	return ""
}

func (c *Check) contracts(rule string, rows []contract) {
	p := c.P
	for _, row := range rows {
		fn := p.Fn(row.fn)
		if fn == nil {
			continue
		}
		where := row.fn
		if row.closure != nil {
			cl := row.closure(p, fn)
			if cl == nil {
				c.undecided(rule, row.fn, row.name, p.Pos(fn.Pos()), "the closure this obligation is about was not found")
				continue
			}
			fn = cl
			where = p.Name(cl)
		}
		a := NewAnalysis(p, fn)
		a.AtomHook = row.hook
		a.Init = row.init
		a.InlineClosures = row.inline
		a.EventArgs = contractEventArgs
		a.AfterFlow = row.after
		if len(row.force) > 0 {
			a.ForceInline = map[string]bool{}
			for _, f := range row.force {
				a.ForceInline[f] = true
			}
		}
		a.Run()
		if len(a.Undecided) > 0 {
			c.undecided(rule, where, row.name, p.Pos(fn.Pos()), a.Undecided[0])
			continue
		}
		var probs []string
		n := 0
		for _, r := range a.Returns {
			if row.sel != nil && !row.sel(r) {
				continue
			}
			n++
			for _, ev := range row.must {
				if !hasEvent(r.State.must, ev) {
					probs = append(probs, fmt.Sprintf("%s: not on every path to the return at %s", ev, p.InstrPos(r.Instr)))
				}
			}
			for _, ev := range row.mustNot {
				if hasEvent(r.State.may, ev) {
					probs = append(probs, fmt.Sprintf("%s: possible before the return at %s", ev, p.InstrPos(r.Instr)))
				}
			}
		}
		min := row.minRet
		if min == 0 {
			min = 1
		}
		if min > 0 && n < min {
			probs = append(probs, fmt.Sprintf("%d return(s) reachable under the assumption, expected at least %d", n, min))
		}
		reachable := func(desc string) bool {
			ok := false
			for in, sts := range a.At {
				if ci, isC := in.(ssa.CallInstruction); isC && len(sts) > 0 && p.calleeDesc(ci) == desc {
					ok = true
				}
			}
			return ok
		}
		for _, d := range row.reach {
			if !reachable(d) {
				probs = append(probs, d+": not reachable")
			}
		}
		for _, d := range row.noReach {
			if reachable(d) {
				probs = append(probs, d+": reachable")
			}
		}
		if len(probs) > 0 && os.Getenv("CBGP_DEBUG") != "" {
			for _, r := range a.Returns {
				fmt.Printf("DEBUG contract %s/%s return %s must=%v may=%v\n      %s\n", where, row.name, p.InstrPos(r.Instr), sortedKeys(r.State.must), sortedKeys(r.State.may), r.State.digest())
			}
		}
		detail := row.why
		if len(probs) > 0 {
			detail = strings.Join(probs, "; ") + " — " + row.why
		}
		c.require(len(probs) == 0, rule, where, row.name, p.Pos(fn.Pos()), detail)
	}
}

// hasEvent: exact event, or alternatives separated by '|'.
func hasEvent(set map[string]bool, ev string) bool {
	for _, alt := range strings.Split(ev, "|") {
		if set[alt] {
			return true
		}
	}
	return false
}

// onceBody selects the function fn hands to sync.Once.Do (a closure, a method
// value, a named function), wherever in fn or its helpers that call stands.
func onceBody(p *Prog, fn *ssa.Function) *ssa.Function {
	var out *ssa.Function
	for _, g := range withAnon(fn) {
		for _, cl := range p.callsIn(g, descIs("sync.Once.Do")) {
			args := cl.Common().Args
			if len(args) == 0 {
				continue
			}
			if f := p.funcValueOf(args[len(args)-1]); f != nil {
				out = f
			}
		}
	}
	return out
}

// closureCalling selects the closure of fn (at any depth) that contains a
// call with one of the given descriptions.
func closureCalling(descs ...string) func(p *Prog, fn *ssa.Function) *ssa.Function {
	return func(p *Prog, fn *ssa.Function) *ssa.Function {
		return p.closureWithCall(fn, descIs(descs...))
	}
}
