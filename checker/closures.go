package main

// Closures analysed with the values their captured variables hold where the
// closure is created (the constructor's arguments, values computed once
// before the closure is built).

import "golang.org/x/tools/go/ssa"

// closureInit returns an Analysis.Init for the closure cl that binds its free
// variables to the terms they denote in the enclosing function at the point
// of creation, together with the contents of the captured cells. A cell that
// the enclosing function may still write after the closure is created (its
// value at some return differs) is left unknown. Returns nil when cl is not
// created by exactly one MakeClosure of its parent.
func (p *Prog) closureInit(cl *ssa.Function) func(a *Analysis, st *State) {
	outer := cl.Parent()
	if outer == nil {
		return nil
	}
	var mc *ssa.MakeClosure
	n := 0
	ownInstrs(outer, func(in ssa.Instruction) {
		if x, ok := in.(*ssa.MakeClosure); ok && x.Fn == ssa.Value(cl) {
			mc = x
			n++
		}
	})
	if n != 1 {
		return nil
	}
	oa := NewAnalysis(p, outer)
	oa.Run()
	sts := oa.At[mc]
	if len(sts) != 1 {
		return nil
	}
	st0 := sts[0]
	bound := map[ssa.Value]*Expr{}
	var roots []*Expr
	for i, fv := range cl.FreeVars {
		if i < len(mc.Bindings) {
			e := oa.ExprAt(st0, mc.Bindings[i])
			bound[fv] = e
			roots = append(roots, e)
		}
	}
	boundMem := map[string][2]*Expr{}
	for k, me := range st0.memE {
		if me == nil {
			continue
		}
		root := rootOf(me)
		if root == nil {
			continue
		}
		for _, b := range roots {
			if root.Key != b.Key {
				continue
			}
			stable := true
			for _, r := range oa.Returns {
				if v, has := r.State.mem[k]; !has || v.Key != st0.mem[k].Key {
					stable = false
				}
			}
			if stable {
				boundMem[k] = [2]*Expr{me, st0.mem[k]}
			}
		}
	}
	// a closure started or called right where it is created (go func(x T){…}(v)):
	// its parameters are the arguments evaluated there
	for _, r := range *mc.Referrers() {
		ci, isCall := r.(ssa.CallInstruction)
		if !isCall || ci.Common().Value != ssa.Value(mc) {
			continue
		}
		sts2 := oa.At[r]
		if len(sts2) != 1 {
			continue
		}
		for i, arg := range ci.Common().Args {
			if i < len(cl.Params) {
				bound[cl.Params[i]] = oa.ExprAt(sts2[0], arg)
			}
		}
	}
	return func(a *Analysis, st *State) {
		for fv, e := range bound {
			st.env[fv] = e
		}
		for k, mv := range boundMem {
			st.memE[k] = mv[0]
			st.mem[k] = mv[1]
		}
	}
}
