package main

// thoroughExtras adds thorough-tier cross references to the evidence.
func thoroughExtras(r *runResult) {}
