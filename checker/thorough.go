package main

// Thorough tier: everything the quick tier does in four build
// configurations, plus (a) mutation self-validation — every seeded change of
// /verif/seeded that targets this property is applied to a scratch copy of
// /repo's working tree (outside /repo and /verif, removed afterwards) and the
// property's rules must report it — and (b) a cross-reference of engine B
// against the Go compiler's own bounds-check elimination.

import (
	"encoding/json"
	"fmt"
	"os"
	"os/exec"
	"path/filepath"
	"regexp"
	"sort"
	"strings"
)

type seedMeta struct {
	ID       string `json:"id"`
	Property string `json:"property"`
}

// scratchCopy materialises /repo's tracked + modified working tree files in a
// fresh temporary directory.
func scratchCopy(repo string) (string, error) {
	dir, err := os.MkdirTemp("", "cbgp-scratch-")
	if err != nil {
		return "", err
	}
	err = filepath.Walk(repo, func(path string, info os.FileInfo, err error) error {
		if err != nil {
			return err
		}
		rel, _ := filepath.Rel(repo, path)
		if info.IsDir() {
			if info.Name() == ".git" {
				return filepath.SkipDir
			}
			return os.MkdirAll(filepath.Join(dir, rel), 0o755)
		}
		b, err := os.ReadFile(path)
		if err != nil {
			return err
		}
		return os.WriteFile(filepath.Join(dir, rel), b, 0o644)
	})
	if err != nil {
		os.RemoveAll(dir)
		return "", err
	}
	return dir, nil
}

func thoroughExtras(r *runResult) {
	r.Extra["mutation_self_validation"] = mutationSelfValidation(r)
	switch r.ID {
	case "C05", "C15", "C16", "C18", "C19":
		r.Extra["compiler_bce_cross_reference"] = bceCrossReference(r)
	}
}

// mutationSelfValidation applies the seeded changes for this property.
func mutationSelfValidation(r *runResult) map[string]interface{} {
	out := map[string]interface{}{}
	seedDir := filepath.Join(verifDir(), "seeded")
	ents, err := os.ReadDir(seedDir)
	if err != nil {
		out["error"] = err.Error()
		return out
	}
	f := ruleFns[r.ID]
	var killed, missed, skipped []string
	for _, e := range ents {
		mb, err := os.ReadFile(filepath.Join(seedDir, e.Name(), "meta.json"))
		if err != nil {
			continue
		}
		var m seedMeta
		if json.Unmarshal(mb, &m) != nil || m.Property != r.ID {
			continue
		}
		dir, err := scratchCopy(repoDir())
		if err != nil {
			skipped = append(skipped, e.Name()+": "+err.Error())
			continue
		}
		cmd := exec.Command("patch", "-p1", "-s", "-i", filepath.Join(seedDir, e.Name(), "patch.diff"))
		cmd.Dir = dir
		if outp, err := cmd.CombinedOutput(); err != nil {
			skipped = append(skipped, e.Name()+": patch does not apply to the current tree ("+trunc(string(outp), 80)+")")
			os.RemoveAll(dir)
			continue
		}
		p, err := Load(dir, BuildConfig{GOOS: "linux", GOARCH: "amd64"})
		if err != nil {
			skipped = append(skipped, e.Name()+": "+trunc(err.Error(), 120))
			os.RemoveAll(dir)
			continue
		}
		c := newCheck(r.ID, p)
		func() {
			defer func() {
				if rec := recover(); rec != nil {
					c.undecided(r.ID+".checker", "", "analyser-panic", "-", fmt.Sprint(rec))
				}
			}()
			f(c)
		}()
		c.anchors()
		known := loadKnown()
		bad := 0
		var first string
		for _, o := range c.Obls {
			if o.Status == "ok" || matchKnown(known, r.ID, o) != nil {
				continue
			}
			bad++
			if first == "" {
				first = o.Rule + " @ " + o.Fn
			}
		}
		if bad > 0 {
			killed = append(killed, fmt.Sprintf("%s (%d reports, first: %s)", e.Name(), bad, first))
		} else {
			missed = append(missed, e.Name())
		}
		os.RemoveAll(dir)
	}
	sort.Strings(killed)
	out["seeded_changes_reported"] = killed
	out["seeded_changes_missed"] = missed
	out["seeded_changes_skipped"] = skipped
	out["note"] = "development-time validation of the rules against independently written regressions; a missed change does not affect the verdict on /repo"
	return out
}

// bceCrossReference compares the compiler's unproven bounds checks (non
// generic code only) with engine B's obligations at the same positions.
func bceCrossReference(r *runResult) map[string]interface{} {
	out := map[string]interface{}{}
	tmp, err := os.MkdirTemp("", "cbgp-bce-")
	if err != nil {
		out["error"] = err.Error()
		return out
	}
	defer os.RemoveAll(tmp)
	cmd := exec.Command("go", "build", "-a", "-gcflags=-d=ssa/check_bce/debug=1", "-o", filepath.Join(tmp, "pkg.a"), ".")
	cmd.Dir = repoDir()
	cmd.Env = append(loadEnv(BuildConfig{GOOS: "linux", GOARCH: "amd64"}), "GOCACHE="+filepath.Join(tmp, "cache"))
	b, _ := cmd.CombinedOutput()
	re := regexp.MustCompile(`(?m)^\./([a-z_0-9]+\.go):(\d+):(\d+): Found (\w+)`)
	type pos struct {
		file string
		line string
	}
	unproven := map[pos]string{}
	for _, m := range re.FindAllStringSubmatch(string(b), -1) {
		unproven[pos{m[1], m[2]}] = m[4]
	}
	ours := map[pos]string{}
	for _, c := range r.Checks {
		for _, o := range c.Obls {
			if !strings.Contains(o.Rule, " index") && !strings.Contains(o.Rule, " slice") {
				continue
			}
			fl := strings.SplitN(strings.TrimSuffix(o.Pos, "~"), ":", 2)
			if len(fl) == 2 {
				ours[pos{fl[0], fl[1]}] = o.Status
			}
		}
	}
	covered, uncovered := 0, []string{}
	for p := range unproven {
		if st, ok := ours[p]; ok && st == "ok" {
			covered++
		} else if !ok {
			uncovered = append(uncovered, p.file+":"+p.line)
		}
	}
	sort.Strings(uncovered)
	out["compiler_unproven_checks"] = len(unproven)
	out["of_which_discharged_by_engine_B_at_same_line"] = covered
	out["compiler_unproven_without_engine_B_obligation_in_this_property"] = uncovered
	out["note"] = "cross-reference only, never a verdict: the compiler's prove pass sees neither generic bodies nor caller premises; obligations of other properties' function sets are not listed here"
	return out
}
