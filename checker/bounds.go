package main

// Engine B: run-time-fault obligations (index / slice bounds, narrow unsigned
// wrap, library preconditions, unchecked type assertions, division), each
// discharged by the engine V state at the instruction.

import (
	"fmt"
	"go/token"
	"go/types"
	"strings"

	"golang.org/x/tools/go/ssa"
)

// BObl is one run-time-fault obligation.
type BObl struct {
	Kind      string
	Fn        string
	Construct string
	Pos       string
	OK        bool
	Detail    string
}

// entryLenFacts derives, for an unexported function with static call sites
// only, an upper bound on the length of each slice parameter from the states
// at all its call sites (a checked premise, re-established on every run).
func (p *Prog) entryLenFacts(fn *ssa.Function, cache map[*ssa.Function]*Analysis) map[int]ISet {
	out := map[int]ISet{}
	if fn.Object() == nil || fn.Object().Exported() || fn.Parent() != nil {
		return out
	}
	// is fn used as a value anywhere (method value, interface satisfaction)?
	if fn.Signature.Recv() != nil {
		// methods may be called through interfaces: only accept when no local
		// interface has a method of that name
		for _, n := range p.Types.Scope().Names() {
			if tn, ok := p.Types.Scope().Lookup(n).(*types.TypeName); ok {
				if it, ok := tn.Type().Underlying().(*types.Interface); ok {
					for i := 0; i < it.NumMethods(); i++ {
						if it.Method(i).Name() == fn.Name() {
							// interface dispatch possible; fall through to the
							// static+CHA call sites below
						}
					}
				}
			}
		}
	}
	type site struct {
		caller *ssa.Function
		call   ssa.CallInstruction
	}
	var sites []site
	for _, g := range p.FuncSeq {
		allInstrs(g, func(in ssa.Instruction) {
			ci, ok := in.(ssa.CallInstruction)
			if !ok {
				return
			}
			cc := ci.Common()
			if cc.IsInvoke() {
				for _, impl := range p.implementations(cc.Value.Type(), cc.Method) {
					if impl == fn {
						sites = append(sites, site{g, ci})
					}
				}
				return
			}
			if p.staticLocalCallee(ci) == fn {
				sites = append(sites, site{g, ci})
			}
			// function used as a value
			for _, a := range cc.Args {
				if a == ssa.Value(fn) {
					sites = append(sites, site{nil, nil})
				}
			}
		})
	}
	if len(sites) == 0 {
		return out
	}
	for i, prm := range fn.Params {
		_, isSlice := prm.Type().Underlying().(*types.Slice)
		isInt := intTypeInfo(prm.Type()).ok && !isBoolType(prm.Type())
		if !isSlice && !isInt {
			continue
		}
		r := isEmpty()
		for _, s := range sites {
			if s.call == nil {
				r = isTop()
				break
			}
			a := cache[s.caller]
			if a == nil {
				a = NewAnalysis(p, s.caller)
				if s.caller != fn && !p.premiseBusy[s.caller] {
					if p.premiseBusy == nil {
						p.premiseBusy = map[*ssa.Function]bool{}
					}
					p.premiseBusy[s.caller] = true
					cf := p.entryLenFacts(s.caller, cache)
					delete(p.premiseBusy, s.caller)
					if len(cf) > 0 {
						caller := s.caller
						a.Init = func(a *Analysis, st *State) { applyEntryFacts(st, caller, cf) }
					}
				}
				a.Run()
				cache[s.caller] = a
			}
			sts := a.At[s.call.(ssa.Instruction)]
			for _, st := range sts {
				args := a.argExprs(st, nil, s.call.Common())
				if i < len(args) && isInt {
					r = r.Union(st.rangeOf(args[i]))
				} else if i < len(args) {
					// tightest provable upper bound among a few candidates
					le := mkLen(args[i])
					rr := st.rangeOf(le)
					l := st.linOf(le)
					for _, ub := range []int64{255, 4077, 4096, 65535} {
						if st.impliedGE(linConst(ub).add(l, -1)) {
							rr = rr.Intersect(isRange(0, ub))
							break
						}
					}
					r = r.Union(rr)
				} else {
					r = isTop()
				}
			}
		}
		if isInt {
			if !r.Empty() && r.count() >= 0 && r.count() <= 16 {
				out[i] = r
			}
			continue
		}
		if !r.Empty() && !r.IsTop() && r.Hi() != posInf {
			out[i] = r
		}
	}
	return out
}

func applyEntryFacts(st *State, fn *ssa.Function, facts map[int]ISet) {
	for i, r := range facts {
		pe := paramExpr(fn, i)
		if intTypeInfo(fn.Params[i].Type()).ok {
			st.rng[pe.Key] = r
		} else {
			st.rng[mkLen(pe).Key] = r
		}
	}
}

// boundsObligations generates and decides the obligations of one function.
func (p *Prog) boundsObligations(fn *ssa.Function, cache map[*ssa.Function]*Analysis) ([]BObl, []string) {
	var out []BObl
	facts := p.entryLenFacts(fn, cache)
	a := NewAnalysis(p, fn)
	var premises []string
	if len(facts) > 0 {
		a.Init = func(a *Analysis, st *State) { applyEntryFacts(st, fn, facts) }
		for i, r := range facts {
			what := "len(" + fn.Params[i].Name() + ")"
			if intTypeInfo(fn.Params[i].Type()).ok {
				what = fn.Params[i].Name()
			}
			premises = append(premises, fmt.Sprintf("%s: %s ∈ %s at every call site", p.Name(fn), what, r))
		}
	}
	a.Run()
	name := p.Name(fn)
	if len(a.Undecided) > 0 {
		out = append(out, BObl{Kind: "analysis", Fn: name, Construct: "fixpoint", Pos: p.Pos(fn.Pos()), OK: false, Detail: a.Undecided[0]})
	}
	add := func(kind string, in ssa.Instruction, construct string, ok bool, detail string) {
		out = append(out, BObl{Kind: kind, Fn: name, Construct: construct, Pos: p.InstrPos(in), OK: ok, Detail: detail})
	}
	ord := map[string]int{}
	key := func(kind, what string) string {
		k := kind + " " + what
		ord[k]++
		if ord[k] > 1 {
			return fmt.Sprintf("%s #%d", k, ord[k])
		}
		return k
	}
	// the function's own instructions and those of the helpers it calls, with
	// the states of this function's analysis (helpers are analysed in context)
	var instrs []ssa.Instruction
	allInstrs(fn, func(in ssa.Instruction) { instrs = append(instrs, in) })
	{
		for _, in := range instrs {
			sts := a.At[in]
			if len(sts) == 0 {
				continue // unreachable in the abstract semantics
			}
			all := func(f func(st *State) (bool, string)) (bool, string) {
				for _, st := range sts {
					if ok, d := f(st); !ok {
						return false, d
					}
				}
				return true, ""
			}
			switch x := in.(type) {
			case *ssa.SliceToArrayPointer:
				// [N]T(s) / (*[N]T)(s) panics unless len(s) >= N
				if pt, isP := x.Type().Underlying().(*types.Pointer); isP {
					if at, isA := pt.Elem().Underlying().(*types.Array); isA {
						n := at.Len()
						ok, d := all(func(st *State) (bool, string) {
							l := st.linOf(mkLen(a.exprOf(st, nil, x.X)))
							if !st.impliedGE(l.add(linConst(n), -1)) {
								return false, fmt.Sprintf("cannot show len >= %d for the converted slice: %s", n, trunc(l.key(), 80))
							}
							return true, ""
						})
						add("slice-to-array", in, key("convert", descValue(x.X)), ok, d)
					}
				}
			case *ssa.IndexAddr, *ssa.Index:
				var xv, iv ssa.Value
				if ia, ok := x.(*ssa.IndexAddr); ok {
					xv, iv = ia.X, ia.Index
				} else {
					xv, iv = x.(*ssa.Index).X, x.(*ssa.Index).Index
				}
				if _, isMap := xv.Type().Underlying().(*types.Map); isMap {
					continue
				}
				ok, d := all(func(st *State) (bool, string) {
					ie := a.exprOf(st, nil, iv)
					il := st.linOf(ie)
					var n Lin
					switch t := xv.Type().Underlying().(type) {
					case *types.Pointer:
						if at, ok := t.Elem().Underlying().(*types.Array); ok {
							n = linConst(at.Len())
						}
					case *types.Array:
						n = linConst(t.Len())
					default:
						n = st.linOf(mkLen(a.exprOf(st, nil, xv)))
					}
					if ia, isIA := x.(*ssa.IndexAddr); isIA && mapRangeCounterIdiom(ia) {
						return true, "" // result[i] with i counting the entries of the ranged map, len(result) == len(map)
					}
					if !st.impliedGE(il) {
						return false, "index may be negative: " + trunc(ie.Key, 60)
					}
					if !st.impliedGE(n.add(il, -1).add(linConst(1), -1)) {
						return false, fmt.Sprintf("cannot show %s < len: len-idx-1 = %s ∈ %s", trunc(ie.Key, 50), trunc(n.add(il, -1).add(linConst(1), -1).key(), 120), st.rangeOfLin(n.add(il, -1).add(linConst(1), -1), 0))
					}
					return true, ""
				})
				add("index", in, key("index", descValue(iv)), ok, d)
			case *ssa.Slice:
				ok, d := all(func(st *State) (bool, string) {
					xe := a.exprOf(st, nil, x.X)
					var n Lin
					switch t := x.X.Type().Underlying().(type) {
					case *types.Pointer:
						if at, ok := t.Elem().Underlying().(*types.Array); ok {
							n = linConst(at.Len())
						}
					default:
						n = st.linOf(mkLen(xe))
					}
					lo := linConst(0)
					if x.Low != nil {
						lo = st.linOf(a.exprOf(st, nil, x.Low))
						if !st.impliedGE(lo) {
							return false, "low bound may be negative"
						}
					}
					if x.High != nil {
						hi := st.linOf(a.exprOf(st, nil, x.High))
						if !st.impliedGE(hi.add(lo, -1)) {
							return false, fmt.Sprintf("cannot show low <= high: high-low = %s", trunc(hi.add(lo, -1).key(), 120))
						}
						if !st.impliedGE(n.add(hi, -1)) {
							return false, fmt.Sprintf("cannot show high <= len: len-high = %s ∈ %s", trunc(n.add(hi, -1).key(), 120), st.rangeOfLin(n.add(hi, -1), 0))
						}
					} else if !st.impliedGE(n.add(lo, -1)) {
						return false, fmt.Sprintf("cannot show low <= len: len-low = %s ∈ %s", trunc(n.add(lo, -1).key(), 120), st.rangeOfLin(n.add(lo, -1), 0))
					}
					return true, ""
				})
				add("slice", in, key("slice", descValue(x.X)), ok, d)
			case *ssa.Call:
				d := p.calleeDesc(x)
				need := map[string]int64{"binary.bigEndian.Uint16": 2, "binary.bigEndian.Uint32": 4, "binary.bigEndian.Uint64": 8,
					"binary.bigEndian.PutUint16": 2, "binary.bigEndian.PutUint32": 4, "binary.bigEndian.PutUint64": 8}[d]
				if need > 0 {
					ok, dd := all(func(st *State) (bool, string) {
						se := a.exprOf(st, nil, x.Call.Args[1])
						l := st.linOf(mkLen(se)).add(linConst(need), -1)
						if !st.impliedGE(l) {
							return false, fmt.Sprintf("cannot show len >= %d for %s: %s ∈ %s", need, trunc(se.Key, 60), trunc(l.key(), 100), st.rangeOfLin(l, 0))
						}
						return true, ""
					})
					add("library-precondition", in, key(strings.TrimPrefix(d, "binary.bigEndian."), descValue(x.Call.Args[1])), ok, dd)
				}
				if d == "builtin:panic" {
					add("panic", in, key("panic", ""), false, "explicit panic reachable")
				}
			case *ssa.MakeSlice:
				ok, d := all(func(st *State) (bool, string) {
					l := st.linOf(a.exprOf(st, nil, x.Len))
					if !st.impliedGE(l) {
						return false, "make size may be negative: " + st.rangeOfLin(l, 0).String()
					}
					return true, ""
				})
				add("make", in, key("make", descValue(x.Len)), ok, d)
			case *ssa.TypeAssert:
				if !x.CommaOk {
					ok, d := all(func(st *State) (bool, string) {
						xe := a.exprOf(st, nil, x.X)
						v := st.evalBool(mk("istype", types.Typ[types.Bool], typeKey(x.AssertedType), 0, xe))
						if c, isC := v.IsConst(); isC && c == 1 {
							return true, ""
						}
						return false, "type assertion without comma-ok on a value whose dynamic type is not known"
					})
					add("type-assert", in, key("assert", typeKey(x.AssertedType)), ok, d)
				}
			case *ssa.BinOp:
				ii := intTypeInfo(x.Type())
				switch x.Op {
				case token.QUO, token.REM:
					if !ii.ok {
						continue
					}
					ok, d := all(func(st *State) (bool, string) {
						r := st.rangeOf(a.exprOf(st, nil, x.Y))
						if r.Contains(0) {
							return false, "divisor may be zero"
						}
						return true, ""
					})
					add("division", in, key("div", descValue(x.Y)), ok, d)
				case token.ADD, token.SUB, token.MUL, token.SHL:
					if !ii.ok || !ii.unsigned || ii.bits >= 64 {
						continue
					}
					if _, c1 := x.X.(*ssa.Const); c1 {
						if _, c2 := x.Y.(*ssa.Const); c2 {
							continue
						}
					}
					ok, d := all(func(st *State) (bool, string) {
						xe, ye := a.exprOf(st, nil, x.X), a.exprOf(st, nil, x.Y)
						var r ISet
						switch x.Op {
						case token.ADD:
							r = st.rangeOfLin(st.linOf(xe).add(st.linOf(ye), 1), 0)
						case token.SUB:
							r = st.rangeOfLin(st.linOf(xe).add(st.linOf(ye), -1), 0)
						case token.MUL:
							rx, ry := st.rangeOf(xe), st.rangeOf(ye)
							if c, isC := ry.IsConst(); isC {
								r = rx.MulConst(c)
							} else if c, isC := rx.IsConst(); isC {
								r = ry.MulConst(c)
							} else {
								r = isTop()
							}
						case token.SHL:
							rx, ry := st.rangeOf(xe), st.rangeOf(ye)
							if ry.Empty() || rx.Empty() || ry.Hi() > 62 || ry.Lo() < 0 || rx.Lo() < 0 {
								r = isTop()
							} else {
								r = isRange(0, satMul(rx.Hi(), int64(1)<<uint(ry.Hi())))
							}
						}
						if !r.SubsetOf(typeRange(x.Type())) {
							return false, fmt.Sprintf("%s %s %s may wrap: mathematical result ∈ %s, type %s", trunc(xe.Key, 40), x.Op, trunc(ye.Key, 40), r, x.Type())
						}
						return true, ""
					})
					add("narrow-wrap", in, key("wrap "+x.Op.String(), descValue(x.X)+","+descValue(x.Y)), ok, d)
				}
			}
		}
	}
	return out, premises
}

// descValue gives a stable, human-oriented name to an SSA value: the source
// variable when the builder recorded one, else its kind.
func descValue(v ssa.Value) string {
	switch x := v.(type) {
	case *ssa.Const:
		return x.String()
	case *ssa.Parameter:
		return x.Name()
	case *ssa.Phi:
		if x.Comment != "" {
			return x.Comment
		}
		return "phi"
	case *ssa.Alloc:
		return x.Comment
	case *ssa.UnOp:
		if x.Op == token.MUL {
			if fa, ok := x.X.(*ssa.FieldAddr); ok {
				return "." + structFieldName(fa)
			}
			if ia, ok := x.X.(*ssa.IndexAddr); ok {
				return descValue(ia.X) + "[" + descValue(ia.Index) + "]"
			}
			return "*" + descValue(x.X)
		}
	case *ssa.Slice:
		s := descValue(x.X) + "["
		if x.Low != nil {
			s += descValue(x.Low)
		}
		s += ":"
		if x.High != nil {
			s += descValue(x.High)
		}
		return s + "]"
	case *ssa.BinOp:
		return descValue(x.X) + x.Op.String() + descValue(x.Y)
	case *ssa.Convert:
		return descValue(x.X)
	case *ssa.Call:
		if b, ok := x.Call.Value.(*ssa.Builtin); ok && len(x.Call.Args) > 0 {
			return b.Name() + "(" + descValue(x.Call.Args[0]) + ")"
		}
		return "call"
	case *ssa.FreeVar:
		return x.Name()
	case *ssa.Extract:
		return "extract"
	case *ssa.FieldAddr:
		return "&." + structFieldName(x)
	case *ssa.MakeSlice:
		return "make"
	}
	return strings.TrimLeft(v.Name(), "t0123456789")
}

// checkBounds runs engine B on the listed functions (with nested closures).
func (c *Check) checkBounds(rule string, fns []string, floor int) {
	p := c.P
	cache := map[*ssa.Function]*Analysis{}
	n := 0
	// helpers seen through their callers are covered in the callers' context;
	// one that some context could not inline is analysed on its own as well
	var order []string
	for _, name := range fns {
		if f := p.Funcs[name]; f == nil || !p.absorbed(f) {
			order = append(order, name)
		}
	}
	nDirect := len(order)
	for _, name := range fns {
		if f := p.Funcs[name]; f != nil && p.absorbed(f) {
			order = append(order, name)
		}
	}
	for k, name := range order {
		if k >= nDirect && !p.declined[p.Funcs[name]] {
			continue
		}
		root := p.Fn(name)
		if root == nil {
			continue
		}
		for _, fn := range withAnon(root) {
			obls, prem := p.boundsObligations(fn, cache)
			for _, pr := range prem {
				c.Notes = append(c.Notes, "checked premise: "+pr)
			}
			for _, o := range obls {
				n++
				r := rule + " " + o.Kind
				if o.OK {
					c.ok(r, o.Fn, o.Construct, o.Pos, "discharged by the value-set state at the instruction")
				} else {
					c.fail(r, o.Fn, o.Construct, o.Pos, o.Detail)
				}
			}
		}
	}
	c.floor(rule, n, floor, "run-time-fault obligations")
}

// mapRangeCounterIdiom recognises
//
//	r := make([]T, len(m)); i := 0; for ... range m { r[i] = ...; i++ }
//
// where m is not updated inside the loop: i counts the entries already
// visited, which is below len(m) == len(r) in every iteration.
func mapRangeCounterIdiom(ia *ssa.IndexAddr) bool {
	ms, ok := ia.X.(*ssa.MakeSlice)
	if !ok {
		return false
	}
	lc, ok := ms.Len.(*ssa.Call)
	if !ok {
		return false
	}
	if b, isB := lc.Call.Value.(*ssa.Builtin); !isB || b.Name() != "len" {
		return false
	}
	m := lc.Call.Args[0]
	if _, isMap := m.Type().Underlying().(*types.Map); !isMap {
		return false
	}
	phi, ok := ia.Index.(*ssa.Phi)
	if !ok || len(phi.Edges) != 2 {
		return false
	}
	head := phi.Block()
	// the loop head advances a range iterator over the same map value
	var rng *ssa.Range
	for _, in := range head.Instrs {
		if nx, isN := in.(*ssa.Next); isN {
			if r, isR := nx.Iter.(*ssa.Range); isR {
				rng = r
			}
		}
	}
	sameMap := func(a, b ssa.Value) bool {
		if a == b {
			return true
		}
		la, ok1 := a.(*ssa.UnOp)
		lb, ok2 := b.(*ssa.UnOp)
		if ok1 && ok2 {
			fa, ok3 := la.X.(*ssa.FieldAddr)
			fb, ok4 := lb.X.(*ssa.FieldAddr)
			return ok3 && ok4 && fa.X == fb.X && fa.Field == fb.Field
		}
		return false
	}
	if rng == nil || !sameMap(rng.X, m) {
		return false
	}
	for i, e := range phi.Edges {
		if head.Dominates(head.Preds[i]) {
			bo, isB := e.(*ssa.BinOp)
			if !isB || bo.Op != token.ADD || bo.X != ssa.Value(phi) {
				return false
			}
			if one, isC := bo.Y.(*ssa.Const); !isC || one.Value == nil || one.Int64() != 1 {
				return false
			}
		} else if c, isC := e.(*ssa.Const); !isC || c.Value == nil || c.Int64() != 0 {
			return false
		}
	}
	// no update of a map of that type inside the function (the registry is
	// only read here) and no call in the loop that could change it: the loop
	// body is a plain copy
	okBody := true
	for _, blk := range head.Parent().Blocks {
		if !head.Dominates(blk) || !inLoopLocal(blk) {
			continue
		}
		for _, in := range blk.Instrs {
			switch in.(type) {
			case *ssa.MapUpdate, *ssa.Call, *ssa.Go, *ssa.Defer:
				okBody = false
			}
		}
	}
	return okBody
}
