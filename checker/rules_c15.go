package main

// C15 — OPEN / NOTIFICATION / capability codecs: symmetric layouts, nothing
// dropped or invented, strict decoders (round-trip equality itself is a
// value-level fact this technique does not decide).

import (
	"fmt"
	"go/token"
	"go/types"
	"os"
	"strings"

	"golang.org/x/tools/go/ssa"
)

func init() { register("C15", checkC15) }

func checkC15(c *Check) {
	p := c.P
	// NOTIFICATION
	c.notificationEncode("C15.1 notification-encode")
	c.codecContracts("C15.1 codec-effects")
	c.readerFraming("C15.2 message-size-agreement")
	c.accumulatorsStartEmpty("C15.1 accumulators", "openMessage.encode", "capabilityOptionalParam.encode", "decodeOptionalParams", "capabilityOptionalParam.decode", "openMessage.getCapabilities", "DecodeAddPathTuples", "NewAddPathCapability", "newOpenMessage")
	c.tlvExactFit("C15.1 optional-parameters exact-fit", "decodeOptionalParams", 0, "capabilityOptionalParam.decode", c.P.MustConst("capabilityOptionalParamType"))
	c.tlvExactFit("C15.1 capabilities exact-fit", "capabilityOptionalParam.decode", 1, "", -1)
	c.specConstants("C15.1 spec-constants", "openMessageType", "updateMessageType", "notificationMessageType", "keepAliveMessageType", "headerLength", "maxMessageLength", "NOTIF_CODE_OPEN_MESSAGE_ERR", "NOTIF_SUBCODE_UNSUPPORTED_VERSION_NUM", "NOTIF_SUBCODE_BAD_PEER_AS", "NOTIF_SUBCODE_BAD_BGP_ID", "NOTIF_SUBCODE_UNSUPPORTED_OPTIONAL_PARAM", "NOTIF_SUBCODE_UNACCEPTABLE_HOLD_TIME", "NOTIF_SUBCODE_UNSUPPORTED_CAPABILITY", "asTrans", "capabilityOptionalParamType", "CAP_FOUR_OCTET_AS", "CAP_MP_EXTENSIONS", "CAP_FOUR_OCTET_AS", "CAP_ADD_PATH", "AFI_IPV4", "AFI_IPV6", "SAFI_UNICAST")
	c.notificationDecode("C15.1 notification-decode")
	// OPEN
	checkC02Decode(c)
	c.openEncodeLayout("C15.1 open-encode-layout")
	c.capabilityCodec("C15.1 capability-codec")
	c.oneParamPerWireParam("C15.1 one-param-per-wire-param")
	c.lengthOctets("C15.2 length-octets")
	// exported helpers
	c.addPathTuple("C15.4 add-path")
	c.capabilityHelpers("C15.4 capability-helpers")
	c.checkBounds("C15.5", []string{"Notification.decode", "Notification.encode", "openMessage.decode", "openMessage.encode", "decodeOptionalParams", "capabilityOptionalParam.decode",
		"capabilityOptionalParam.encode", "Capability.encode", "AddPathTuple.Decode", "AddPathTuple.Encode", "DecodeAddPathTuples", "NewAddPathCapability", "NewMPExtensionsCapability", "prependHeader"}, 40)
	_ = p
}

func (c *Check) notificationDecode(rule string) {
	p := c.P
	fn := p.Fn("Notification.decode")
	if fn == nil || !c.sig(rule, fn, 2) {
		return
	}
	n, b := paramExpr(fn, 0), paramExpr(fn, 1)
	lenB := mkLen(b)
	for _, w := range []struct {
		name string
		set  ISet
	}{{"shorter than 2", isRange(0, 1)}, {"exactly 2", isConst(2)}, {"longer than 2", isRange(3, posInf)}} {
		a := NewAnalysis(p, fn)
		a.Init = func(a *Analysis, st *State) { st.rng[lenB.Key] = w.set }
		a.Run()
		ok := len(a.Returns) > 0
		detail := ""
		for _, r := range a.Returns {
			st := r.State
			res := r.Results[0]
			code := p.loadField(st, n, "Notification", "Code")
			sub := p.loadField(st, n, "Notification", "Subcode")
			data := p.loadField(st, n, "Notification", "Data")
			switch w.name {
			case "shorter than 2":
				if v, isC := st.nonNil(res).IsConst(); !isC || v != 1 {
					ok, detail = false, "a body without code and subcode must be an error"
				}
				if code.Op != "ld" || !strings.Contains(code.Key, "fa:Code(") {
					ok, detail = false, "nothing may be stored on error"
				}
			default:
				if !res.IsNil() {
					ok, detail = false, "must succeed"
				}
				if code.Key != byteLoad(b, 0).Key || sub.Key != byteLoad(b, 1).Key {
					ok, detail = false, "Code = octet 0, Subcode = octet 1"
				}
				if w.name == "exactly 2" {
					if !(data.Op == "ld" && strings.Contains(data.Key, "fa:Data(")) && !data.IsNil() {
						ok, detail = false, "no data must be invented for a 2-octet body; got "+trunc(data.Key, 60)
					}
				} else {
					good := data.Op == "makeslice" && st.must["call:builtin:copy"]
					if good {
						d := st.linOf(data.Args[0]).add(st.linOf(lenB), -1)
						cv, isC := d.isConst()
						good = isC && cv == -2
					}
					if !good {
						ok, detail = false, "Data must be a copy of body[2:] (len-2 octets); got "+trunc(data.Key, 80)
					}
				}
			}
		}
		c.require(ok, rule, "Notification.decode", w.name, p.Pos(fn.Pos()), detail)
	}
	// the copy source is b[2:]
	a := NewAnalysis(p, fn)
	a.Run()
	for _, cl := range p.callsIn(fn, descIs("builtin:copy")) {
		for _, st := range a.At[cl.(ssa.Instruction)] {
			args := a.argExprs(st, nil, cl.Common())
			ok, d := sliceIs(st, args[1], b, linConst(2), nil)
			c.require(ok, rule, "Notification.decode", "copy source", p.InstrPos(cl.(ssa.Instruction)), "data is copied from body[2:] — "+d)
		}
	}
}

func (c *Check) capabilityCodec(rule string) {
	p := c.P
	// Capability.encode: [Code][uint8(len(Value))][Value...]
	if fn := p.Fn("Capability.encode"); fn != nil {
		a := NewAnalysis(p, fn)
		a.Run()
		for _, r := range a.Returns {
			st := r.State
			res := r.Results[0]
			var probs []string
			lay, lerr := st.layoutOf(res, 0)
			if lerr != "" {
				probs = append(probs, "construction not understood: "+lerr)
			} else {
				isLenOfValue := func(v *Expr) bool {
					x := v
					for x != nil && x.Op == "conv" {
						x = x.Args[0]
					}
					return x != nil && x.Op == "len" && isFieldRead(x.Args[0], "Value")
				}
				pats := []segPat{
					{Kind: "byte", Pred: func(v *Expr) bool { return isFieldRead(v, "Code") }, What: "byte(Code)"},
					{Kind: "byte", Pred: isLenOfValue, What: "byte(len(Value))"},
					{Kind: "bytes", Pred: func(v *Expr) bool { return isFieldRead(v, "Value") }, What: "all of Value"},
				}
				if ok, d := matchLayout(lay, pats); !ok {
					// an empty Value has no bytes segment
					if ok2, _ := matchLayout(lay, pats[:2]); !(ok2 && func() bool {
						v, isC := st.rangeOf(mkLen(mkField(paramExpr(fn, 0), "Value", 1, nil))).IsConst()
						return isC && v == 0
					}()) {
						probs = append(probs, "layout must be Code, len(Value), Value: "+d)
					}
				}
			}
			c.require(len(probs) == 0, rule, "Capability.encode", "layout", p.InstrPos(r.Instr), strings.Join(probs, "; "))
		}
	}
	// capabilityOptionalParam.encode: [2][uint8(len(caps))] ++ caps ; empty => error
	if fn := p.Fn("capabilityOptionalParam.encode"); fn != nil {
		capsLen := func(e *Expr) bool { return e.Op == "len" && isFieldRead(e.Args[0], "capabilities") }
		for _, empty := range []bool{true, false} {
			a := NewAnalysis(p, fn)
			set := isRange(1, posInf)
			if empty {
				set = isConst(0)
			}
			a.AtomHook = rangeHook(capsLen, set)
			a.Run()
			ok := len(a.Returns) > 0
			detail := ""
			for _, r := range a.Returns {
				st := r.State
				buf, err := r.Results[0], r.Results[1]
				if empty {
					if !buf.IsNil() {
						ok, detail = false, "an empty capability list must not be encoded"
					}
					if v, isC := st.nonNil(err).IsConst(); !isC || v != 1 {
						ok, detail = false, "an empty capability list must be an error"
					}
					continue
				}
				if buf.IsNil() {
					// a bound check failed: never the "empty" refusal
					if e := err; e != nil && strings.Contains(e.Key, "empty") {
						ok, detail = false, "a non-empty capability list is refused as empty"
					}
					continue
				}
				// wire order: type 2, len(caps), caps
				good := false
				if lay, lerr := st.layoutOf(buf, 0); lerr == "" && len(lay) == 3 && lay[2].Kind == "bytes" {
					caps := lay[2].Val
					good, _ = matchLayout(lay, []segPat{
						{Kind: "byte", Pred: func(v *Expr) bool {
							tv, isT := st.rangeOf(v).IsConst()
							return isT && tv == p.MustConst("capabilityOptionalParamType")
						}, What: "byte(2)"},
						{Kind: "byte", Pred: func(v *Expr) bool {
							x := v
							for x != nil && x.Op == "conv" {
								x = x.Args[0]
							}
							d := st.linOf(x).add(st.linOf(mkLen(caps)), -1)
							k, isC := d.isConst()
							return isC && k == 0
						}, What: "byte(len(caps))"},
						{Kind: "bytes", What: "the concatenated capabilities"},
					})
				}
				if !good {
					ok, detail = false, "layout must be [type 2][len(caps)] ++ caps; got "+trunc(buf.Key, 100)
				}
			}
			c.require(ok, rule, "capabilityOptionalParam.encode", fmt.Sprintf("empty=%v", empty), p.Pos(fn.Pos()), detail)
		}
		apps, own := 0, 0
		for _, cl := range p.callsIn(fn, descIs("builtin:append")) {
			if inLoop(cl.Block()) && everyIteration(cl.(ssa.Instruction)) {
				apps++
				if cl.Parent() == fn {
					own++
				}
			}
		}
		// one append in the loop itself, or the appends of a helper that
		// extends the accumulator (code, length, then value)
		c.require(apps >= 1 && own <= 1, rule, "capabilityOptionalParam.encode", "capabilities concatenated in order", p.Pos(fn.Pos()), "one append of capability.encode() per capability, in list order")
	}
	// capabilityOptionalParam.decode: Capability{Code: cursor[0], Value: cursor[2:2+l]}
	if fn := p.Fn("capabilityOptionalParam.decode"); fn != nil {
		n := 0
		// two cases on the capability's length octet (cursor[1]): with a
		// value, and without one; each is decided on its own so that the value
		// reaching the append is the one built for that case
		isLenOctet := func(e *Expr) bool {
			if e.Op != "ld" || e.Args[0].Op != "ia" {
				return false
			}
			iv, isC := e.Args[0].Args[1].IsConst()
			return isC && iv == 1 && e.Args[0].Args[0].Op == "phi"
		}
		for _, withValue := range []bool{true, false} {
			a := NewAnalysis(p, fn)
			if withValue {
				// the length octet of a capability that fits: at most
				// len(b)-2, with len(b) bounded by the checked premise on
				// the callers (the block comes from a one-octet-length field)
				maxLen := int64(255)
				if r, has := p.entryLenFacts(fn, map[*ssa.Function]*Analysis{})[1]; has && !r.Empty() && r.Hi() != posInf && r.Hi()-2 < maxLen {
					maxLen = r.Hi() - 2
				}
				a.AtomHook = rangeHook(isLenOctet, isRange(1, maxLen))
			} else {
				a.AtomHook = rangeHook(isLenOctet, isConst(0))
			}
			a.Run()
			for _, cl := range p.callsIn(fn, descIs("builtin:append")) {
				for _, st := range a.At[cl.(ssa.Instruction)] {
					n++
					args := a.argExprs(st, nil, cl.Common())
					if args[0].Op == "append1" || len(args) < 2 {
						continue
					}
					// the appended element(s)
					var elems []*Expr
					if es, ok := a.variadicElems(st, args[1]); ok {
						elems = es
					}
					ok := len(elems) == 1 && elems[0].Op == "struct"
					if ok {
						code := mkField(elems[0], "Code", 0, nil)
						val := mkField(elems[0], "Value", 1, nil)
						ok = code.Op == "ld" && strings.Contains(code.Key, "ia(phi:") && strings.HasSuffix(code.Args[0].Key, "const:0)")
						// value: cursor[2:2+l] when l > 0, an empty slice otherwise
						r, lo, hi := sliceParts(val)
						if os.Getenv("CBGP_DEBUG") != "" {
							fmt.Printf("DEBUG capdecode withValue=%v val=%s code=%s\n", withValue, trunc(val.Key, 300), code.Key)
						}
						switch {
						case withValue:
							okL := false
							if r.Op == "phi" && lo != nil && hi != nil {
								l := st.linOf(hi).add(st.linOf(lo), -1)
								okL = len(l.T) == 1 && l.C == 0
								for k, coef := range l.T {
									if coef != 1 || !isLenOctet(l.E[k]) || l.E[k].Args[0].Args[0].Key != r.Key {
										okL = false
									}
								}
								lv, isC := lo.IsConst()
								okL = okL && isC && lv == 2 && code.Args[0].Args[0].Key == r.Key
							}
							ok = ok && okL
						default:
							z, isZ := st.rangeOf(mkLen(val)).IsConst()
							ok = ok && isZ && z == 0
						}
					}
					c.require(ok, rule, "capabilityOptionalParam.decode", fmt.Sprintf("decoded capability (with value=%v)", withValue), p.InstrPos(cl.(ssa.Instruction)), "Capability{Code: cursor[0], Value: cursor[2:2+len]} (empty for len 0) appended in wire order")
				}
			}
		}
		c.floor(rule, n, 2, "capability appends in the decoder")
	}
}

func (c *Check) addPathTuple(rule string) {
	p := c.P
	fn := p.Fn("AddPathTuple.Decode")
	if fn != nil && c.sig(rule, fn, 2) {
		recv, b := paramExpr(fn, 0), paramExpr(fn, 1)
		b3 := byteLoad(b, 3)
		isB3 := func(e *Expr) bool { return e.Key == b3.Key }
		code2 := func(rs retSite) string {
			if rs.ec.Kind == "Notification" && rs.ec.Notif != nil {
				if cc, ok := rs.ec.Notif.Code.IsConst(); ok && cc == 2 {
					return ""
				}
			}
			return "must be *Notification with code OPEN Message Error; got " + rs.ec.Kind
		}
		long := func(a *Analysis, st *State) { st.rng[mkLen(b).Key] = isRange(4, posInf) }
		c.runCases(rule, "AddPathTuple.Decode", []asmCase{
			{name: "shorter than 4 => error", init: func(a *Analysis, st *State) { st.rng[mkLen(b).Key] = isRange(0, 3) }, forbid: code2},
			{name: "send/receive octet not in 1..3 => error", hook: rangeHook(isB3, isConst(0).Union(isRange(4, 255))), init: long, forbid: code2},
		})
		for v, want := range map[int64][2]int64{1: {0, 1}, 2: {1, 0}, 3: {1, 1}} {
			a := NewAnalysis(p, fn)
			a.AtomHook = rangeHook(isB3, isConst(v))
			a.Init = long
			a.Run()
			ok := len(a.Returns) > 0
			for _, r := range a.Returns {
				st := r.State
				if !r.Results[0].IsNil() {
					ok = false
					continue
				}
				get := func(f string) *Expr { return p.loadField(st, recv, "AddPathTuple", f) }
				tx, rx := get("Tx"), get("Rx")
				bit := func(e *Expr, want int64) bool {
					if cv, isC := e.IsConst(); isC {
						return cv == want
					}
					// untouched field of the caller's zero value counts as false
					return want == 0 && e.Op == "ld"
				}
				afiOK := get("AFI").Key == mk("call", nil, "be16", 0, b, mkConst(0, intT), mkStr("")).Key
				safiOK := get("SAFI").Key == byteLoad(b, 2).Key
				if !bit(tx, want[0]) || !bit(rx, want[1]) || !afiOK || !safiOK {
					ok = false
				}
			}
			c.require(ok, rule, "AddPathTuple.Decode", fmt.Sprintf("value %d => Tx=%d Rx=%d", v, want[0], want[1]), p.Pos(fn.Pos()), "RFC 7911: 1 receive, 2 send, 3 both; AFI = be16(0), SAFI = octet 2")
		}
	}
	if enc := p.Fn("AddPathTuple.Encode"); enc != nil {
		for _, w := range []struct{ tx, rx, v int64 }{{0, 1, 1}, {1, 0, 2}, {1, 1, 3}} {
			a := NewAnalysis(p, enc)
			a.AtomHook = hooks(rangeHook(func(e *Expr) bool { return isFieldRead(e, "Tx") }, isConst(w.tx)), rangeHook(func(e *Expr) bool { return isFieldRead(e, "Rx") }, isConst(w.rx)))
			a.Run()
			ok := len(a.Returns) > 0
			detail := ""
			for _, r := range a.Returns {
				st := r.State
				lay, lerr := st.layoutOf(r.Results[0], 0)
				if lerr != "" {
					ok, detail = false, lerr
					continue
				}
				want := w.v
				if good, d := matchLayout(lay, []segPat{
					{Kind: "be16", Pred: func(v *Expr) bool { return isFieldRead(v, "AFI") }, What: "be16(AFI)"},
					{Kind: "byte", Pred: func(v *Expr) bool { return isFieldRead(v, "SAFI") }, What: "byte(SAFI)"},
					{Kind: "byte", Pred: func(v *Expr) bool {
						cv, isC := st.rangeOf(v).IsConst()
						return isC && cv == want
					}, What: fmt.Sprintf("byte(%d)", want)},
				}); !good {
					ok, detail = false, d
				}
			}
			_ = detail
			c.require(ok, rule, "AddPathTuple.Encode", fmt.Sprintf("Tx=%d Rx=%d => %d", w.tx, w.rx, w.v), p.Pos(enc.Pos()), "inverse of Decode: [AFI be16][SAFI][send/receive]")
		}
	}
	if fn := p.Fn("DecodeAddPathTuples"); fn != nil {
		b := paramExpr(fn, 0)
		lenB := mkLen(b)
		code2 := func(rs retSite) string {
			if rs.ec.Kind == "Notification" && rs.ec.Notif != nil {
				if cc, ok := rs.ec.Notif.Code.IsConst(); ok && cc == 2 {
					if !rs.rs.Results[0].IsNil() {
						return "no partial result with an error"
					}
					return ""
				}
			}
			return "must be *Notification code 2; got " + rs.ec.Kind
		}
		modKey := mkBin(token.REM, lenB, mkConst(4, intT), intT, intT).Key
		c.runCases(rule, "DecodeAddPathTuples", []asmCase{
			{name: "empty => error", init: func(a *Analysis, st *State) { st.rng[lenB.Key] = isConst(0) }, forbid: code2},
			{name: "length not a multiple of 4 => error", init: func(a *Analysis, st *State) {
				st.rng[lenB.Key] = isRange(1, posInf)
				st.rng[modKey] = isRange(1, 3)
			}, forbid: code2},
		})
		// element errors propagate with a nil list
		a := NewAnalysis(p, fn)
		a.AtomHook = func(e *Expr) (ISet, bool) {
			if e.Op == "nn" && e.Args[0].Op == "rcall" && e.Args[0].S == "AddPathTuple.Decode" {
				return isConst(1), true
			}
			return nil, false
		}
		a.Init = func(a *Analysis, st *State) {
			st.rng[lenB.Key] = isRange(4, posInf)
			st.rng[modKey] = isConst(0)
		}
		a.Run()
		ok := len(a.Returns) > 0
		for _, r := range a.Returns {
			if !r.Results[0].IsNil() || !(r.Results[1].Op == "rcall") {
				ok = false
			}
		}
		c.require(ok, rule, "DecodeAddPathTuples", "tuple error propagates", p.Pos(fn.Pos()), "a bad tuple returns (nil, that error)")
		c.setDecoderShape(rule, "DecodeAddPathTuples", 4)
	}
}

func (c *Check) setDecoderShape(rule, fnName string, step int64) {
	p := c.P
	fn := p.Fn(fnName)
	if fn == nil {
		return
	}
	apps := p.callsIn(fn, descIs("builtin:append"))
	okA := len(apps) == 1 && inLoop(apps[0].Block()) && everyIteration(apps[0].(ssa.Instruction))
	adv := elementLoopAdvance(fn, step)
	if !(okA && adv) && len(apps) == 0 && inPlaceElementLoop(fn, step) {
		okA, adv = true, true
	}
	c.require(okA && adv, rule, fnName, "element loop", p.Pos(fn.Pos()), fmt.Sprintf("one append per %d-octet element, cursor advances by %d", step, step))
}

func (c *Check) capabilityHelpers(rule string) {
	p := c.P
	if fn := p.Fn("NewMPExtensionsCapability"); fn != nil && len(fn.Params) == 2 {
		a := NewAnalysis(p, fn)
		a.Run()
		for _, r := range a.Returns {
			e := r.Results[0]
			st := r.State
			ok := e.Op == "struct"
			if ok {
				code := mkField(e, "Code", 0, nil)
				val := mkField(e, "Value", 1, nil)
				cv, isC := code.IsConst()
				ok = isC && cv == p.MustConst("CAP_MP_EXTENSIONS")
				lay, lerr := st.layoutOf(val, 0)
				if ok && lerr == "" {
					ok, _ = matchLayout(lay, []segPat{
						{Kind: "be16", Pred: func(v *Expr) bool { return isParamNamed(v, paramName(fn, 0)) }, What: "be16(afi)"},
						{Kind: "byte", Pred: func(v *Expr) bool { z, isZ := st.rangeOf(v).IsConst(); return isZ && z == 0 }, What: "byte(0)"},
						{Kind: "byte", Pred: func(v *Expr) bool { return isParamNamed(v, paramName(fn, 1)) }, What: "byte(safi)"},
					})
				} else {
					ok = false
				}
			}
			c.require(ok, rule, "NewMPExtensionsCapability", "layout", p.InstrPos(r.Instr), "Capability{Code: 1, Value: AFI(2) reserved(1)=0 SAFI(1)}")
		}
	}
	if fn := p.Fn("NewAddPathCapability"); fn != nil {
		a := NewAnalysis(p, fn)
		a.Run()
		ok := false
		for _, r := range a.Returns {
			e := r.Results[0]
			if e.Op == "struct" {
				if cv, isC := mkField(e, "Code", 0, nil).IsConst(); isC && cv == p.MustConst("CAP_ADD_PATH") {
					ok = true
				}
			}
		}
		apps := p.callsIn(fn, descIs("builtin:append"))
		encs := p.callsIn(fn, descIs("AddPathTuple.Encode"))
		appendForm := len(apps) == 1 && inLoop(apps[0].Block()) && everyIteration(apps[0].(ssa.Instruction)) && len(encs) == 1
		ok = ok && (appendForm || (len(apps) == 0 && p.inPlaceEncodeLoop(fn, 4)))
		// the Value handed out is that buffer, whole
		valOK := true
		nValStores := 0
		ownInstrs(fn, func(in ssa.Instruction) {
			st, isS := in.(*ssa.Store)
			if !isS {
				return
			}
			fa, isF := st.Addr.(*ssa.FieldAddr)
			if !isF || structFieldName(fa) != "Value" {
				return
			}
			seen := map[ssa.Value]bool{}
			var walk func(v ssa.Value) bool
			walk = func(v ssa.Value) bool {
				if seen[v] {
					return true
				}
				seen[v] = true
				switch x := v.(type) {
				case *ssa.Phi:
					for _, e := range x.Edges {
						if !walk(e) {
							return false
						}
					}
					return true
				case *ssa.Call:
					if b, isB := x.Call.Value.(*ssa.Builtin); isB && b.Name() == "append" {
						return walk(x.Call.Args[0])
					}
					return false
				case *ssa.MakeSlice:
					return true
				case *ssa.Const:
					return x.IsNil()
				case *ssa.UnOp:
					// grown through the field itself: c.Value = append(c.Value, …)
					if fa2, isF := x.X.(*ssa.FieldAddr); isF && structFieldName(fa2) == "Value" && fa2.X == fa.X {
						return true
					}
				}
				return false
			}
			nValStores++
			valOK = valOK && walk(st.Val)
		})
		ok = ok && valOK && nValStores > 0
		c.require(ok, rule, "NewAddPathCapability", "code 69, tuples concatenated in order", p.Pos(fn.Pos()), "Capability{Code: 69, Value: Encode(t1) ++ Encode(t2) ++ …}")
	}
}

// oneParamPerWireParam: decode(encode(x)) == x and encode(decode(b)) == b need
// the decoded optional-parameter list to mirror the wire layout: every
// iteration of the TLV loop that accepts a parameter appends exactly one
// object allocated in that iteration, and the accepted result is built by
// those appends only (merging parameters into one object, or appending
// outside the loop, changes the re-encoded length octets).
func (c *Check) oneParamPerWireParam(rule string) {
	p := c.P
	fn := p.Fn("decodeOptionalParams")
	if fn == nil {
		return
	}
	var apps []*ssa.Call
	for _, cl := range p.callsIn(fn, descIs("builtin:append")) {
		call, ok := cl.(*ssa.Call)
		if !ok {
			continue
		}
		if sl, ok := call.Type().Underlying().(*types.Slice); ok && strings.HasSuffix(sl.Elem().String(), "optionalParam") {
			apps = append(apps, call)
		}
	}
	c.require(len(apps) == 1, rule, "decodeOptionalParams", "single append site", p.Pos(fn.Pos()), fmt.Sprintf("exactly one append to the parameter list (found %d)", len(apps)))
	isApp := map[ssa.Value]bool{}
	for _, ap := range apps {
		isApp[ap] = true
		okLoop := inLoop(ap.Block())
		// the appended element is a MakeInterface of an Alloc made in the loop,
		// directly or as the result of a helper called in the loop
		fresh := false
		var freshVal func(v ssa.Value, depth int) bool
		freshVal = func(v ssa.Value, depth int) bool {
			switch x := v.(type) {
			case *ssa.MakeInterface:
				al, ok := x.X.(*ssa.Alloc)
				return ok && inLoop(al.Block())
			case *ssa.Extract:
				return freshVal(x.Tuple, depth)
			case *ssa.Call:
				h := p.helperCallee(x)
				if h == nil || depth > 2 || !inLoop(x.Block()) {
					return false
				}
				// every return of the helper that hands back a value hands back
				// an object allocated by that call
				okAll, any := true, false
				ownInstrs(h, func(in ssa.Instruction) {
					rt, isR := in.(*ssa.Return)
					if !isR || len(rt.Results) == 0 {
						return
					}
					if cst, isC := rt.Results[0].(*ssa.Const); isC && cst.Value == nil {
						return // nil result (error return)
					}
					any = true
					if !freshVal(rt.Results[0], depth+1) {
						okAll = false
					}
				})
				return any && okAll
			}
			return false
		}
		if len(ap.Call.Args) == 2 {
			if sl, ok := ap.Call.Args[1].(*ssa.Slice); ok {
				if arr, ok := sl.X.(*ssa.Alloc); ok {
					for _, r := range *arr.Referrers() {
						ia, ok := r.(*ssa.IndexAddr)
						if !ok {
							continue
						}
						for _, rr := range *ia.Referrers() {
							if st, ok := rr.(*ssa.Store); ok && freshVal(st.Val, 0) {
								fresh = true
							}
						}
					}
				}
			}
		}
		c.require(okLoop && fresh, rule, "decodeOptionalParams", "append of a per-iteration object", p.InstrPos(ap),
			fmt.Sprintf("the append is inside the TLV loop (%v) and appends an object allocated in the same iteration (%v)", okLoop, fresh))
		// every full iteration passes the append: no path from the loop head
		// back to it avoids the append
		if okLoop {
			var head *ssa.BasicBlock
			for _, b := range fn.Blocks {
				for _, pr := range b.Preds {
					if b.Dominates(pr) && b.Dominates(ap.Block()) {
						if head == nil || head.Dominates(b) {
							head = b
						}
					}
				}
			}
			skip := false
			if head != nil {
				seen := map[*ssa.BasicBlock]bool{}
				var walk func(b *ssa.BasicBlock)
				walk = func(b *ssa.BasicBlock) {
					if seen[b] || b == ap.Block() {
						return
					}
					seen[b] = true
					for _, s := range b.Succs {
						if s == head {
							skip = true
							return
						}
						walk(s)
					}
				}
				walk(head)
			}
			c.require(head != nil && !skip, rule, "decodeOptionalParams", "every accepted parameter is appended", p.InstrPos(ap), "no iteration of the TLV loop reaches the next one without appending its parameter")
		}
	}
	// accepted result: built from the empty list by those appends only
	n := 0
	allInstrs(fn, func(in ssa.Instruction) {
		r, ok := in.(*ssa.Return)
		if !ok || len(r.Results) != 2 || in.Parent() != fn {
			return
		}
		if cst, isC := r.Results[1].(*ssa.Const); !isC || cst.Value != nil {
			return
		}
		n++
		seen := map[ssa.Value]bool{}
		okT := true
		var trace func(v ssa.Value)
		trace = func(v ssa.Value) {
			if seen[v] {
				return
			}
			seen[v] = true
			switch x := v.(type) {
			case *ssa.Phi:
				for _, e := range x.Edges {
					trace(e)
				}
			case *ssa.MakeSlice:
				if cst, ok := x.Len.(*ssa.Const); !ok || cst.Value == nil || cst.Int64() != 0 {
					okT = false
				}
			case *ssa.Const:
				if x.Value != nil {
					okT = false
				}
			case *ssa.Slice:
				// make([]T, 0) with a constant size is a slice of new [0]T
				if n, ok := constLen(x); !ok || n != 0 {
					okT = false
				}
			case *ssa.Call:
				if !isApp[x] {
					okT = false
					return
				}
				trace(x.Call.Args[0])
			default:
				okT = false
			}
		}
		trace(r.Results[0])
		c.require(okT, rule, "decodeOptionalParams", "accepted list built by the loop's appends", p.InstrPos(r), "the returned list is the empty list extended only by the per-parameter append")
	})
	c.floor(rule, n, 1, "accepting returns of decodeOptionalParams")
}

// elementLoopAdvance recognises the two ways a fixed-stride element loop walks
// its input: a cursor slice re-sliced by exactly step on the back edge
// (b = b[step:]), or an index starting at 0, incremented by exactly step on
// the back edge and compared with `< len(x)` at the loop head.
func elementLoopAdvance(fn *ssa.Function, step int64) bool {
	// a decoder without a loop of its own that hands the field to one helper
	// the rule sets do not know: the loop is looked for there, and the helper's
	// stride may be a parameter bound to the constant at this call
	isStep := func(v ssa.Value) bool {
		cst, isC := v.(*ssa.Const)
		return isC && cst.Value != nil && cst.Int64() == step
	}
	hasLoop := false
	for _, blk := range fn.Blocks {
		if inLoop(blk) {
			hasLoop = true
		}
	}
	if !hasLoop && curProg != nil {
		var site *ssa.Call
		n := 0
		ownInstrs(fn, func(in ssa.Instruction) {
			if h := curProg.helperCallee(in); h != nil {
				for _, blk := range h.Blocks {
					if inLoop(blk) {
						site = in.(*ssa.Call)
						n++
						break
					}
				}
			}
		})
		if n == 1 {
			h := site.Call.StaticCallee()
			isStep = func(v ssa.Value) bool {
				if cst, isC := v.(*ssa.Const); isC {
					return cst.Value != nil && cst.Int64() == step
				}
				if pr, isP := v.(*ssa.Parameter); isP && pr.Parent() == h {
					for k, q := range h.Params {
						if q == pr && k < len(site.Call.Args) {
							cst, isC := site.Call.Args[k].(*ssa.Const)
							return isC && cst.Value != nil && cst.Int64() == step
						}
					}
				}
				return false
			}
			fn = h
		}
	}
	for _, blk := range fn.Blocks {
		if !inLoop(blk) {
			continue
		}
		for _, in := range blk.Instrs {
			phi, ok := in.(*ssa.Phi)
			if !ok {
				break
			}
			for i, e := range phi.Edges {
				if !blk.Dominates(blk.Preds[i]) {
					continue
				}
				if sl, isS := e.(*ssa.Slice); isS && sl.X == ssa.Value(phi) && sl.High == nil && sl.Low != nil {
					if isStep(sl.Low) {
						return true
					}
				}
				bo, isB := e.(*ssa.BinOp)
				if !isB || bo.Op != token.ADD || bo.X != ssa.Value(phi) {
					continue
				}
				if !isStep(bo.Y) {
					continue
				}
				// starts at 0
				zero := true
				for k, e2 := range phi.Edges {
					if k == i {
						continue
					}
					if c0, ok := e2.(*ssa.Const); !ok || c0.Value == nil || c0.Int64() != 0 {
						zero = false
					}
				}
				// head test i < len(x)
				iff, isIf := blk.Instrs[len(blk.Instrs)-1].(*ssa.If)
				if !zero || !isIf {
					continue
				}
				cmp, isCmp := iff.Cond.(*ssa.BinOp)
				if !isCmp || cmp.Op != token.LSS || cmp.X != ssa.Value(phi) {
					continue
				}
				// the element is read at the index
				used := false
				for _, r := range *phi.Referrers() {
					switch x := r.(type) {
					case *ssa.Slice:
						used = used || x.Low == ssa.Value(phi)
					case *ssa.IndexAddr:
						used = used || x.Index == ssa.Value(phi)
					}
				}
				if cl, ok := cmp.Y.(*ssa.Call); ok && used {
					if b, isBI := cl.Call.Value.(*ssa.Builtin); isBI && b.Name() == "len" {
						return true
					}
				}
			}
		}
	}
	return false
}

// inPlaceElementLoop recognises the third way of decoding a fixed-stride
// list: the result is allocated with len(input)/step elements and element i
// is decoded in place from input[step*i:], for every index of the result.
func inPlaceElementLoop(fn *ssa.Function, step int64) bool {
	found := false
	allInstrs(fn, func(in ssa.Instruction) {
		ia, ok := in.(*ssa.IndexAddr)
		if !ok || !inLoop(ia.Block()) {
			return
		}
		ms, ok := ia.X.(*ssa.MakeSlice)
		if !ok {
			return
		}
		// len(result) = len(input)/step
		q, ok := ms.Len.(*ssa.BinOp)
		if !ok || q.Op != token.QUO {
			return
		}
		if c, isC := q.Y.(*ssa.Const); !isC || c.Value == nil || c.Int64() != step {
			return
		}
		lc, ok := q.X.(*ssa.Call)
		if !ok {
			return
		}
		if b, isB := lc.Call.Value.(*ssa.Builtin); !isB || b.Name() != "len" {
			return
		}
		input := lc.Call.Args[0]
		// the index runs over the whole result (range form or counted form
		// bounded by len(result)), and the input is sliced at step*index
		idx := ia.Index
		lo, hi, _, okSpan := loopSpanOver(idx, ms)
		if !okSpan || lo != 0 || !hi {
			return
		}
		for _, r := range *idx.Referrers() {
			m, ok := r.(*ssa.BinOp)
			if !ok || m.Op != token.MUL {
				continue
			}
			other := m.Y
			if other == idx {
				other = m.X
			}
			if c, isC := other.(*ssa.Const); !isC || c.Value == nil || c.Int64() != step {
				continue
			}
			for _, rr := range *m.Referrers() {
				if sl, ok := rr.(*ssa.Slice); ok && sl.X == input && sl.Low == ssa.Value(m) {
					found = true
				}
			}
		}
	})
	return found
}

// inPlaceEncodeLoop recognises the in-place form of a fixed-stride list
// encoder: the buffer is allocated with step*len(input) octets, the loop index
// runs over the whole input, and on every iteration element i is encoded into
// buffer[step*i:] -- by the element encoder's own writer (a helper that
// AddPathTuple.Encode itself consists of), or by copying Encode()'s result.
func (p *Prog) inPlaceEncodeLoop(fn *ssa.Function, step int64) bool {
	if len(fn.Params) != 1 {
		return false
	}
	input := ssa.Value(fn.Params[0])
	isLenOfInput := func(v ssa.Value) bool {
		cl, ok := v.(*ssa.Call)
		if !ok {
			return false
		}
		b, isB := cl.Call.Value.(*ssa.Builtin)
		return isB && b.Name() == "len" && cl.Call.Args[0] == input
	}
	timesStep := func(v ssa.Value, of func(ssa.Value) bool) bool {
		m, ok := v.(*ssa.BinOp)
		if !ok || m.Op != token.MUL {
			return false
		}
		for _, pr := range [][2]ssa.Value{{m.X, m.Y}, {m.Y, m.X}} {
			if c, isC := pr[0].(*ssa.Const); isC && c.Value != nil && c.Int64() == step && of(pr[1]) {
				return true
			}
		}
		return false
	}
	// the element encoder's writers: helpers of AddPathTuple.Encode
	writers := map[*ssa.Function]bool{}
	if enc := p.Funcs["AddPathTuple.Encode"]; enc != nil {
		for _, g := range deepFuncs(enc) {
			if g != enc {
				writers[g] = true
			}
		}
	}
	found := false
	ownInstrs(fn, func(in ssa.Instruction) {
		ms, ok := in.(*ssa.MakeSlice)
		if !ok || !timesStep(ms.Len, isLenOfInput) {
			return
		}
		// destination slices buffer[step*i:] with i spanning the input
		for _, r := range *ms.Referrers() {
			sl, ok := r.(*ssa.Slice)
			if !ok || sl.X != ssa.Value(ms) || sl.Low == nil || !inLoop(sl.Block()) {
				continue
			}
			var idx ssa.Value
			if !timesStep(sl.Low, func(v ssa.Value) bool { idx = v; return true }) {
				continue
			}
			lo, hi, head, okSpan := loopSpanOver(idx, input)
			if !okSpan || lo != 0 || !hi {
				continue
			}
			// on every iteration
			every := true
			for _, pr := range head.Preds {
				if head.Dominates(pr) && !sl.Block().Dominates(pr) {
					every = false
				}
			}
			if !every {
				continue
			}
			// element i of the input is what gets encoded there
			isElem := func(v ssa.Value) bool {
				if ia, ok := v.(*ssa.IndexAddr); ok {
					return ia.X == input && ia.Index == idx
				}
				if al, ok := v.(*ssa.Alloc); ok {
					// a per-iteration copy of element i
					n, good := 0, false
					for _, rr := range *al.Referrers() {
						if st, ok := rr.(*ssa.Store); ok && st.Addr == ssa.Value(al) {
							n++
							if ld, ok := st.Val.(*ssa.UnOp); ok {
								if ia, ok := ld.X.(*ssa.IndexAddr); ok && ia.X == input && ia.Index == idx {
									good = true
								}
							}
						}
					}
					return n == 1 && good
				}
				return false
			}
			for _, u := range *sl.Referrers() {
				cl, ok := u.(*ssa.Call)
				if !ok {
					continue
				}
				if h := p.staticLocalCallee(cl); h != nil && writers[h] && len(cl.Call.Args) == 2 && isElem(cl.Call.Args[0]) && cl.Call.Args[1] == ssa.Value(sl) {
					found = true
				}
				if b, isB := cl.Call.Value.(*ssa.Builtin); isB && b.Name() == "copy" && cl.Call.Args[0] == ssa.Value(sl) {
					if src, ok := cl.Call.Args[1].(*ssa.Call); ok && p.calleeDesc(src) == "AddPathTuple.Encode" && len(src.Call.Args) == 1 && isElem(src.Call.Args[0]) {
						found = true
					}
				}
			}
		}
	})
	return found
}

// loopSpanOver: idx is the index of a step-1 loop that starts at lo and is
// bounded by len(of) (hi reports that bound was recognised).
func loopSpanOver(idx ssa.Value, of ssa.Value) (lo int64, hi bool, head *ssa.BasicBlock, ok bool) {
	var phi *ssa.Phi
	start := int64(0)
	var cmpX ssa.Value
	switch x := idx.(type) {
	case *ssa.Phi:
		phi, cmpX = x, x
	case *ssa.BinOp:
		p, isPhi := x.X.(*ssa.Phi)
		one, isC := x.Y.(*ssa.Const)
		if x.Op != token.ADD || !isPhi || !isC || one.Value == nil || one.Int64() != 1 {
			return 0, false, nil, false
		}
		phi, cmpX, start = p, x, 1
	default:
		return 0, false, nil, false
	}
	if len(phi.Edges) != 2 {
		return 0, false, nil, false
	}
	b := phi.Block()
	for i, e := range phi.Edges {
		if b.Dominates(b.Preds[i]) {
			bo, isB := e.(*ssa.BinOp)
			if !isB || bo.Op != token.ADD || bo.X != ssa.Value(phi) {
				return 0, false, nil, false
			}
			if one, isC := bo.Y.(*ssa.Const); !isC || one.Value == nil || one.Int64() != 1 {
				return 0, false, nil, false
			}
		} else if c, isC := e.(*ssa.Const); isC && c.Value != nil {
			start += c.Int64()
		} else {
			return 0, false, nil, false
		}
	}
	iff, isIf := b.Instrs[len(b.Instrs)-1].(*ssa.If)
	if !isIf {
		return 0, false, nil, false
	}
	cmp, isB := iff.Cond.(*ssa.BinOp)
	if !isB || cmp.Op != token.LSS || cmp.X != cmpX {
		return 0, false, nil, false
	}
	if cl, isCall := cmp.Y.(*ssa.Call); isCall {
		if bi, isBI := cl.Call.Value.(*ssa.Builtin); isBI && bi.Name() == "len" && cl.Call.Args[0] == of {
			return start, true, b, true
		}
	}
	return start, false, b, true
}
