package main

// Engine A: loader and anchor resolver.
//
// The repository under analysis is type-checked with go/packages and lowered to
// go/ssa on every run. Anchors (functions, fields, constants, interface
// methods) are resolved through go/types objects, never by text or position.
// An anchor that cannot be resolved is a failed (undecided) check, not a pass.

import (
	"fmt"
	"go/constant"
	"go/token"
	"go/types"
	"os"
	"sort"
	"strings"

	"golang.org/x/tools/go/packages"
	"golang.org/x/tools/go/ssa"
	"golang.org/x/tools/go/ssa/ssautil"
)

const corebgpPath = "github.com/jwhited/corebgp"

// BuildConfig is one build configuration the repository is analysed under.
type BuildConfig struct {
	GOOS, GOARCH string
	Tags         string
}

func (b BuildConfig) String() string {
	s := b.GOOS + "/" + b.GOARCH
	if b.Tags != "" {
		s += " tags=" + b.Tags
	}
	return s
}

// Prog is the loaded, type-checked and SSA-lowered corebgp package.
type Prog struct {
	Dir   string
	Cfg   BuildConfig
	Fset  *token.FileSet
	Pkg   *packages.Package
	Types *types.Package
	SSA   *ssa.Package
	Prog  *ssa.Program

	// all source functions of package corebgp (methods, generic origins and
	// anonymous functions included), keyed by a stable display name:
	//   "messageFromBytes", "fsm.run", "UpdateDecoder.Decode", "fsm.established$1"
	Funcs   map[string]*ssa.Function
	FuncSeq []*ssa.Function // deterministic order
	nameOf  map[*ssa.Function]string

	AllFuncs    []*ssa.Function // every source function, helpers included
	helperOK    map[*ssa.Function]bool
	sitesOf     map[*ssa.Function][]*ssa.Call
	usedAsValue map[*ssa.Function]bool
	rootWrapper map[string]*ssa.Function       // goroutine root name -> the wrapper closure that is its go target
	ctx         []ssa.Instruction              // virtual call stack of the running deep enumeration (innermost last)
	valueSites  map[*ssa.Function][]valueEntry // functions/closures passed to a helper parameter: where the helper calls them
	declined    map[*ssa.Function]bool         // helpers some context could not inline
	cflow       *chanFlow
	constGlob   map[string]map[int64]int64  // package-level tables that are never written after initialisation
	constStruct map[string]map[string]int64 // package-level structs of constants: variable -> field -> value
	nnGlob      map[string]bool             // package-level variables that always hold a non-nil value
	unresolved  []string                    // anchors that failed to resolve
	modCache    *modInfo
	premiseBusy map[*ssa.Function]bool
}

// repoDir returns the directory of the repository under analysis.
func repoDir() string {
	if d := os.Getenv("CBGP_REPO"); d != "" {
		return d
	}
	return "/repo"
}

func loadEnv(bc BuildConfig) []string {
	env := []string{}
	for _, kv := range os.Environ() {
		k := kv
		if i := strings.IndexByte(kv, '='); i >= 0 {
			k = kv[:i]
		}
		switch k {
		case "GOFLAGS", "GOPROXY", "GOSUMDB", "GOTOOLCHAIN", "GOWORK", "GOOS", "GOARCH", "CGO_ENABLED":
			continue
		}
		env = append(env, kv)
	}
	env = append(env, "GOFLAGS=-mod=mod", "GOPROXY=off", "GOSUMDB=off", "GOTOOLCHAIN=local", "GOWORK=off", "CGO_ENABLED=0")
	if bc.GOOS != "" {
		env = append(env, "GOOS="+bc.GOOS)
	}
	if bc.GOARCH != "" {
		env = append(env, "GOARCH="+bc.GOARCH)
	}
	return env
}

// Load type-checks and builds SSA for the corebgp package in dir.
func Load(dir string, bc BuildConfig) (*Prog, error) {
	cfg := &packages.Config{
		Mode: packages.LoadAllSyntax,
		Dir:  dir,
		Env:  loadEnv(bc),
	}
	if bc.Tags != "" {
		cfg.BuildFlags = []string{"-tags=" + bc.Tags}
	}
	pkgs, err := packages.Load(cfg, ".")
	if err != nil {
		return nil, fmt.Errorf("load: %v", err)
	}
	if len(pkgs) != 1 {
		return nil, fmt.Errorf("load: expected 1 root package, got %d", len(pkgs))
	}
	root := pkgs[0]
	var errs []string
	packages.Visit(pkgs, nil, func(p *packages.Package) {
		for _, e := range p.Errors {
			errs = append(errs, e.Error())
		}
	})
	if len(errs) > 0 {
		return nil, fmt.Errorf("load: type errors: %s", strings.Join(errs, "; "))
	}
	if root.PkgPath != corebgpPath {
		return nil, fmt.Errorf("load: root package is %q, want %q", root.PkgPath, corebgpPath)
	}
	if root.Types == nil || len(root.Syntax) == 0 {
		return nil, fmt.Errorf("load: no syntax for %s", root.PkgPath)
	}
	prog, spkgs := ssautil.AllPackages(pkgs, ssa.BuilderMode(0))
	prog.Build()
	p := &Prog{
		Dir:    dir,
		Cfg:    bc,
		Fset:   root.Fset,
		Pkg:    root,
		Types:  root.Types,
		SSA:    spkgs[0],
		Prog:   prog,
		Funcs:  map[string]*ssa.Function{},
		nameOf: map[*ssa.Function]string{},
	}
	if p.SSA == nil {
		return nil, fmt.Errorf("load: no SSA package")
	}
	p.indexFuncs()
	// helpers that are only called (never used as values, go targets or
	// deferred) are seen through their callers
	p.AllFuncs = append([]*ssa.Function{}, p.FuncSeq...)
	curProg = p
	var roots []*ssa.Function
	for _, fn := range p.AllFuncs {
		top := fn
		for top.Parent() != nil {
			top = top.Parent()
		}
		if !p.absorbed(top) {
			roots = append(roots, fn)
		}
	}
	p.FuncSeq = roots
	if len(p.Funcs) < 50 {
		return nil, fmt.Errorf("load: only %d functions found", len(p.Funcs))
	}
	return p, nil
}

func recvTypeName(t types.Type) string {
	if pt, ok := t.(*types.Pointer); ok {
		t = pt.Elem()
	}
	switch tt := t.(type) {
	case *types.Named:
		return tt.Obj().Name()
	case *types.Alias:
		return tt.Obj().Name()
	}
	return t.String()
}

func (p *Prog) addFunc(name string, fn *ssa.Function) {
	if fn == nil || fn.Blocks == nil {
		return
	}
	if _, dup := p.nameOf[fn]; dup {
		return
	}
	p.Funcs[name] = fn
	p.nameOf[fn] = name
	p.FuncSeq = append(p.FuncSeq, fn)
	for i, a := range fn.AnonFuncs {
		p.addFunc(fmt.Sprintf("%s$%d", name, i+1), a)
	}
}

func (p *Prog) indexFuncs() {
	scope := p.Types.Scope()
	names := scope.Names()
	sort.Strings(names)
	for _, n := range names {
		switch o := scope.Lookup(n).(type) {
		case *types.Func:
			p.addFunc(o.Name(), p.Prog.FuncValue(o))
		case *types.TypeName:
			named, ok := o.Type().(*types.Named)
			if !ok {
				continue
			}
			var ms []*types.Func
			for i := 0; i < named.NumMethods(); i++ {
				ms = append(ms, named.Method(i))
			}
			sort.Slice(ms, func(i, j int) bool { return ms[i].Name() < ms[j].Name() })
			for _, m := range ms {
				p.addFunc(o.Name()+"."+m.Name(), p.Prog.FuncValue(m))
			}
		}
	}
	// package initialiser closures are not needed.
}

// Name returns the display name of a corebgp source function.
func (p *Prog) Name(fn *ssa.Function) string {
	if fn == nil {
		return "<nil>"
	}
	if n, ok := p.nameOf[fn]; ok {
		return n
	}
	if fn.Origin() != nil {
		if n, ok := p.nameOf[fn.Origin()]; ok {
			return n
		}
	}
	return fn.String()
}

// IsLocal reports whether fn is a source function of package corebgp.
func (p *Prog) IsLocal(fn *ssa.Function) bool {
	if fn == nil {
		return false
	}
	if _, ok := p.nameOf[fn]; ok {
		return true
	}
	if o := fn.Origin(); o != nil {
		_, ok := p.nameOf[o]
		return ok
	}
	return false
}

// Fn resolves a function anchor; a missing anchor is recorded and nil returned.
func (p *Prog) Fn(name string) *ssa.Function {
	if f, ok := p.Funcs[name]; ok {
		return f
	}
	if a := p.aka(name); a != name {
		if f, ok := p.Funcs[a]; ok {
			return f
		}
	}
	p.unresolved = append(p.unresolved, "func "+name)
	return nil
}

// spawnAnchors: pinned functions whose whole purpose is to start one
// goroutine. When such a function no longer exists (inlined into its caller)
// the rules written for it are evaluated on the function that now holds the
// go statement, provided that is unique.
var spawnAnchors = map[string]string{"fsm.startReading": "fsm.read"}

// aka maps a pinned function name to the function the rules about it are
// evaluated on in the current tree.
func (p *Prog) aka(name string) string {
	target, ok := spawnAnchors[name]
	if !ok {
		return name
	}
	if _, ok := p.Funcs[name]; ok {
		return name
	}
	host := ""
	for _, s := range p.spawns() {
		if s.Target != nil && p.Name(s.Target) == target {
			if host != "" {
				return name
			}
			host = p.ownerName(s.In)
		}
	}
	if host == "" {
		return name
	}
	return host
}

// constGlobals finds the package-level variables that hold a constant table:
// initialised element-wise (or as a scalar) with constants by the package
// initialiser and never stored to, sliced or address-taken anywhere else.
// Loads of their elements at constant indices are constants for engine V.
func (p *Prog) constGlobals() map[string]map[int64]int64 {
	if p.constGlob != nil {
		return p.constGlob
	}
	out := map[string]map[int64]int64{}
	structs := map[string]map[string]int64{}
	nonConst := map[string]bool{}
	bad := map[string]bool{}
	initFn := p.SSA.Func("init")
	rootGlobal := func(v ssa.Value) *ssa.Global {
		for i := 0; i < 4; i++ {
			switch x := v.(type) {
			case *ssa.IndexAddr:
				v = x.X
			case *ssa.FieldAddr:
				v = x.X
			case *ssa.Global:
				return x
			default:
				return nil
			}
		}
		return nil
	}
	scan := func(fn *ssa.Function, isInit bool) {
		for _, b := range fn.Blocks {
			for _, in := range b.Instrs {
				switch x := in.(type) {
				case *ssa.Store:
					g := rootGlobal(x.Addr)
					if g == nil || g.Pkg != p.SSA {
						break
					}
					// whole-array initialisation from a literal built in a temporary
					if ld, isL := x.Val.(*ssa.UnOp); isInit && isL && ld.Op == token.MUL && x.Addr == ssa.Value(g) {
						if tmp, isA := ld.X.(*ssa.Alloc); isA {
							if _, isStruct := tmp.Type().Underlying().(*types.Pointer).Elem().Underlying().(*types.Struct); isStruct {
								// `var spec = T{code: 3, optional: true}`: built in a
								// temporary, field by field, from constants
								ftab := map[string]int64{}
								okS := true
								for _, r := range *tmp.Referrers() {
									switch u := r.(type) {
									case *ssa.FieldAddr:
										for _, rr := range *u.Referrers() {
											st2, isS := rr.(*ssa.Store)
											if !isS || st2.Addr != ssa.Value(u) {
												okS = false
												continue
											}
											cv, isCV := st2.Val.(*ssa.Const)
											switch {
											case isCV && cv.Value != nil && cv.Value.Kind() == constant.Bool:
												ftab[structFieldName(u)] = b2i(constant.BoolVal(cv.Value))
											case isCV && cv.Value != nil && intTypeInfo(cv.Type()).ok:
												ftab[structFieldName(u)] = cv.Int64()
											default:
												// a field that is not a constant: unknown, the others stand
												ftab[structFieldName(u)] = 0
												nonConst[g.Name()+"."+structFieldName(u)] = true
											}
										}
									case *ssa.UnOp, *ssa.DebugRef:
									default:
										okS = false
									}
								}
								if okS {
									if _, dup := structs[g.Name()]; dup {
										bad[g.Name()] = true
									}
									structs[g.Name()] = ftab
									break
								}
								bad[g.Name()] = true
								break
							}
							tab := map[int64]int64{}
							okT := true
							for _, r := range *tmp.Referrers() {
								switch u := r.(type) {
								case *ssa.IndexAddr:
									ic, okI := u.Index.(*ssa.Const)
									for _, rr := range *u.Referrers() {
										st2, isS := rr.(*ssa.Store)
										if !isS || !okI || ic.Value == nil {
											okT = false
											continue
										}
										cv, isCV := st2.Val.(*ssa.Const)
										if !isCV || cv.Value == nil || !intTypeInfo(cv.Type()).ok {
											okT = false
											continue
										}
										tab[ic.Int64()] = cv.Int64()
									}
								case *ssa.UnOp:
								default:
									okT = false
								}
							}
							if okT && len(tab) > 0 {
								out[g.Name()] = tab
								break
							}
						}
						bad[g.Name()] = true
						break
					}
					cst, isC := x.Val.(*ssa.Const)
					if fa, isFA := x.Addr.(*ssa.FieldAddr); isFA && isInit && isC && cst.Value != nil && fa.X == ssa.Value(g) {
						// a package-level struct of constants: `var spec = T{code: 3, optional: true}`
						var v int64
						okV := true
						switch {
						case cst.Value.Kind() == constant.Bool:
							v = b2i(constant.BoolVal(cst.Value))
						case intTypeInfo(cst.Type()).ok:
							v = cst.Int64()
						default:
							okV = false
						}
						if okV {
							if structs[g.Name()] == nil {
								structs[g.Name()] = map[string]int64{}
							}
							structs[g.Name()][structFieldName(fa)] = v
							break
						}
					}
					if !isInit || !isC || cst.Value == nil || !intTypeInfo(cst.Type()).ok {
						bad[g.Name()] = true
						break
					}
					idx := int64(0)
					if ia, ok := x.Addr.(*ssa.IndexAddr); ok {
						ic, ok := ia.Index.(*ssa.Const)
						if !ok || ic.Value == nil || ia.X != ssa.Value(g) {
							bad[g.Name()] = true
							break
						}
						idx = ic.Int64()
					} else if x.Addr != ssa.Value(g) {
						bad[g.Name()] = true
						break
					}
					if out[g.Name()] == nil {
						out[g.Name()] = map[int64]int64{}
					}
					out[g.Name()][idx] = cst.Int64()
				default:
					// any other use of the global than an element address that is
					// only loaded disqualifies it
					var ops []*ssa.Value
					for _, op := range in.Operands(ops) {
						g, ok := (*op).(*ssa.Global)
						if !ok || g.Pkg != p.SSA {
							continue
						}
						switch u := in.(type) {
						case *ssa.FieldAddr:
							for _, r := range *u.Referrers() {
								if ld, isL := r.(*ssa.UnOp); !isL || ld.Op != token.MUL {
									if st, isS := r.(*ssa.Store); !isS || !isInit || st.Addr != ssa.Value(u) {
										bad[g.Name()] = true
									}
								}
							}
						case *ssa.IndexAddr:
							for _, r := range *u.Referrers() {
								if ld, isL := r.(*ssa.UnOp); !isL || ld.Op != token.MUL {
									if _, isS := r.(*ssa.Store); !isS || !isInit {
										bad[g.Name()] = true
									}
								}
							}
						case *ssa.UnOp:
							if u.Op != token.MUL {
								bad[g.Name()] = true
								break
							}
							// a copy of the table that is only indexed / measured
							for _, r := range *u.Referrers() {
								switch r.(type) {
								case *ssa.Index, *ssa.DebugRef:
								default:
									if _, isArr := u.Type().Underlying().(*types.Array); isArr {
										bad[g.Name()] = true
									}
								}
							}
						default:
							bad[g.Name()] = true
						}
					}
				}
			}
		}
	}
	if initFn != nil {
		scan(initFn, true)
	}
	for _, fn := range p.AllFuncs {
		scan(fn, false)
	}
	for n := range bad {
		delete(out, n)
		delete(structs, n)
	}
	for k := range nonConst {
		g, f, _ := strings.Cut(k, ".")
		if structs[g] != nil {
			delete(structs[g], f)
			structs[g]["\x00"+f] = 1 // mentioned, not constant
		}
	}
	p.constGlob = out
	p.constStruct = structs
	return out
}

// constStructField: the constant a field of a package-level struct holds for
// the whole run (initialised by the package initialiser from constants, the
// variable never written, never address-taken); fields the initialiser does
// not mention hold the zero value.
func (p *Prog) constStructField(global, field string, typ types.Type) (int64, bool) {
	p.constGlobals()
	tab, ok := p.constStruct[global]
	if !ok {
		return 0, false
	}
	if v, has := tab[field]; has {
		return v, true
	}
	if tab["\x00"+field] == 1 {
		return 0, false
	}
	if typ != nil && (isBoolType(typ) || intTypeInfo(typ).ok) {
		return 0, true
	}
	return 0, false
}

// nonNilGlobals: package-level variables initialised once, by the package
// initialiser, with a value that is never nil (errors.New, fmt.Errorf, a
// composite literal's address) and never stored to anywhere else
// (ErrServerClosed and friends).
func (p *Prog) nonNilGlobals() map[string]bool {
	if p.nnGlob != nil {
		return p.nnGlob
	}
	out := map[string]bool{}
	bad := map[string]bool{}
	scan := func(fn *ssa.Function, isInit bool) {
		for _, b := range fn.Blocks {
			for _, in := range b.Instrs {
				st, ok := in.(*ssa.Store)
				if !ok {
					continue
				}
				g, ok := st.Addr.(*ssa.Global)
				if !ok || g.Pkg != p.SSA {
					continue
				}
				if !isInit {
					bad[g.Name()] = true
					continue
				}
				nn := false
				switch v := st.Val.(type) {
				case *ssa.Call:
					if f, isF := v.Call.Value.(*ssa.Function); isF {
						switch f.String() {
						case "errors.New", "fmt.Errorf":
							nn = true
						}
					}
				case *ssa.Alloc:
					nn = true
				case *ssa.MakeInterface:
					if _, isA := v.X.(*ssa.Alloc); isA {
						nn = true
					}
				}
				if nn && !out[g.Name()] {
					out[g.Name()] = true
				} else {
					bad[g.Name()] = true
				}
			}
		}
	}
	if initFn := p.SSA.Func("init"); initFn != nil {
		scan(initFn, true)
	}
	for _, fn := range p.AllFuncs {
		scan(fn, false)
	}
	for n := range bad {
		delete(out, n)
	}
	p.nnGlob = out
	return out
}

// existing filters a list of function names to those present (helpers the
// rules treat as optional: they may have been inlined into their callers).
func (p *Prog) existing(names []string) []string {
	var out []string
	for _, n := range names {
		if p.HasFn(n) {
			out = append(out, n)
		}
	}
	return out
}

// HasFn reports whether a function exists without recording a failure.
func (p *Prog) HasFn(name string) bool { _, ok := p.Funcs[name]; return ok }

// Named resolves a named type of package corebgp.
func (p *Prog) Named(name string) *types.Named {
	o := p.Types.Scope().Lookup(name)
	if tn, ok := o.(*types.TypeName); ok {
		if n, ok := tn.Type().(*types.Named); ok {
			return n
		}
	}
	p.unresolved = append(p.unresolved, "type "+name)
	return nil
}

// Field resolves a struct field object "Type.field".
func (p *Prog) Field(typ, field string) *types.Var {
	n := p.Named(typ)
	if n == nil {
		return nil
	}
	st, ok := n.Underlying().(*types.Struct)
	if !ok {
		p.unresolved = append(p.unresolved, "struct "+typ)
		return nil
	}
	for i := 0; i < st.NumFields(); i++ {
		if st.Field(i).Name() == field {
			return st.Field(i)
		}
	}
	p.unresolved = append(p.unresolved, "field "+typ+"."+field)
	return nil
}

// ConstInt resolves an integer constant of package corebgp.
func (p *Prog) ConstInt(name string) (int64, bool) {
	o := p.Types.Scope().Lookup(name)
	c, ok := o.(*types.Const)
	if !ok {
		p.unresolved = append(p.unresolved, "const "+name)
		return 0, false
	}
	v, exact := constant.Int64Val(constant.ToInt(c.Val()))
	if !exact {
		p.unresolved = append(p.unresolved, "const(int) "+name)
		return 0, false
	}
	return v, true
}

// MustConst is ConstInt with the failure recorded and 0 returned.
func (p *Prog) MustConst(name string) int64 {
	v, _ := p.ConstInt(name)
	return v
}

// IfaceMethod resolves a method of an interface type of package corebgp.
func (p *Prog) IfaceMethod(iface, method string) *types.Func {
	n := p.Named(iface)
	if n == nil {
		return nil
	}
	it, ok := n.Underlying().(*types.Interface)
	if !ok {
		p.unresolved = append(p.unresolved, "interface "+iface)
		return nil
	}
	for i := 0; i < it.NumMethods(); i++ {
		if it.Method(i).Name() == method {
			return it.Method(i)
		}
	}
	p.unresolved = append(p.unresolved, "method "+iface+"."+method)
	return nil
}

// Pos renders a position relative to the repository root.
func (p *Prog) Pos(pos token.Pos) string {
	if !pos.IsValid() {
		return "-"
	}
	ps := p.Fset.Position(pos)
	f := ps.Filename
	if strings.HasPrefix(f, p.Dir+"/") {
		f = f[len(p.Dir)+1:]
	}
	return fmt.Sprintf("%s:%d", f, ps.Line)
}

// InstrPos returns the best available position for an instruction.
func (p *Prog) InstrPos(in ssa.Instruction) string {
	if in == nil {
		return "-"
	}
	if in.Pos().IsValid() {
		return p.Pos(in.Pos())
	}
	// fall back to neighbouring instructions of the block
	b := in.Block()
	if b != nil {
		for _, x := range b.Instrs {
			if x.Pos().IsValid() {
				return p.Pos(x.Pos()) + "~"
			}
		}
	}
	if in.Parent() != nil && in.Parent().Pos().IsValid() {
		return p.Pos(in.Parent().Pos()) + "~"
	}
	return "-"
}

// HasConst reports whether package corebgp declares the named constant.
func (p *Prog) HasConst(name string) bool {
	_, ok := p.Types.Scope().Lookup(name).(*types.Const)
	return ok
}

// dynTypeOf resolves a type key of the package ("*openMessage", "updateMessage")
// to the type.
func (p *Prog) dynTypeOf(key string) types.Type {
	ptr := strings.HasPrefix(key, "*")
	o := p.Types.Scope().Lookup(strings.TrimPrefix(key, "*"))
	tn, ok := o.(*types.TypeName)
	if !ok {
		return nil
	}
	if ptr {
		return types.NewPointer(tn.Type())
	}
	return tn.Type()
}

// assertAnswer decides the type assertion `x.(asserted)` for a value whose
// dynamic type is assumed to be dyn (is == true) or assumed not to be dyn
// (is == false). asserted may be a concrete type or a package interface: a
// value of dynamic type T passes an assertion to interface I iff T implements
// I; a value known not to be T fails it when T is I's only implementation in
// the package (types outside cannot implement an interface with unexported
// methods, and the value's static interface is satisfied by package types only).
func (p *Prog) assertAnswer(asserted, dyn string, is bool) (ISet, bool) {
	if asserted == dyn {
		return isConst(b2i(is)), true
	}
	it := p.dynTypeOf(asserted)
	if it == nil {
		return nil, false
	}
	iface, ok := it.Underlying().(*types.Interface)
	if !ok {
		if is {
			return isConst(0), true // another concrete type
		}
		return nil, false
	}
	dt := p.dynTypeOf(dyn)
	if dt == nil {
		return nil, false
	}
	impl := types.Implements(dt, iface)
	if is {
		return isConst(b2i(impl)), true
	}
	if !impl {
		return nil, false
	}
	// not dyn: fails when nothing else in the package implements the interface
	unexported := false
	for i := 0; i < iface.NumMethods(); i++ {
		if !iface.Method(i).Exported() {
			unexported = true
		}
	}
	if !unexported {
		return nil, false
	}
	for _, n := range p.Types.Scope().Names() {
		tn, ok := p.Types.Scope().Lookup(n).(*types.TypeName)
		if !ok || tn.IsAlias() {
			continue
		}
		if _, isI := tn.Type().Underlying().(*types.Interface); isI {
			continue
		}
		for _, t := range []types.Type{tn.Type(), types.NewPointer(tn.Type())} {
			if types.Identical(t, dt) {
				continue
			}
			if types.Implements(t, iface) {
				return nil, false
			}
		}
	}
	return isConst(0), true
}
