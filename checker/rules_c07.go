package main

// C07 — connection collision resolution (RFC 4271 §6.8), and the
// peer-manager approval rules C01 shares with it.

import (
	"fmt"
	"go/types"
	"sort"
	"strings"

	"golang.org/x/tools/go/ssa"
)

func init() { register("C07", checkC07) }

// hstScenario is one assumption under which handleStateTransition is analysed.
type hstScenario struct {
	name string
	i    int64
	hook func(e *Expr) (ISet, bool)
}

// hstEffects describes what is reachable in handleStateTransition.
type hstEffects struct {
	a     *Analysis
	calls map[string][]int64 // "peer.disableFSM" -> constant first arguments of reachable call sites (-1 unknown)
	sites map[string][]ssa.CallInstruction
	sel   []*ssa.Select
}

func (c *Check) runHST(sc hstScenario) *hstEffects {
	p := c.P
	fn := p.Fn("peer.handleStateTransition")
	if fn == nil {
		return nil
	}
	a := NewAnalysis(p, fn)
	a.AtomHook = sc.hook
	iName := paramName(fn, 1)
	a.Init = func(a *Analysis, st *State) {
		st.rng[mkLeaf("param", iName, fn.Params[1].Type()).Key] = isConst(sc.i)
	}
	a.Run()
	ef := &hstEffects{a: a, calls: map[string][]int64{}, sites: map[string][]ssa.CallInstruction{}}
	if len(a.Undecided) > 0 {
		return ef
	}
	allInstrs(fn, func(in ssa.Instruction) {
		if s, ok := in.(*ssa.Select); ok && len(a.At[in]) > 0 {
			ef.sel = append(ef.sel, s)
		}
		ci, ok := in.(ssa.CallInstruction)
		if !ok || len(a.At[in]) == 0 {
			return
		}
		d := p.calleeDesc(ci)
		if !strings.HasPrefix(d, "peer.") {
			return
		}
		for _, st := range a.At[in] {
			args := a.argExprs(st, nil, ci.Common())
			v := int64(-1)
			if len(args) > 1 {
				if cv, isC := st.rangeOf(args[1]).IsConst(); isC {
					v = cv
				}
			}
			ef.calls[d] = append(ef.calls[d], v)
			ef.sites[d] = append(ef.sites[d], ci)
		}
	})
	return ef
}

func hasArg(vs []int64, v int64) bool {
	for _, x := range vs {
		if x == v {
			return true
		}
	}
	return false
}

func onlyArg(vs []int64, v int64) bool {
	for _, x := range vs {
		if x != v {
			return false
		}
	}
	return true
}

// peerHooks builds the pattern assumptions used for handleStateTransition.
type peerHooks struct {
	tTo, tFrom   func(*Expr) bool
	otherState   func(*Expr) bool
	remoteID, id func(*Expr) bool
	lAS, rAS     func(*Expr) bool
}

func (c *Check) peerHooks(fn *ssa.Function) peerHooks {
	tName := paramName(fn, 2)
	isT := func(f string) func(*Expr) bool {
		return func(e *Expr) bool { return isFieldVal(e, f) && isParamNamed(e.Args[0], tName) }
	}
	return peerHooks{
		tTo:   isT("to"),
		tFrom: isT("from"),
		otherState: func(e *Expr) bool {
			if e.Op != "ld" || e.Args[0].Op != "ia" {
				return false
			}
			b := e.Args[0].Args[0]
			if b.Op == "arr" {
				b = b.Args[0]
			}
			return b.Op == "fa" && b.S == "fsmState"
		},
		remoteID: func(e *Expr) bool { return isFieldRead(e, "remoteID") },
		id:       func(e *Expr) bool { return isFieldRead(e, "id") },
		lAS:      func(e *Expr) bool { return isFieldRead(e, "LocalAS") },
		rAS:      func(e *Expr) bool { return isFieldRead(e, "RemoteAS") },
	}
}

func checkC07(c *Check) {
	p := c.P
	c.rendezvousChannels("C07.1 manager-sees-every-request", "transitionCh")
	c.readerHandoffRule("C07.4 loser-reader-joined")
	c.peerManagerContracts("C07.5 manager-effects")
	c.fsmContracts("C07.3 fsm-effects")
	c.validateArguments("C07.1 equal-identifiers-admitted")
	c.inboundAdmission("C07.1 late-inbound-admitted")
	c.capturedVarDiscipline("C07.1 every-listener-served")
	c.specConstants("C07.3 spec-constants", "NOTIF_CODE_CEASE")
	fn := p.Fn("peer.handleStateTransition")
	if fn == nil || len(fn.Params) != 3 {
		c.undecided("C07.anchor", "peer.handleStateTransition", "signature", "-", "expected (p, i, t)")
		return
	}
	for _, f := range []string{"fsms", "fsmState", "id", "transitionCh", "closeCh"} {
		p.Field("peer", f)
	}
	p.Field("fsm", "remoteID")
	p.Field("stateTransition", "to")
	c.cleanupContract("C07.4 loser-is-closed")
	out, in := p.MustConst("out"), p.MustConst("in")
	openConfirm, established := p.MustConst("openConfirmState"), p.MustConst("establishedState")
	h := c.peerHooks(fn)
	pos := p.Pos(fn.Pos())
	rule := "C07.1 victim-table"
	type dom struct {
		name  string
		local bool
		hook  func(e *Expr) (ISet, bool)
	}
	doms := []dom{
		{"local id > remote id", true, relHook(h.id, h.remoteID, ">")},
		{"local id < remote id", false, relHook(h.id, h.remoteID, "<")},
		{"ids equal, local AS > remote AS", true, hooks(relHook(h.id, h.remoteID, "=="), relHook(h.lAS, h.rAS, ">"))},
		{"ids equal, local AS < remote AS", false, hooks(relHook(h.id, h.remoteID, "=="), relHook(h.lAS, h.rAS, "<"))},
	}
	for _, d := range doms {
		for _, i := range []int64{out, in} {
			other := out + in - i
			name := fmt.Sprintf("%s, second to reach OpenConfirm: %s", d.name, map[int64]string{out: "out", in: "in"}[i])
			ef := c.runHST(hstScenario{name: name, i: i, hook: hooks(rangeHook(h.tTo, isConst(openConfirm)), rangeHook(h.tFrom, isConst(p.MustConst("openSentState"))),
				rangeHook(h.otherState, isConst(openConfirm)), d.hook)})
			if ef == nil || len(ef.a.Undecided) > 0 {
				c.undecided(rule, "peer.handleStateTransition", name, pos, "value-set analysis undecided")
				continue
			}
			// connection i was initiated by the local speaker iff i == out
			survivorIsI := d.local == (i == out)
			var probs []string
			if survivorIsI {
				// kill other: a select offering the kill to the other FSM; in
				// its kill branch disableFSM(other) then approval of i
				if len(ef.sel) != 1 {
					probs = append(probs, fmt.Sprintf("expected the kill select to be reachable (found %d selects)", len(ef.sel)))
				}
				if !hasArg(ef.calls["peer.disableFSM"], other) {
					probs = append(probs, "disableFSM(other) is not reachable: the losing connection is never closed")
				}
				if !hasArg(ef.calls["peer.sendTransitionToFSM"], i) || !onlyArg(ef.calls["peer.sendTransitionToFSM"], i) {
					probs = append(probs, "approval must go to the surviving FSM only")
				}
				// disableFSM(i) only in the race branch where the other FSM was
				// already Established
				for k, v := range ef.calls["peer.disableFSM"] {
					if v != i {
						continue
					}
					site := ef.sites["peer.disableFSM"][k]
					okRace := false
					for _, st := range ef.a.At[site.(ssa.Instruction)] {
						for key, r := range st.rng {
							if strings.Contains(key, "fv:to:") && !strings.Contains(key, "param:") {
								if cv, isC := r.IsConst(); isC && cv == established {
									okRace = true
								}
							}
						}
						// or: comparison otherT.to == established known true
						for key, r := range st.rng {
							if strings.HasPrefix(key, "bin:==") && strings.Contains(key, "fv:to:") && strings.Contains(key, fmt.Sprintf("const:%d", established)) {
								if cv, isC := r.IsConst(); isC && cv == 1 {
									okRace = true
								}
							}
						}
					}
					if !okRace {
						probs = append(probs, "the survivor is disabled on a path where the other FSM is not known to be Established at "+p.InstrPos(site.(ssa.Instruction)))
					}
				}
			} else {
				// kill self
				if len(ef.sel) != 0 {
					probs = append(probs, "no kill attempt on the other (surviving) connection may be reachable")
				}
				if !hasArg(ef.calls["peer.disableFSM"], i) || !onlyArg(ef.calls["peer.disableFSM"], i) {
					probs = append(probs, fmt.Sprintf("exactly disableFSM(self) must be reachable; reachable disableFSM arguments: %v", ef.calls["peer.disableFSM"]))
				}
				if len(ef.calls["peer.sendTransitionToFSM"]) != 0 {
					probs = append(probs, "the losing FSM must not be approved")
				}
			}
			c.require(len(probs) == 0, rule, "peer.handleStateTransition", name, pos, strings.Join(probs, "; "))
		}
	}

	// C07.2 the kill races: the select offers the kill on the other FSM's
	// closeCh and also listens to the other FSM's transition channel and to
	// the peer's closeCh
	nsel := 0
	allInstrs(fn, func(x ssa.Instruction) {
		s, ok := x.(*ssa.Select)
		if !ok {
			return
		}
		nsel++
		var sendClose, recvTrans, recvClose bool
		for _, ss := range s.States {
			n := chanFieldName(ss.Chan)
			switch {
			case ss.Send != nil && n == "closeCh":
				sendClose = true
			case ss.Send == nil && n == "closeCh":
				recvClose = true
			case ss.Send == nil && chanThroughField(ss.Chan, "transitionCh"):
				recvTrans = true
			}
		}
		c.require(s.Blocking && sendClose && recvTrans && recvClose, "C07.2 kill-races", "peer.handleStateTransition", "kill select", p.InstrPos(x),
			"the kill is a value sent on the other FSM's closeCh in a select that also receives the other FSM's transition and the peer's closeCh")
	})
	c.floor("C07.2 kill-races", nsel, 1, "selects in handleStateTransition")
	// race branch: other already Established => disable self, never approve; else approve; both then handle the other transition
	for _, v := range []struct {
		name string
		set  ISet
		est  bool
	}{{"other FSM became Established first", isConst(established), true}, {"other FSM went down", isRange(0, 5), false}} {
		for _, i := range []int64{out, in} {
			other := out + in - i
			otherTo := func(e *Expr) bool { return isFieldVal(e, "to") && !isParamNamed(e.Args[0], paramName(fn, 2)) }
			local := i == out
			dh := relHook(h.id, h.remoteID, ">")
			if !local {
				dh = relHook(h.id, h.remoteID, "<")
			}
			ef := c.runHST(hstScenario{i: i, hook: hooks(rangeHook(h.tTo, isConst(openConfirm)), rangeHook(h.tFrom, isConst(p.MustConst("openSentState"))),
				rangeHook(h.otherState, isConst(openConfirm)), dh, rangeHook(otherTo, v.set),
				func(e *Expr) (ISet, bool) { // force the race branch of the select
					if e.Op == "ex" && len(e.Args) == 2 && e.Args[0].Op == "val" && e.Typ != nil && e.Typ.String() == "int" {
						return isConst(2), true
					}
					return nil, false
				})})
			name := fmt.Sprintf("race: %s (i=%d)", v.name, i)
			if ef == nil || len(ef.a.Undecided) > 0 {
				c.undecided("C07.2 kill-races", "peer.handleStateTransition", name, pos, "undecided")
				continue
			}
			var probs []string
			if !hasArg(ef.calls["peer.handleStateTransition"], other) {
				probs = append(probs, "the other FSM's transition must be handled afterwards")
			}
			if v.est {
				if !hasArg(ef.calls["peer.disableFSM"], i) || len(ef.calls["peer.sendTransitionToFSM"]) != 0 {
					probs = append(probs, "an Established other FSM wins: disable self, no approval")
				}
			} else {
				if !hasArg(ef.calls["peer.sendTransitionToFSM"], i) || hasArg(ef.calls["peer.disableFSM"], i) {
					probs = append(probs, "the other FSM went down: approve this one, do not disable it")
				}
			}
			c.require(len(probs) == 0, "C07.2 kill-races", "peer.handleStateTransition", name, pos, strings.Join(probs, "; "))
		}
	}
	c.establishedBeatsInProgress("C07.4 established-wins")
	c.midTransitionCease("C07.3 cease-to-loser")
	c.disableEnablePairing("C07.5 fsm-table-consistent")
	c.dampPeerRule("C07.6 cease-never-damps")
}

// chanThroughField: the channel value was loaded through the named array/field.
func chanThroughField(v ssa.Value, field string) bool {
	for i := 0; i < 6; i++ {
		switch x := v.(type) {
		case *ssa.UnOp:
			v = x.X
		case *ssa.IndexAddr:
			v = x.X
		case *ssa.FieldAddr:
			return structFieldName(x) == field
		default:
			return false
		}
	}
	return false
}

// establishedBeatsInProgress: approval of Established disables the other FSM
// first; an OpenConfirm request while the other FSM is Established kills the
// requester (C01.2, C01.3, C07.4).
func (c *Check) establishedBeatsInProgress(rule string) {
	p := c.P
	fn := p.Fn("peer.handleStateTransition")
	if fn == nil {
		return
	}
	h := c.peerHooks(fn)
	out, in := p.MustConst("out"), p.MustConst("in")
	openConfirm, established := p.MustConst("openConfirmState"), p.MustConst("establishedState")
	pos := p.Pos(fn.Pos())
	for _, i := range []int64{out, in} {
		other := out + in - i
		ef := c.runHST(hstScenario{i: i, hook: hooks(rangeHook(h.tTo, isConst(established)), rangeHook(h.tFrom, isConst(openConfirm)))})
		name := fmt.Sprintf("request Established (i=%d)", i)
		if ef == nil || len(ef.a.Undecided) > 0 {
			c.undecided(rule, "peer.handleStateTransition", name, pos, "undecided")
			continue
		}
		var probs []string
		st := ef.sites["peer.sendTransitionToFSM"]
		if len(st) == 0 || !onlyArg(ef.calls["peer.sendTransitionToFSM"], i) {
			probs = append(probs, "Established must be approved for the requesting FSM")
		}
		// every approval site is dominated by disableFSM(other)
		for _, s := range st {
			dominated := false
			for k, d := range ef.sites["peer.disableFSM"] {
				if ef.calls["peer.disableFSM"][k] == other && instrDominates(d.(ssa.Instruction), s.(ssa.Instruction)) {
					dominated = true
				}
			}
			if !dominated {
				probs = append(probs, "approval of Established at "+p.InstrPos(s.(ssa.Instruction))+" is not preceded by disableFSM(other) on every path")
			}
		}
		if hasArg(ef.calls["peer.disableFSM"], i) {
			probs = append(probs, "the FSM entering Established must not be disabled")
		}
		c.require(len(probs) == 0, rule, "peer.handleStateTransition", name, pos, strings.Join(probs, "; "))

		ef2 := c.runHST(hstScenario{i: i, hook: hooks(rangeHook(h.tTo, isConst(openConfirm)), rangeHook(h.tFrom, isConst(p.MustConst("openSentState"))), rangeHook(h.otherState, isConst(established)))})
		name = fmt.Sprintf("request OpenConfirm while other Established (i=%d)", i)
		if ef2 == nil || len(ef2.a.Undecided) > 0 {
			c.undecided(rule, "peer.handleStateTransition", name, pos, "undecided")
			continue
		}
		ok := hasArg(ef2.calls["peer.disableFSM"], i) && onlyArg(ef2.calls["peer.disableFSM"], i) && len(ef2.calls["peer.sendTransitionToFSM"]) == 0 && len(ef2.sel) == 0
		c.require(ok, rule, "peer.handleStateTransition", name, pos, "the requester is disabled, nothing is approved, the Established FSM is untouched")
	}
	c.disableStopsAndJoins(rule)
	// run(): doneCh is closed by the outermost defer after cleanup()
	if r := p.Fn("fsm.run"); r != nil {
		ok := false
		allInstrs(r, func(x ssa.Instruction) {
			d, isD := x.(*ssa.Defer)
			if !isD || x.Block().Index != 0 {
				return
			}
			t := p.staticLocalCallee(d)
			if t == nil {
				return
			}
			var cl, cu ssa.Instruction
			allInstrs(t, func(y ssa.Instruction) {
				if ci, isC := y.(ssa.CallInstruction); isC {
					switch p.calleeDesc(ci) {
					case "builtin:close":
						if chanFieldName(ci.Common().Args[0]) == "doneCh" {
							cl = y
						}
					case "fsm.cleanup":
						cu = y
					}
				}
			})
			if cl != nil && cu != nil && instrDominates(cu, cl) {
				ok = true
			}
		})
		c.require(ok, rule, "fsm.run", "deferred cleanup then close(doneCh)", p.Pos(r.Pos()), "the FSM goroutine's first defer runs cleanup() and then closes doneCh")
	}
}

// midTransitionCease: an FSM disabled while waiting for approval, with a live
// connection in OpenSent or later, sends Cease; and no return of run()
// bypasses that decision.
func (c *Check) midTransitionCease(rule string) {
	p := c.P
	fn := p.Fn("fsm.run")
	if fn == nil {
		return
	}
	sends := p.callsIn(fn, descIs("fsm.sendNotification"))
	c.require(len(sends) == 1, rule, "fsm.run", "one Cease site", p.Pos(fn.Pos()), fmt.Sprintf("run() sends a notification at exactly one site (found %d)", len(sends)))
	if len(sends) != 1 {
		return
	}
	a := NewAnalysis(p, fn)
	a.Run()
	openSent := p.MustConst("openSentState")
	cease := p.MustConst("NOTIF_CODE_CEASE")
	site := sends[0].(ssa.Instruction)
	for _, st := range a.At[site] {
		args := a.argExprs(st, nil, sends[0].Common())
		nv, ok := p.notifAt(st, args[1])
		okC := ok
		if ok {
			cc, isC := nv.Code.IsConst()
			okC = isC && cc == cease
		}
		c.require(okC, rule, "fsm.run", "Cease notification", p.InstrPos(site), "the notification sent when disabled mid-transition is Cease (6,0)")
		// value sets at the site, read through the guard chain's own loads
		var from ISet
		connNN := isRange(0, 1)
		for b := site.Block().Idom(); b != nil; b = b.Idom() {
			iff, isIf := b.Instrs[len(b.Instrs)-1].(*ssa.If)
			if !isIf {
				continue
			}
			bo, isB := iff.Cond.(*ssa.BinOp)
			if !isB {
				continue
			}
			for _, opnd := range []ssa.Value{bo.X, bo.Y} {
				ld, isL := opnd.(*ssa.UnOp)
				if !isL {
					continue
				}
				fa, isF := ld.X.(*ssa.FieldAddr)
				if !isF {
					continue
				}
				switch structFieldName(fa) {
				case "from":
					if from == nil {
						from = st.rangeOf(a.exprOf(st, nil, ld))
					}
				case "conn":
					connNN = st.nonNil(a.exprOf(st, nil, ld))
				}
			}
			if len(b.Preds) > 1 {
				break
			}
		}
		if from == nil {
			// the decision is not a chain of field comparisons in run() itself
			// (a predicate helper): what it decides is checked by the event
			// contracts "disabled mid-transition …" on fsm.run (fsmContracts)
			c.ok(rule, "fsm.run", "from-state set at Cease", p.InstrPos(site), "decision delegated to a helper: covered by the mid-transition event contracts")
			continue
		}
		okF := from.Equal(isRange(openSent, 255))
		c.require(okF, rule, "fsm.run", "from-state set at Cease", p.InstrPos(site), fmt.Sprintf("Cease is sent exactly for from ∈ [openSent(%d),…]; computed %v", openSent, from))
		cv, isC := connNN.IsConst()
		c.require(isC && cv == 1, rule, "fsm.run", "connection present at Cease", p.InstrPos(site), "Cease is written only when a connection exists")
	}
	if len(a.At[site]) == 0 {
		c.fail(rule, "fsm.run", "Cease site reachable", p.InstrPos(site), "unreachable")
	}
	// no return bypasses the decision: every return is dominated by the first
	// condition of the guard chain (the block that starts deciding Cease)
	var guard *ssa.BasicBlock
	for b := site.Block(); b != nil; b = b.Idom() {
		// climb the chain of single-condition blocks ending in If that lead to the send
		if _, isIf := b.Instrs[len(b.Instrs)-1].(*ssa.If); isIf && b != site.Block() {
			guard = b
			// stop at the block that is the join after the select (has >1 preds)
			if len(b.Preds) > 1 {
				break
			}
		}
	}
	nret := 0
	allInstrs(fn, func(x ssa.Instruction) {
		if r, ok := x.(*ssa.Return); ok {
			if r.Block().Index != 0 && len(r.Block().Preds) == 0 {
				return // synthetic recover block
			}
			if r.Parent() != fn {
				return // a helper's return is not a return of run()
			}
			nret++
			ok2 := guard != nil && guard.Dominates(r.Block())
			if !ok2 && guard != nil {
				// the decision may be one call of a predicate helper: the block
				// holding that call starts the decision
				for b := site.Block().Idom(); b != nil; b = b.Idom() {
					for _, in := range b.Instrs {
						if p.helperCallee(in) != nil && b.Dominates(r.Block()) {
							ok2 = true
						}
					}
				}
			}
			c.require(ok2, rule, "fsm.run", "return passes the Cease decision", p.InstrPos(r), "every return of run() is reached through the mid-transition Cease decision (no early return from the rendezvous)")
		}
	})
	c.floor(rule, nret, 1, "returns of fsm.run")
}

// disableEnablePairing: fsms[i] and fsmState[i] are updated together.
func (c *Check) disableEnablePairing(rule string) {
	p := c.P
	disabled := p.MustConst("disabledState")
	check := func(fnName string, wantNil bool) {
		fn := p.Fn(fnName)
		if fn == nil {
			return
		}
		a := NewAnalysis(p, fn)
		a.Run()
		n := 0
		var instrs []ssa.Instruction
		allInstrs(fn, func(in ssa.Instruction) { instrs = append(instrs, in) })
		{
			for _, in := range instrs {
				st, ok := in.(*ssa.Store)
				if !ok {
					continue
				}
				ia, ok := st.Addr.(*ssa.IndexAddr)
				if !ok {
					continue
				}
				fa, ok := ia.X.(*ssa.FieldAddr)
				if !ok || structFieldName(fa) != "fsms" {
					continue
				}
				n++
				// every path from this store to a return stores fsmState[same index] = disabledState
				pd := newPostDom(fn)
				paired := false
				allInstrs(fn, func(y ssa.Instruction) {
					s2, ok := y.(*ssa.Store)
					if !ok {
						return
					}
					ia2, ok := s2.Addr.(*ssa.IndexAddr)
					if !ok || ia2.Index != ia.Index {
						return
					}
					fa2, ok := ia2.X.(*ssa.FieldAddr)
					if !ok || structFieldName(fa2) != "fsmState" {
						return
					}
					if cst, ok := s2.Val.(*ssa.Const); ok && cst.Value != nil && cst.Int64() == disabled && pd.instrPostDominates(s2, st) {
						paired = true
					}
				})
				c.require(paired, rule, fnName, "fsms[i] store paired with fsmState[i]=disabled", p.InstrPos(st),
					"whenever the FSM table entry changes, the recorded state of that slot is reset to disabled on every path (a stale state makes the collision logic act on a missing FSM)")
			}
		}
		c.floor(rule, n, 1, "stores to peer.fsms in "+fnName)
		_ = a
	}
	check("peer.disableFSM", true)
	check("peer.enableFSM", false)
	// fsmState is otherwise written only by sendTransitionToFSM (approval) and newPeer
	writers := map[string]bool{}
	for _, fn := range p.FuncSeq {
		for _, acc := range p.fieldAccesses(fn) {
			if acc.Struct == "peer" && acc.Field == "fsmState" && acc.Write {
				writers[p.Name(fn)] = true
			}
		}
	}
	var ws []string
	for w := range writers {
		ws = append(ws, w)
	}
	sort.Strings(ws)
	ok := true
	for _, w := range ws {
		switch w {
		case "peer.disableFSM", "peer.enableFSM", "peer.sendTransitionToFSM", "newPeer":
		default:
			ok = false
		}
	}
	c.require(ok, rule, "", "writers of peer.fsmState", "-", fmt.Sprintf("fsmState is written only on approval, disable, enable and construction: %v", ws))
	_ = types.Typ
}

// disableStopsAndJoins: whenever the FSM table holds an FSM, disableFSM stops
// it and waits for its goroutine (fsm.stop receives doneCh): an FSM that
// exists is never skipped by shutdown, whatever the recorded state says.
func (c *Check) disableStopsAndJoins(rule string) {
	p := c.P
	// disableFSM stops the FSM and waits for its goroutine
	if d := p.Fn("peer.disableFSM"); d != nil {
		a := NewAnalysis(p, d)
		a.AtomHook = func(e *Expr) (ISet, bool) {
			if e.Op == "nn" && e.Args[0].Op == "ld" && strings.Contains(e.Args[0].Key, "fa:fsms") {
				return isConst(1), true
			}
			return nil, false
		}
		a.Run()
		ok := len(a.Returns) > 0
		for _, r := range a.Returns {
			if !r.State.must["call:fsm.stop"] {
				ok = false
			}
		}
		c.require(ok, rule, "peer.disableFSM", "stop and join", p.Pos(d.Pos()), "for an existing FSM disableFSM calls fsm.stop() (which joins the goroutine) on every path")
	}
	if s := p.Fn("fsm.stop"); s != nil {
		pd := newPostDom(s)
		ok := false
		allInstrs(s, func(x ssa.Instruction) {
			if u, isU := x.(*ssa.UnOp); isU && u.Op.String() == "<-" && chanFieldName(u.X) == "doneCh" && pd.onEveryReturnPath(x) {
				ok = true
			}
		})
		c.require(ok, rule, "fsm.stop", "waits doneCh", p.Pos(s.Pos()), "stop() receives from doneCh on every path")
	}
}
