package main

// Engine V (part 1): canonical symbolic expressions ("terms") built from SSA
// values. Two SSA values with the same term denote the same run-time value at
// the program points where both are live (loads are versioned, see absint.go).

import (
	"fmt"
	"go/constant"
	"go/token"
	"go/types"
	"sort"
	"strings"
)

// Expr is an immutable term. Key is its canonical text.
type Expr struct {
	Op   string // see constructors below
	Args []*Expr
	C    int64      // for "const" (ints, bools as 0/1), field index for "fv"
	S    string     // symbol: leaf name, field name, type name, string const
	Typ  types.Type // static Go type (may be nil for synthetic terms)
	Aux  string     // not part of the key: owning struct type of a field address
	Key  string
}

func (e *Expr) String() string {
	if e == nil {
		return "<nil>"
	}
	return e.Key
}

func mk(op string, typ types.Type, s string, c int64, args ...*Expr) *Expr {
	e := &Expr{Op: op, Args: args, C: c, S: s, Typ: typ}
	var sb strings.Builder
	sb.WriteString(op)
	if s != "" {
		sb.WriteString(":" + s)
	}
	if op == "const" || op == "fv" {
		fmt.Fprintf(&sb, ":%d", c)
	}
	if len(args) > 0 {
		sb.WriteString("(")
		for i, a := range args {
			if i > 0 {
				sb.WriteString(",")
			}
			if a == nil {
				sb.WriteString("_")
			} else {
				sb.WriteString(a.Key)
			}
		}
		sb.WriteString(")")
	}
	e.Key = sb.String()
	return e
}

// ---- constructors -------------------------------------------------------

func mkConst(c int64, typ types.Type) *Expr { return mk("const", typ, "", c) }
func mkBool(b bool) *Expr {
	if b {
		return mk("const", types.Typ[types.Bool], "", 1)
	}
	return mk("const", types.Typ[types.Bool], "", 0)
}
func mkNil(typ types.Type) *Expr { return mk("nil", typ, "", 0) }
func mkStr(s string) *Expr       { return mk("str", types.Typ[types.String], fmt.Sprintf("%q", s), 0) }
func mkLeaf(kind, name string, typ types.Type) *Expr {
	// kind: "param", "val", "phi", "ld", "alloc", "global", "fn", "mphi"
	return mk(kind, typ, name+"#", 0)
}

func (e *Expr) IsConst() (int64, bool) {
	if e != nil && e.Op == "const" {
		return e.C, true
	}
	return 0, false
}
func (e *Expr) IsNil() bool { return e != nil && e.Op == "nil" }

// mentions reports whether the term contains the leaf with the given key.
func (e *Expr) mentions(leafKey string) bool {
	return e != nil && strings.Contains(e.Key, leafKey)
}

// intInfo describes an integer type.
type intInfo struct {
	bits     int
	unsigned bool
	ok       bool
}

func intTypeInfo(t types.Type) intInfo {
	if t == nil {
		return intInfo{}
	}
	b, ok := t.Underlying().(*types.Basic)
	if !ok {
		return intInfo{}
	}
	switch b.Kind() {
	case types.Int8:
		return intInfo{8, false, true}
	case types.Int16:
		return intInfo{16, false, true}
	case types.Int32:
		return intInfo{32, false, true}
	case types.Int64, types.Int, types.UntypedInt:
		return intInfo{64, false, true}
	case types.Uint8:
		return intInfo{8, true, true}
	case types.Uint16:
		return intInfo{16, true, true}
	case types.Uint32:
		return intInfo{32, true, true}
	case types.Uint64, types.Uint, types.Uintptr:
		return intInfo{64, true, true}
	}
	return intInfo{}
}

func isBoolType(t types.Type) bool {
	if t == nil {
		return false
	}
	b, ok := t.Underlying().(*types.Basic)
	return ok && b.Info()&types.IsBoolean != 0
}

// typeRange returns the value range of an integer type. uint64 is clamped to
// [0, MaxInt64] (lengths and protocol fields never exceed it here; arithmetic
// on such terms that could is reported as possibly wrapping).
func typeRange(t types.Type) ISet {
	if isBoolType(t) {
		return isRange(0, 1)
	}
	ii := intTypeInfo(t)
	if !ii.ok {
		return isTop()
	}
	if ii.unsigned {
		if ii.bits >= 63 {
			return isRange(0, posInf)
		}
		return isRange(0, (int64(1)<<uint(ii.bits))-1)
	}
	if ii.bits >= 64 {
		return isTop()
	}
	return isRange(-(int64(1) << uint(ii.bits-1)), (int64(1)<<uint(ii.bits-1))-1)
}

// wrapConst wraps c into integer type t.
func wrapConst(c int64, t types.Type) int64 {
	ii := intTypeInfo(t)
	if !ii.ok || ii.bits >= 64 {
		return c
	}
	m := int64(1) << uint(ii.bits)
	c = ((c % m) + m) % m
	if !ii.unsigned && c >= m/2 {
		c -= m
	}
	return c
}

func constToExpr(v constant.Value, typ types.Type) *Expr {
	if v == nil {
		return mkNil(typ)
	}
	switch v.Kind() {
	case constant.Bool:
		return mkBool(constant.BoolVal(v))
	case constant.Int:
		if i, ok := constant.Int64Val(v); ok {
			return mkConst(i, typ)
		}
		if _, ok := constant.Uint64Val(v); ok {
			return mkConst(posInf, typ)
		}
	case constant.String:
		return mkStr(constant.StringVal(v))
	}
	return mk("kconst", typ, v.ExactString(), 0)
}

var cmpOps = map[token.Token]bool{token.EQL: true, token.NEQ: true, token.LSS: true, token.LEQ: true, token.GTR: true, token.GEQ: true}

// mkBin builds a binary operation with constant folding. typ is the result
// type (bool for comparisons); opTyp is the operand type (wrap semantics).
func mkBin(op token.Token, x, y *Expr, typ, opTyp types.Type) *Expr {
	cx, okx := x.IsConst()
	cy, oky := y.IsConst()
	if okx && oky {
		switch op {
		case token.ADD:
			return mkConst(wrapConst(cx+cy, typ), typ)
		case token.SUB:
			return mkConst(wrapConst(cx-cy, typ), typ)
		case token.MUL:
			return mkConst(wrapConst(cx*cy, typ), typ)
		case token.QUO:
			if cy != 0 {
				return mkConst(cx/cy, typ)
			}
		case token.REM:
			if cy != 0 {
				return mkConst(cx%cy, typ)
			}
		case token.AND:
			return mkConst(cx&cy, typ)
		case token.OR:
			return mkConst(cx|cy, typ)
		case token.XOR:
			return mkConst(wrapConst(cx^cy, typ), typ)
		case token.SHL:
			if cy >= 0 && cy < 63 {
				return mkConst(wrapConst(cx<<uint(cy), typ), typ)
			}
		case token.SHR:
			if cy >= 0 && cy < 64 {
				return mkConst(cx>>uint(cy), typ)
			}
		case token.EQL:
			return mkBool(cx == cy)
		case token.NEQ:
			return mkBool(cx != cy)
		case token.LSS:
			return mkBool(cx < cy)
		case token.LEQ:
			return mkBool(cx <= cy)
		case token.GTR:
			return mkBool(cx > cy)
		case token.GEQ:
			return mkBool(cx >= cy)
		}
	}
	if x.IsNil() && y.IsNil() {
		if op == token.EQL {
			return mkBool(true)
		}
		if op == token.NEQ {
			return mkBool(false)
		}
	}
	tag := op.String()
	if !cmpOps[op] {
		ii := intTypeInfo(typ)
		if ii.ok {
			u := "s"
			if ii.unsigned {
				u = "u"
			}
			tag = fmt.Sprintf("%s:%s%d", op.String(), u, ii.bits)
		}
	}
	// commutative normalisation
	switch op {
	case token.ADD, token.MUL, token.AND, token.OR, token.XOR, token.EQL, token.NEQ:
		if x.Key > y.Key {
			x, y = y, x
		}
	case token.GTR: // a > b  ==>  b < a
		op, x, y = token.LSS, y, x
		tag = op.String()
	case token.GEQ:
		op, x, y = token.LEQ, y, x
		tag = op.String()
	}
	e := mk("bin", typ, tag, 0, x, y)
	return e
}

func (e *Expr) binOp() string {
	if e.Op != "bin" {
		return ""
	}
	if i := strings.IndexByte(e.S, ':'); i >= 0 {
		return e.S[:i]
	}
	return e.S
}

func mkNot(x *Expr) *Expr {
	if c, ok := x.IsConst(); ok {
		return mkBool(c == 0)
	}
	if x.Op == "not" {
		return x.Args[0]
	}
	return mk("not", types.Typ[types.Bool], "", 0, x)
}

// mkConv builds a conversion. Value-preserving integer widenings are
// transparent (the term denotes the mathematical integer).
func mkConv(to types.Type, x *Expr) *Expr {
	ti := intTypeInfo(to)
	fi := intTypeInfo(x.Typ)
	if c, ok := x.IsConst(); ok && ti.ok {
		return mkConst(wrapConst(c, to), to)
	}
	if ti.ok && fi.ok {
		preserving := false
		switch {
		case fi.unsigned && ti.unsigned && ti.bits >= fi.bits:
			preserving = true
		case fi.unsigned && !ti.unsigned && ti.bits > fi.bits:
			preserving = true
		case !fi.unsigned && !ti.unsigned && ti.bits >= fi.bits:
			preserving = true
		}
		if preserving {
			// the term denotes the mathematical integer: keep it (and its
			// narrower static type, which bounds its range)
			return x
		}
		return mk("conv", to, types.TypeString(to, nil), 0, x)
	}
	if types.Identical(to.Underlying(), x.Typ.Underlying()) || (ti.ok == fi.ok && !ti.ok) {
		// named <-> underlying, interface changes, etc.: same value
		c := *x
		c.Typ = to
		return &c
	}
	return mk("conv", to, types.TypeString(to, nil), 0, x)
}

// sliceParts decomposes a slice term into (root, lo, hi); lo/hi may be nil
// (0 / len(root)).
func sliceParts(e *Expr) (root, lo, hi *Expr) {
	if e.Op == "slice" {
		return e.Args[0], e.Args[1], e.Args[2]
	}
	return e, nil, nil
}

var intT = types.Typ[types.Int]

func addInt(x, y *Expr) *Expr {
	if x == nil {
		return y
	}
	if y == nil {
		return x
	}
	if c, ok := x.IsConst(); ok && c == 0 {
		return y
	}
	if c, ok := y.IsConst(); ok && c == 0 {
		return x
	}
	// flatten const + (const + t)
	if cx, ok := x.IsConst(); ok {
		if y.Op == "bin" && y.binOp() == "+" {
			if cy, ok := y.Args[0].IsConst(); ok && intTypeInfo(y.Typ).bits == 64 {
				return addInt(mkConst(cx+cy, intT), y.Args[1])
			}
		}
	}
	if _, ok := y.IsConst(); ok {
		if _, okx := x.IsConst(); !okx {
			return addInt(y, x)
		}
	}
	return mkBin(token.ADD, x, y, intT, intT)
}

// mkSlice builds x[lo:hi], composing nested slices onto the root.
func mkSlice(x, lo, hi *Expr, typ types.Type) *Expr {
	root, lo0, hi0 := sliceParts(x)
	var nlo, nhi *Expr
	nlo = addInt(lo0, lo)
	if hi != nil {
		nhi = addInt(lo0, hi)
	} else {
		nhi = hi0
	}
	if nlo != nil {
		if c, ok := nlo.IsConst(); ok && c == 0 {
			nlo = nil
		}
	}
	if nlo == nil && nhi == nil {
		c := *root
		c.Typ = typ
		return &c
	}
	return mk("slice", typ, "", 0, root, nlo, nhi)
}

// mkAt builds the element x[i] (by value), normalised onto the slice root.
func mkAt(x, i *Expr, typ types.Type) *Expr {
	root, lo, _ := sliceParts(x)
	idx := addInt(lo, i)
	if idx == nil {
		idx = mkConst(0, intT)
	}
	return mk("at", typ, "", 0, root, idx)
}

func mkLen(x *Expr) *Expr {
	switch x.Op {
	case "nil":
		return mkConst(0, intT)
	case "str":
		return mk("len", intT, "", 0, x)
	case "makeslice":
		return x.Args[0]
	case "arr":
		// a whole array seen as a slice (the argument list of a variadic call)
		if x.C > 0 {
			return mkConst(x.C, intT)
		}
	}
	return mk("len", intT, "", 0, x)
}

func mkCall(name string, typ types.Type, args ...*Expr) *Expr {
	return mk("call", typ, name, 0, args...)
}

func mkField(x *Expr, name string, idx int, typ types.Type) *Expr {
	// field of a struct value
	if x.Op == "struct" {
		for i := 0; i+1 < len(x.Args); i += 2 {
			if x.Args[i].S == fmt.Sprintf("%q", name) {
				return x.Args[i+1]
			}
		}
	}
	return mk("fv", typ, name, 0, x)
}

func mkFieldAddr(base *Expr, name string, idx int, typ types.Type, owner string) *Expr {
	e := mk("fa", typ, name, 0, base)
	e.Aux = owner
	return e
}

func mkIndexAddr(base, i *Expr, typ types.Type) *Expr {
	root, lo, _ := sliceParts(base)
	idx := addInt(lo, i)
	if idx == nil {
		idx = mkConst(0, intT)
	}
	return mk("ia", typ, "", 0, root, idx)
}

// sortedKeys returns the sorted keys of a map.
func sortedKeys[V any](m map[string]V) []string {
	ks := make([]string, 0, len(m))
	for k := range m {
		ks = append(ks, k)
	}
	sort.Strings(ks)
	return ks
}
