package main

// Engine V (part 4): forward abstract interpretation of one function's SSA
// with flag partitioning, branch refinement, assumption mode and effect-site
// queries. This is a dataflow fixpoint over the CFG (loops are handled by
// join/widening at their heads); nothing is executed and no path is
// enumerated or handed to a solver.

import (
	"fmt"
	"go/constant"
	"go/token"
	"go/types"
	"sort"
	"strings"

	"golang.org/x/tools/go/ssa"
)

const maxPartitions = 96

// Analysis is one run of engine V over a function.
type Analysis struct {
	P  *Prog
	Fn *ssa.Function

	// configuration
	Init            func(a *Analysis, st *State) // extra entry facts (assumption mode)
	AtomHook        func(e *Expr) (ISet, bool)   // pattern assumptions on atoms
	TrackFields     map[string]bool              // memory of these field names partitions the state
	NoInline        map[string]bool              // local callees not to inline
	CallModel       func(a *Analysis, st *State, call ssa.CallInstruction, args []*Expr) (*Expr, bool)
	OpaqueFields    map[string]bool                                   // "Struct.field": loads are never store-forwarded (always versioned atoms)
	EventArgs       func(st *State, desc string, args []*Expr) string // optional argument rendering for call events
	StoreHook       func(st *State, addr, val *Expr, in *ssa.Store)   // optional observer of every store (also in inlined helpers)
	AfterFlow       func(from, to *ssa.BasicBlock, st *State)         // optional: strengthen the state entering a block (loop-head assumptions of a rule)
	pendingClosure  *Expr                                             // closure term of the dynamic call being inlined
	InlineClosures  bool                                              // analyse directly called closures in place (their events become the caller's)
	Unroll          int64                                             // trip-count limit for unrolling counted loops (default 8)
	ForceInline     map[string]bool                                   // known functions analysed in caller context by this analysis only
	EventsInInlined bool

	// results
	In        map[*ssa.BasicBlock]map[string]*State
	At        map[ssa.Instruction][]*State // states before each instruction (final pass)
	EdgeOut   map[[2]int][]*State          // states flowing along CFG edge (from,to)
	Returns   []ReturnSite
	Undecided []string

	moduli    []int64
	baseFrame *frame // frame of a nested (inlined multi-block) analysis
	entry     *State // entry state override for nested analyses
	stack     []*ssa.Function
	visits    map[string]int
	record    bool
	inlineID  int
	depth     int
}

// ReturnSite is a reachable return with its abstract state and result terms.
type ReturnSite struct {
	Instr   *ssa.Return
	State   *State
	Results []*Expr
}

func NewAnalysis(p *Prog, fn *ssa.Function) *Analysis {
	a := &Analysis{P: p, Fn: fn, In: map[*ssa.BasicBlock]map[string]*State{}, At: map[ssa.Instruction][]*State{},
		EdgeOut: map[[2]int][]*State{}, visits: map[string]int{}}
	seen := map[int64]bool{}
	for _, f := range withAnon(fn) {
		allInstrs(f, func(in ssa.Instruction) {
			// strides of counted loops (i += k) are moduli of interest too
			if b, ok := in.(*ssa.BinOp); ok && b.Op == token.ADD {
				if phi, isPhi := b.X.(*ssa.Phi); isPhi {
					if c, ok := b.Y.(*ssa.Const); ok && c.Value != nil && intTypeInfo(b.Type()).ok {
						if v, ok := constant.Int64Val(constant.ToInt(c.Value)); ok && v > 1 && v <= 64 && !seen[v] {
							for _, e := range phi.Edges {
								if e == ssa.Value(b) {
									seen[v] = true
									a.moduli = append(a.moduli, v)
									break
								}
							}
						}
					}
				}
			}
			if b, ok := in.(*ssa.BinOp); ok && b.Op == token.QUO {
				// x/c, multiplied back and compared with x, decides x % c
				if c, ok := b.Y.(*ssa.Const); ok && c.Value != nil && c.Value.Kind() == constant.Int {
					if v, ok := constant.Int64Val(constant.ToInt(c.Value)); ok && v > 1 && v <= 64 && !seen[v] {
						seen[v] = true
						a.moduli = append(a.moduli, v)
					}
				}
			}
			if b, ok := in.(*ssa.BinOp); ok && (b.Op == token.REM || b.Op == token.AND) {
				if c, ok := b.Y.(*ssa.Const); ok && c.Value != nil && c.Value.Kind() == constant.Int {
					if v, ok := constant.Int64Val(constant.ToInt(c.Value)); ok {
						if b.Op == token.AND {
							// x & (2^k - 1) is x % 2^k
							if v <= 0 || v&(v+1) != 0 || v > 63 {
								v = 0
							} else {
								v++
							}
						}
						if v > 1 && !seen[v] {
							seen[v] = true
							a.moduli = append(a.moduli, v)
						}
					}
				}
			}
		})
	}
	sort.Slice(a.moduli, func(i, j int) bool { return a.moduli[i] < a.moduli[j] })
	return a
}

// leafName gives a function-unique leaf name to an SSA value.
func (a *Analysis) leafName(v ssa.Value, prefix string) string {
	return prefix + v.Name()
}

// ---- value -> term ------------------------------------------------------------

type frame struct {
	fn     *ssa.Function
	prefix string // leaf name prefix for inlined frames
	params map[ssa.Value]*Expr
}

func (a *Analysis) exprOf(st *State, fr *frame, v ssa.Value) *Expr {
	if fr == nil {
		fr = a.baseFrame
	}
	switch x := v.(type) {
	case *ssa.Const:
		if x.Value == nil {
			if b, ok := x.Type().Underlying().(*types.Basic); ok {
				switch {
				case b.Info()&types.IsBoolean != 0:
					return mkBool(false)
				case b.Info()&types.IsInteger != 0:
					return mkConst(0, x.Type())
				case b.Info()&types.IsString != 0:
					return mkStr("")
				}
			}
			if _, ok := x.Type().Underlying().(*types.Struct); ok {
				return zeroValue(x.Type())
			}
			return mkNil(x.Type())
		}
		return constToExpr(x.Value, x.Type())
	case *ssa.Function:
		return mkLeaf("fn", a.P.Name(x), x.Type())
	case *ssa.Global:
		return mkLeaf("global", x.Name(), x.Type())
	case *ssa.Builtin:
		return mkLeaf("builtin", x.Name(), x.Type())
	case *ssa.Parameter:
		if fr != nil && fr.params != nil {
			if e, ok := fr.params[v]; ok {
				return e
			}
		}
		// states of an inlined helper carry its parameter bindings, so that
		// they can be queried from the caller's analysis
		if e, ok := st.env[v]; ok {
			return e
		}
		return mkLeaf("param", x.Name(), x.Type())
	case *ssa.FreeVar:
		if fr != nil && fr.params != nil {
			if e, ok := fr.params[v]; ok {
				return e
			}
		}
		if e, ok := st.env[v]; ok {
			return e
		}
		return mkLeaf("free", x.Name(), x.Type())
	}
	if e, ok := st.env[v]; ok {
		return e
	}
	// value not (or no longer) bound in this state: an opaque leaf
	pre := ""
	if fr != nil {
		pre = fr.prefix
	}
	return mkLeaf("val", a.leafName(v, pre), v.Type())
}

func (a *Analysis) bind(st *State, fr *frame, v ssa.Value, e *Expr) {
	st.env[v] = e
}

func (a *Analysis) freshLeaf(st *State, fr *frame, kind string, v ssa.Value) *Expr {
	if fr == nil {
		fr = a.baseFrame
	}
	pre := ""
	if fr != nil {
		pre = fr.prefix
	}
	l := mkLeaf(kind, a.leafName(v, pre), v.Type())
	st.killLeaf(l.Key)
	return l
}

func typeKey(t types.Type) string {
	return types.TypeString(t, func(p *types.Package) string {
		if p.Path() == corebgpPath {
			return ""
		}
		return p.Name()
	})
}

// ---- instruction transfer -------------------------------------------------------

func (a *Analysis) step(st *State, fr *frame, in ssa.Instruction) {
	switch x := in.(type) {
	case *ssa.DebugRef:
	case *ssa.Alloc:
		l := a.freshLeaf(st, fr, "alloc", x)
		st.fresh[l.Key] = true
		st.zeroInit(l, x.Type().Underlying().(*types.Pointer).Elem(), siteTok(fr, x))
		a.bind(st, fr, x, l)
	case *ssa.BinOp:
		xe, ye := a.exprOf(st, fr, x.X), a.exprOf(st, fr, x.Y)
		// a length masked or shifted by a constant is its remainder or
		// quotient: len(b)&3 == len(b)%4, len(b)>>2 == len(b)/4
		if cv, isC := ye.IsConst(); isC && xe.Op == "len" {
			if x.Op == token.AND && cv > 0 && cv&(cv+1) == 0 {
				a.bind(st, fr, x, mkBin(token.REM, xe, mkConst(cv+1, ye.Typ), x.Type(), x.X.Type()))
				break
			}
			if x.Op == token.SHR && cv > 0 && cv < 31 {
				a.bind(st, fr, x, mkBin(token.QUO, xe, mkConst(int64(1)<<uint(cv), xe.Typ), x.Type(), x.X.Type()))
				break
			}
		}
		a.bind(st, fr, x, mkBin(x.Op, xe, ye, x.Type(), x.X.Type()))
	case *ssa.UnOp:
		xe := a.exprOf(st, fr, x.X)
		switch x.Op {
		case token.NOT:
			a.bind(st, fr, x, mkNot(xe))
		case token.SUB:
			a.bind(st, fr, x, mkBin(token.SUB, mkConst(0, x.Type()), xe, x.Type(), x.Type()))
		case token.MUL:
			if xe.Op == "fa" && a.OpaqueFields != nil && a.OpaqueFields[xe.Aux+"."+xe.S] {
				a.bind(st, fr, x, mk("ld", x.Type(), "@"+st.ver[aliasClass(xe)], 0, xe))
			} else {
				a.bind(st, fr, x, st.load(xe, x.Type()))
			}
		case token.ARROW:
			st.event("recv:" + a.chanEventName(x.X, xe))
			a.bind(st, fr, x, a.freshLeaf(st, fr, "val", x))
		default:
			a.bind(st, fr, x, mk("un", x.Type(), x.Op.String(), 0, xe))
		}
	case *ssa.Convert:
		a.bind(st, fr, x, mkConv(x.Type(), a.exprOf(st, fr, x.X)))
	case *ssa.ChangeType:
		e := *a.exprOf(st, fr, x.X)
		e.Typ = x.Type()
		a.bind(st, fr, x, &e)
	case *ssa.ChangeInterface:
		e := *a.exprOf(st, fr, x.X)
		e.Typ = x.Type()
		a.bind(st, fr, x, &e)
	case *ssa.MultiConvert:
		a.bind(st, fr, x, mkConv(x.Type(), a.exprOf(st, fr, x.X)))
	case *ssa.MakeInterface:
		a.bind(st, fr, x, mk("makeiface", x.Type(), typeKey(x.X.Type()), 0, a.exprOf(st, fr, x.X)))
	case *ssa.Field:
		xe := a.exprOf(st, fr, x.X)
		fld := x.X.Type().Underlying().(*types.Struct).Field(x.Field)
		if xe.Op == "ld" && len(xe.Args) == 1 && xe.Args[0].Op == "global" {
			// field of a copy of a package-level struct of constants
			if v, ok := a.P.constStructField(strings.TrimSuffix(xe.Args[0].S, "#"), fld.Name(), x.Type()); ok {
				a.bind(st, fr, x, mkConst(v, x.Type()))
				break
			}
		}
		a.bind(st, fr, x, mkField(xe, fld.Name(), x.Field, x.Type()))
	case *ssa.FieldAddr:
		xe := a.exprOf(st, fr, x.X)
		fld := x.X.Type().Underlying().(*types.Pointer).Elem().Underlying().(*types.Struct).Field(x.Field)
		a.bind(st, fr, x, mkFieldAddr(xe, fld.Name(), x.Field, x.Type(), structNameOfPtr(x.X.Type())))
	case *ssa.Index:
		xe, ie := a.exprOf(st, fr, x.X), a.exprOf(st, fr, x.Index)
		// element of a copy of a constant package-level table
		if xe.Op == "ld" && len(xe.Args) == 1 && xe.Args[0].Op == "global" {
			if tab, ok := a.P.constGlobals()[strings.TrimSuffix(xe.Args[0].S, "#")]; ok {
				if i, isC := st.rangeOf(ie).IsConst(); isC {
					if v, has := tab[i]; has {
						a.bind(st, fr, x, mkConst(v, x.Type()))
						break
					}
				}
			}
		}
		if xe.Op == "arrval" {
			// an array value rebuilt from its element cells, constant index
			if i, isC := st.rangeOf(ie).IsConst(); isC && i >= 0 && i < int64(len(xe.Args)) {
				a.bind(st, fr, x, xe.Args[i])
				break
			}
		}
		a.bind(st, fr, x, mkAt(xe, ie, x.Type()))
	case *ssa.IndexAddr:
		xe, ie := a.exprOf(st, fr, x.X), a.exprOf(st, fr, x.Index)
		if pt, ok := x.X.Type().Underlying().(*types.Pointer); ok {
			if at, ok := pt.Elem().Underlying().(*types.Array); ok {
				xe = mk("arr", x.X.Type(), "", at.Len(), xe)
			}
		}
		a.bind(st, fr, x, mkIndexAddr(xe, ie, x.Type()))
	case *ssa.Slice:
		xe := a.exprOf(st, fr, x.X)
		var lo, hi *Expr
		if x.Low != nil {
			lo = a.exprOf(st, fr, x.Low)
		}
		if x.High != nil {
			hi = a.exprOf(st, fr, x.High)
		}
		// slicing a pointer to array: root is the array object
		if pt, ok := x.X.Type().Underlying().(*types.Pointer); ok {
			if at, ok := pt.Elem().Underlying().(*types.Array); ok {
				xe = mk("arr", x.Type(), "", at.Len(), xe)
			}
		}
		a.bind(st, fr, x, mkSlice(xe, lo, hi, x.Type()))
	case *ssa.MakeSlice:
		n := a.exprOf(st, fr, x.Len)
		l := a.freshLeaf(st, fr, "alloc", x)
		st.fresh[l.Key] = true
		e := mk("makeslice", x.Type(), "", 0, n, l)
		a.bind(st, fr, x, e)
	case *ssa.MakeMap:
		a.bind(st, fr, x, a.freshLeaf(st, fr, "makemap", x))
	case *ssa.MakeChan:
		l := a.freshLeaf(st, fr, "makechan", x)
		a.bind(st, fr, x, mk("makechan", x.Type(), "", 0, a.exprOf(st, fr, x.Size), l))
	case *ssa.MakeClosure:
		fn := x.Fn.(*ssa.Function)
		var bs []*Expr
		for _, b := range x.Bindings {
			bs = append(bs, a.exprOf(st, fr, b))
		}
		a.bind(st, fr, x, mk("closure", x.Type(), a.P.Name(fn), 0, bs...))
		// a closure that is only ever called directly runs at its call sites
		// (analysed in place, or its captured cells forgotten there); any other
		// closure that assigns a captured variable may run during any call
		if !onlyCalledDirectly(x) && a.P.enteredOnlyThroughHelper(fn) == nil {
			for i, b := range x.Bindings {
				if al, ok := b.(*ssa.Alloc); ok && cellMutatedBy(fn, i, 0) {
					st.shared[a.exprOf(st, fr, al).Key] = true
				}
			}
		}
	case *ssa.Lookup:
		a.bind(st, fr, x, a.freshLeaf(st, fr, "val", x))
	case *ssa.Range, *ssa.Next:
		a.bind(st, fr, x.(ssa.Value), a.freshLeaf(st, fr, "val", x.(ssa.Value)))
	case *ssa.Select:
		for _, ss := range x.States {
			if ss.Send == nil {
				continue
			}
			cn := a.chanEventName(ss.Chan, a.exprOf(st, fr, ss.Chan))
			st.event("offer:" + cn)
			if a.EventArgs != nil {
				if s := a.EventArgs(st, "offer:"+cn, []*Expr{a.exprOf(st, fr, ss.Send)}); s != "" {
					st.event("offer:" + cn + "(" + s + ")")
				}
			}
		}
		l := a.freshLeaf(st, fr, "val", x)
		a.bind(st, fr, x, l)
		n := int64(len(x.States))
		lo := int64(0)
		if !x.Blocking {
			lo = -1
		}
		idx := mk("ex", types.Typ[types.Int], "", 0, l, mkConst(0, intT))
		st.rng[idx.Key] = isRange(lo, n-1)
	case *ssa.Extract:
		te := a.exprOf(st, fr, x.Tuple)
		if te.Op == "tuple" && x.Index < len(te.Args) {
			a.bind(st, fr, x, te.Args[x.Index])
		} else if te.Op == "typeassert2" {
			if x.Index == 1 {
				a.bind(st, fr, x, mk("istype", types.Typ[types.Bool], te.S, 0, te.Args[0]))
			} else {
				a.bind(st, fr, x, mk("asserted", x.Type(), te.S, 0, te.Args[0]))
			}
		} else {
			a.bind(st, fr, x, mk("ex", x.Type(), "", 0, te, mkConst(int64(x.Index), intT)))
		}
	case *ssa.TypeAssert:
		xe := a.exprOf(st, fr, x.X)
		tk := typeKey(x.AssertedType)
		st.event("typeassert:" + tk)
		if x.CommaOk {
			a.bind(st, fr, x, mk("typeassert2", x.Type(), tk, 0, xe))
		} else {
			a.bind(st, fr, x, mk("asserted", x.Type(), tk, 0, xe))
		}
	case *ssa.SliceToArrayPointer:
		// a pointer to the first N octets of the slice: loads of it denote
		// "the array made of x[0:N]"
		a.bind(st, fr, x, mk("s2a", x.Type(), "", 0, a.exprOf(st, fr, x.X)))
	case *ssa.Phi:
		// bound on edges
	case *ssa.Store:
		addr, val := a.exprOf(st, fr, x.Addr), a.exprOf(st, fr, x.Val)
		if a.StoreHook != nil {
			a.StoreHook(st, addr, val, x)
		}
		st.store(addr, val, siteTok(fr, x))
		// "a store into this field happened" (whatever the value)
		switch {
		case addr.Op == "fa":
			st.event("store:" + addr.S)
		case addr.Op == "ia" && len(addr.Args) == 2:
			base := addr.Args[0]
			if base.Op == "arr" && len(base.Args) > 0 {
				base = base.Args[0]
			}
			if base.Op == "fa" {
				st.event("store:" + base.S + "[]")
			}
		}
		if addr.Op == "fa" {
			nn := false
			if c, ok := st.nonNil(val).IsConst(); ok && c == 1 {
				nn = true
			}
			switch val.Op {
			case "makechan", "closure", "fn":
				nn = true
			case "ex":
				if strings.Contains(val.Key, "context.WithCancel") {
					nn = true
				}
			}
			if nn {
				st.event("assign:" + addr.S)
			} else {
				delete(st.must, "assign:"+addr.S)
			}
		}
		// a stored pointer/slice to a fresh alloc escapes into memory, but we
		// keep tracking it: local allocs stored into locals are common.
	case *ssa.MapUpdate:
		st.killClass("M:"+typeKey(x.Map.Type()), siteTok(fr, x))
		st.event("mapupdate")
	case *ssa.Send:
		st.event("send:" + a.chanEventName(x.Chan, a.exprOf(st, fr, x.Chan)))
	case *ssa.Go:
		st.event("go:" + a.P.calleeDesc(x))
		a.callEffects(st, fr, x, true)
	case *ssa.Defer:
		// deferred call: effects happen at RunDefers
	case *ssa.RunDefers:
		for _, b := range x.Parent().Blocks {
			for _, i := range b.Instrs {
				if d, ok := i.(*ssa.Defer); ok {
					st.event("deferred:" + a.P.calleeDesc(d))
					a.callEffects(st, fr, d, true)
				}
			}
		}
	case *ssa.Call:
		a.call(st, fr, x)
	case *ssa.If, *ssa.Jump, *ssa.Return, *ssa.Panic:
	default:
		if v, ok := in.(ssa.Value); ok {
			a.bind(st, fr, v, a.freshLeaf(st, fr, "val", v))
		}
	}
}

// ---- calls -------------------------------------------------------------------------

// calleeDesc names the target of a call:
//
//	local static:    "fsm.stop"
//	external static: "time.NewTimer", "time.Timer.Reset", "binary.bigEndian.Uint16"
//	interface:       "invoke:net.Conn.Write", "invoke:Plugin.OnClose"
//	builtin:         "builtin:len"
//	closure:         "closure:fsm.openSent$1"
//	dynamic:         "dyn:UpdateMessageHandler"
func (p *Prog) calleeDesc(c ssa.CallInstruction) string {
	cc := c.Common()
	if cc.IsInvoke() {
		return "invoke:" + typeKey(cc.Value.Type()) + "." + cc.Method.Name()
	}
	switch v := cc.Value.(type) {
	case *ssa.Builtin:
		return "builtin:" + v.Name()
	case *ssa.Function:
		return p.fnDesc(v)
	case *ssa.MakeClosure:
		return "closure:" + p.Name(v.Fn.(*ssa.Function))
	case *ssa.Parameter:
		// a function a helper received from its caller, when the running deep
		// enumeration (or agreement of all call sites) says which
		if f := p.resolveFuncParam(v); f != nil {
			if f.Parent() != nil {
				return "closure:" + p.Name(f)
			}
			return p.fnDesc(f)
		}
	}
	return "dyn:" + typeKey(cc.Value.Type())
}

func (p *Prog) fnDesc(f *ssa.Function) string {
	if o := f.Origin(); o != nil {
		f = o
	}
	if p.IsLocal(f) {
		return p.Name(f)
	}
	pkg := ""
	if f.Pkg != nil {
		pkg = f.Pkg.Pkg.Name()
	} else if f.Object() != nil && f.Object().Pkg() != nil {
		pkg = f.Object().Pkg().Name()
	}
	if f.Signature.Recv() != nil {
		return pkg + "." + recvTypeName(f.Signature.Recv().Type()) + "." + f.Name()
	}
	return pkg + "." + f.Name()
}

// staticLocalCallee returns the local function called, if statically known.
func (p *Prog) staticLocalCallee(c ssa.CallInstruction) *ssa.Function {
	cc := c.Common()
	if cc.IsInvoke() {
		return nil
	}
	switch v := cc.Value.(type) {
	case *ssa.Function:
		f := v
		if o := f.Origin(); o != nil {
			f = o
		}
		if p.IsLocal(f) {
			return f
		}
	case *ssa.MakeClosure:
		return v.Fn.(*ssa.Function)
	case *ssa.Parameter:
		// a function a helper received from its caller (deep view)
		return p.resolveFuncParam(v)
	}
	return nil
}

func (a *Analysis) argExprs(st *State, fr *frame, cc *ssa.CallCommon) []*Expr {
	var out []*Expr
	if cc.IsInvoke() {
		out = append(out, a.exprOf(st, fr, cc.Value))
	}
	for _, x := range cc.Args {
		out = append(out, a.exprOf(st, fr, x))
	}
	return out
}

// variadicElems resolves the elements of a variadic slice built at the call
// site (new [n]T; stores; slice).
func (a *Analysis) variadicElems(st *State, e *Expr) ([]*Expr, bool) {
	if e.IsNil() {
		return nil, true
	}
	root, lo, hi := sliceParts(e)
	if root.Op != "arr" || lo != nil {
		return nil, false
	}
	n := root.C
	if hi != nil {
		c, ok := hi.IsConst()
		if !ok {
			return nil, false
		}
		n = c
	}
	var out []*Expr
	for i := int64(0); i < n; i++ {
		addr := mk("ia", nil, "", 0, root, mkConst(i, intT))
		// element type unknown here; look up by key
		found := false
		for k, v := range st.mem {
			if me := st.memE[k]; me != nil && me.Op == "ia" && me.Args[0].Key == root.Key {
				if c, ok := me.Args[1].IsConst(); ok && c == i {
					out = append(out, v)
					found = true
					break
				}
			}
		}
		_ = addr
		if !found {
			return nil, false
		}
	}
	return out, true
}

var pureExternal = map[string]bool{
	"netip.Addr.IsValid": true, "netip.Addr.Is4": true, "netip.Addr.Is6": true, "netip.Addr.IsMulticast": true,
	"netip.Addr.String": true, "netip.Addr.AsSlice": true, "netip.Addr.As16": true, "netip.Addr.As4": true,
	"netip.AddrFrom4": true, "netip.AddrFrom16": true, "netip.AddrFromSlice": true, "netip.PrefixFrom": true,
	"netip.ParseAddr": true, "time.Duration.Seconds": true, "time.Duration.Truncate": true,
	"net.JoinHostPort": true, "strconv.Itoa": true, "bytes.Equal": true,
}

func (a *Analysis) call(st *State, fr *frame, c *ssa.Call) {
	cc := c.Common()
	desc := a.P.calleeDesc(c)
	args := a.argExprs(st, fr, cc)
	devirt := false
	// an interface method call whose receiver is known, in this state, to hold
	// one concrete local type is a call of that type's method
	if cc.IsInvoke() && len(args) > 0 && args[0] != nil && args[0].Op == "makeiface" {
		tn := strings.TrimPrefix(args[0].S, "*")
		if m := a.P.Funcs[tn+"."+cc.Method.Name()]; m != nil && strings.HasPrefix(desc, "invoke:") {
			if !strings.HasPrefix(desc, "invoke:Plugin.") {
				desc = tn + "." + cc.Method.Name()
				// the receiver is the concrete value
				args = append([]*Expr{args[0].Args[0]}, args[1:]...)
				devirt = true
			}
		}
	}
	// a call through a func value that is known, in this state, to be one
	// named local function is a call of that function
	if !cc.IsInvoke() && strings.HasPrefix(desc, "dyn:") {
		if fv := a.exprOf(st, fr, cc.Value); fv != nil && fv.Op == "fn" {
			if n := strings.TrimSuffix(fv.S, "#"); a.P.Funcs[n] != nil {
				desc = n
			}
		}
	}
	if fr == nil || a.EventsInInlined {
		st.event("call:" + desc)
		if desc == "builtin:close" && len(cc.Args) == 1 && len(args) == 1 {
			st.event("close:" + a.chanEventName(cc.Args[0], args[0]))
		}
		if a.EventArgs != nil {
			if s := a.EventArgs(st, desc, args); s != "" {
				st.event("call:" + desc + "(" + s + ")")
			}
		}
	}
	if a.CallModel != nil {
		if e, ok := a.CallModel(a, st, c, args); ok {
			if e != nil {
				a.bind(st, fr, c, e)
			}
			return
		}
	}
	switch desc {
	case "builtin:len":
		a.bind(st, fr, c, mkLen(args[0]))
		return
	case "builtin:cap":
		a.bind(st, fr, c, mk("cap", intT, "", 0, args[0]))
		return
	case "builtin:append":
		if len(args) == 2 {
			if elems, ok := a.variadicElems(st, args[1]); ok && len(elems) > 0 {
				a.bind(st, fr, c, mk("append1", c.Type(), "", 0, append([]*Expr{args[0]}, elems...)...))
				return
			}
			if args[1].IsNil() {
				a.bind(st, fr, c, args[0])
				return
			}
			a.bind(st, fr, c, mk("append", c.Type(), "", 0, args[0], args[1]))
			return
		}
	case "builtin:copy":
		// copy(dst, src) writes dst[lo:...] only
		droot, dlo, _ := sliceParts(args[0])
		lo := int64(0)
		loKnown := dlo == nil
		if dlo != nil {
			if cv, isC := dlo.IsConst(); isC {
				lo, loKnown = cv, true
			}
		}
		r := rootOf2(args[0])
		freshDst := r != nil && st.fresh[r.Key]
		for k := range st.mem {
			me := st.memE[k]
			if me == nil || (me.Op != "ia" && me.Op != "bea" && me.Op != "cpa") {
				continue
			}
			sameRoot := me.Args[0].Key == droot.Key
			if !sameRoot {
				if freshDst {
					continue // a fresh destination aliases nothing else
				}
				mr := rootOf2(me.Args[0])
				if mr != nil && st.fresh[mr.Key] {
					continue
				}
				if aliasClass(me) != strings.ReplaceAll("E:*"+typeKey(cc.Args[0].Type().Underlying().(*types.Slice).Elem()), "byte", "uint8") && me.Op != "bea" {
					continue
				}
				delete(st.mem, k)
				delete(st.memE, k)
				continue
			}
			if idx, isC := me.Args[1].IsConst(); isC && loKnown {
				w := int64(1)
				if me.Op == "bea" {
					w = map[string]int64{"be16": 2, "be32": 4, "be64": 8}[me.S]
				}
				if idx+w <= lo && me.Op != "cpa" {
					continue // below the written range
				}
			}
			delete(st.mem, k)
			delete(st.memE, k)
		}
		cls := strings.ReplaceAll("E:*"+typeKey(cc.Args[0].Type().Underlying().(*types.Slice).Elem()), "byte", "uint8")
		if freshDst {
			st.ver["A:"+r.Key] = siteTok(fr, c)
		} else {
			st.ver[cls] = siteTok(fr, c)
		}
		// a copy that provably fits into a buffer allocated here is remembered
		// as "the bytes of src at offset lo" (layout.go)
		if freshDst && loKnown && cls == "E:*uint8" && (droot.Op == "makeslice" || droot.Op == "arr") {
			room := st.linOf(mkLen(args[0])).add(st.linOf(mkLen(args[1])), -1)
			if st.impliedGE(room) {
				addr := mk("cpa", nil, "", 0, droot, mkConst(lo, intT))
				st.mem[addr.Key] = args[1]
				st.memE[addr.Key] = addr
			}
		}
		// copy returns min(len(dst), len(src))
		a.bind(st, fr, c, mkCall("min", c.Type(), mkLen(args[0]), mkLen(args[1])))
		return
	case "builtin:min", "builtin:max":
		if len(args) == 2 {
			a.bind(st, fr, c, mkCall(strings.TrimPrefix(desc, "builtin:"), c.Type(), args...))
			return
		}
	case "builtin:close", "builtin:delete", "builtin:print", "builtin:println", "builtin:panic":
		return
	case "binary.bigEndian.Uint16", "binary.bigEndian.Uint32", "binary.bigEndian.Uint64":
		root, lo, _ := sliceParts(args[1])
		if lo == nil {
			lo = mkConst(0, intT)
		}
		name := map[string]string{"binary.bigEndian.Uint16": "be16", "binary.bigEndian.Uint32": "be32", "binary.bigEndian.Uint64": "be64"}[desc]
		// versioned by the content class of byte slices
		ver := st.ver["E:*uint8"]
		if r := rootOf2(args[1]); r != nil && st.fresh[r.Key] {
			ver = st.ver["A:"+r.Key]
		}
		a.bind(st, fr, c, mk("call", c.Type(), name, 0, root, lo, mkStr(ver)))
		return
	case "binary.bigEndian.PutUint16", "binary.bigEndian.PutUint32", "binary.bigEndian.PutUint64":
		if r := rootOf2(args[1]); r != nil && st.fresh[r.Key] {
			// remember the value written, keyed by (root, offset)
			root, lo, _ := sliceParts(args[1])
			if lo == nil {
				lo = mkConst(0, intT)
			}
			w := map[string]string{"binary.bigEndian.PutUint16": "be16", "binary.bigEndian.PutUint32": "be32", "binary.bigEndian.PutUint64": "be64"}[desc]
			addr := mk("bea", nil, w, 0, root, lo)
			st.store(addr, args[2], siteTok(fr, c))
			st.ver["A:"+r.Key] = siteTok(fr, c)
		} else {
			st.killClass("E:*uint8", siteTok(fr, c))
		}
		return
	case "errors.As":
		tk := typeKey(cc.Args[1].Type())
		res := mkCall("errors.As:"+tk, types.Typ[types.Bool], args[0])
		// the target is overwritten
		if r := rootOf2(args[1]); r != nil {
			st.escape(r, true)
			delete(st.fresh, r.Key)
			st.store(r, mkCall("astarget:"+tk, nil, args[0]), siteTok(fr, c))
		}
		a.bind(st, fr, c, res)
		return
	case "errors.Join":
		if elems, ok := a.variadicElems(st, args[0]); ok {
			a.bind(st, fr, c, mkCall("errors.Join", c.Type(), elems...))
			return
		}
	case "errors.New", "fmt.Errorf":
		l := a.freshLeaf(st, fr, "val", c)
		var wrapped []*Expr
		if desc == "fmt.Errorf" && len(args) == 2 {
			if elems, ok := a.variadicElems(st, args[1]); ok {
				wrapped = elems
			}
		}
		a.bind(st, fr, c, mkCall(desc, c.Type(), append([]*Expr{l, args[0]}, wrapped...)...))
		return
	case "time.NewTimer":
		l := a.freshLeaf(st, fr, "val", c)
		a.bind(st, fr, c, mkCall(desc, c.Type(), l, args[0]))
		return
	}
	if pureExternal[desc] {
		a.bind(st, fr, c, mkCall(desc, c.Type(), args...))
		return
	}
	// local callee: inline single-block helpers
	if callee := a.P.staticLocalCallee(c); callee != nil && a.canInline(callee) {
		if res, ok := a.inline(st, fr, c, callee, args); ok {
			if res != nil {
				a.bind(st, fr, c, res)
			}
			return
		}
	}
	if callee := a.P.staticLocalCallee(c); callee != nil && a.depth < 2 {
		if r, ok := a.evalPure(st, callee, args); ok {
			l := a.freshLeaf(st, fr, "val", c)
			e := mk("rcall", c.Type(), a.P.Name(callee), 0, append([]*Expr{l}, args...)...)
			if cv, isC := r.IsConst(); isC {
				if isBoolType(c.Type()) {
					e = mkBool(cv != 0)
				} else {
					e = mkConst(cv, c.Type())
				}
			} else {
				st.rng[e.Key] = r
			}
			a.bind(st, fr, c, e)
			return
		}
	}
	a.callEffects(st, fr, c, false)
	l := a.freshLeaf(st, fr, "val", c)
	if callee := a.P.staticLocalCallee(c); callee != nil {
		a.bind(st, fr, c, mk("rcall", c.Type(), a.P.Name(callee), 0, append([]*Expr{l}, args...)...))
	} else {
		a.bind(st, fr, c, mk("rcall", c.Type(), desc, 0, append([]*Expr{l}, args...)...))
	}
	_ = devirt
}

// chanName names a channel term by the field or local it was loaded from.
// chanEventName names the channel of an event: by its creation site's key
// when the channel analysis knows it (chanflow.go), else by the term.
func (a *Analysis) chanEventName(v ssa.Value, e *Expr) string {
	n := chanName(e)
	if strings.HasSuffix(n, ".C") || strings.HasSuffix(n, "[]") {
		return n // timer channels and per-direction arrays keep the term's name
	}
	if isChanType(v.Type()) {
		if k := a.P.chanKey(v); k != "" && !strings.Contains(k, "|") {
			return k
		}
	}
	return n
}

func chanName(e *Expr) string {
	if e == nil {
		return "?"
	}
	switch e.Op {
	case "ld":
		if e.Args[0].Op == "fa" {
			if fa := e.Args[0]; fa.S == "C" && len(fa.Args) > 0 && fa.Args[0].Op == "ld" && fa.Args[0].Args[0].Op == "fa" {
				return fa.Args[0].Args[0].S + ".C" // channel of a timer field
			}
			return e.Args[0].S
		}
		if e.Args[0].Op == "ia" {
			return chanName(e.Args[0].Args[0]) + "[]"
		}
	case "fv":
		return e.S
	case "makechan":
		return e.Args[1].S
	case "free", "param":
		return strings.TrimSuffix(e.S, "#")
	}
	return trunc(e.Key, 40)
}

// curBaseFrame is the frame of the nested analysis currently running (site
// tokens of an inlined helper are prefixed with its call path).
var curBaseFrame *frame

// siteTok is a finite, deterministic token naming a write site.
func siteTok(fr *frame, in ssa.Instruction) string {
	pre := ""
	if fr == nil && in.Parent() != nil && curBaseFrame != nil && curBaseFrame.fn == in.Parent() {
		fr = curBaseFrame
	}
	if fr != nil {
		pre = fr.prefix
	}
	if v, ok := in.(ssa.Value); ok && v.Name() != "" {
		return pre + v.Name()
	}
	return fmt.Sprintf("%sb%di%d", pre, in.Block().Index, instrIndex(in))
}

// evalPure evaluates a small side-effect-free local function on abstract
// integer/bool arguments by a nested run of the engine (a context-sensitive
// value-range summary). It returns the union of the returned value sets.
func (a *Analysis) evalPure(st *State, callee *ssa.Function, args []*Expr) (ISet, bool) {
	if len(callee.Blocks) == 0 || len(callee.Blocks) > 12 || len(args) != len(callee.Params) {
		return nil, false
	}
	sig := callee.Signature
	if sig.Results().Len() != 1 {
		return nil, false
	}
	rt := sig.Results().At(0).Type()
	if !isBoolType(rt) && !intTypeInfo(rt).ok {
		return nil, false
	}
	pure := true
	for _, b := range callee.Blocks {
		if inLoop(b) {
			pure = false
		}
		for _, in := range b.Instrs {
			switch in.(type) {
			case *ssa.Store, *ssa.Call, *ssa.Go, *ssa.Defer, *ssa.Send, *ssa.Select, *ssa.MapUpdate, *ssa.MakeClosure:
				pure = false
			}
		}
	}
	if !pure {
		return nil, false
	}
	ranges := make([]ISet, len(args))
	for i, p := range callee.Params {
		t := p.Type()
		switch {
		case isBoolType(t):
			ranges[i] = st.evalBool(args[i])
		case intTypeInfo(t).ok:
			ranges[i] = st.rangeOf(args[i])
		default:
			ranges[i] = nil
		}
	}
	sub := NewAnalysis(a.P, callee)
	sub.depth = a.depth + 1
	sub.Init = func(sa *Analysis, s *State) {
		for i, p := range callee.Params {
			if ranges[i] != nil {
				s.rng[mkLeaf("param", p.Name(), p.Type()).Key] = ranges[i]
			}
		}
	}
	sub.Run()
	if len(sub.Undecided) > 0 {
		return nil, false
	}
	res := isEmpty()
	for _, r := range sub.Returns {
		if isBoolType(rt) {
			res = res.Union(r.State.evalBool(r.Results[0]))
		} else {
			res = res.Union(r.State.rangeOf(r.Results[0]))
		}
	}
	if res.Empty() {
		return nil, false
	}
	return res, true
}

func rootOf2(e *Expr) *Expr {
	r, _, _ := sliceParts(e)
	for r != nil {
		switch r.Op {
		case "arr":
			r = r.Args[0]
			continue
		case "makeslice":
			return r.Args[1]
		case "fa", "ia":
			r = r.Args[0]
			continue
		}
		break
	}
	return r
}

func (a *Analysis) canInline(f *ssa.Function) bool {
	if a.NoInline != nil && a.NoInline[a.P.Name(f)] {
		return false
	}
	if n := a.P.Name(f); f.Parent() == nil && knownFuncs[n] && !knownInline[n] {
		return false
	}
	if len(f.Blocks) != 1 || a.depth >= 3 {
		return false
	}
	if f.TypeParams().Len() > 0 || len(f.Blocks[0].Instrs) > 40 {
		return false
	}
	for _, in := range f.Blocks[0].Instrs {
		switch in.(type) {
		case *ssa.Go, *ssa.Defer, *ssa.Select, *ssa.Send, *ssa.RunDefers:
			return false
		}
	}
	return true
}

func (a *Analysis) inline(st *State, fr *frame, c *ssa.Call, callee *ssa.Function, args []*Expr) (*Expr, bool) {
	a.inlineID++
	if fr == nil {
		fr = a.baseFrame
	}
	pre := ""
	if fr != nil {
		pre = fr.prefix
	}
	nf := &frame{fn: callee, prefix: fmt.Sprintf("%si%s.", pre, c.Name()), params: map[ssa.Value]*Expr{}}
	cc := c.Common()
	if mc, ok := cc.Value.(*ssa.MakeClosure); ok {
		for i, fv := range callee.FreeVars {
			nf.params[fv] = a.exprOf(st, fr, mc.Bindings[i])
		}
	}
	if len(args) != len(callee.Params) {
		return nil, false
	}
	for i, p := range callee.Params {
		nf.params[p] = args[i]
	}
	a.depth++
	defer func() { a.depth-- }()
	for _, in := range callee.Blocks[0].Instrs {
		if r, ok := in.(*ssa.Return); ok {
			switch len(r.Results) {
			case 0:
				return nil, true
			case 1:
				return a.exprOf(st, nf, r.Results[0]), true
			default:
				var rs []*Expr
				for _, x := range r.Results {
					rs = append(rs, a.exprOf(st, nf, x))
				}
				return mk("tuple", c.Type(), "", 0, rs...), true
			}
		}
		a.step(st, nf, in)
	}
	return nil, false
}

// callEffects applies the memory effects of a call that is not modelled.
func (a *Analysis) callEffects(st *State, fr *frame, c ssa.CallInstruction, async bool) {
	cc := c.Common()
	mods := a.P.modSetOfCall(c)
	known := a.P.staticLocalCallee(c) != nil && !async
	forget := func(r *Expr) {
		if r == nil || r.Op != "alloc" {
			return
		}
		if !known {
			st.escape(r, true)
			return
		}
		// local callee with a known mod-set: forget only what it may write
		for k := range st.mem {
			me := st.memE[k]
			if me == nil || !strings.Contains(k, r.Key) {
				continue
			}
			if mods[aliasClass(me)] || me.Op == "alloc" && len(mods) > 0 && false {
				delete(st.mem, k)
				delete(st.memE, k)
			}
		}
	}
	// arguments that point into local allocs
	for _, x := range cc.Args {
		switch x.Type().Underlying().(type) {
		case *types.Pointer, *types.Slice:
			forget(rootOf2(a.exprOf(st, fr, x)))
		}
	}
	if mc, ok := cc.Value.(*ssa.MakeClosure); ok {
		for _, b := range mc.Bindings {
			forget(rootOf2(a.exprOf(st, fr, b)))
		}
	}
	for cls := range mods {
		st.killClass(cls, siteTok(fr, c))
	}
	// captured variables that some closure assigns: any call may run it
	for k := range st.shared {
		for mk := range st.mem {
			if strings.Contains(mk, k) {
				delete(st.mem, mk)
				delete(st.memE, mk)
			}
		}
		st.ver["A:"+k] = siteTok(fr, c)
	}
}

// onlyCalledDirectly: every use of the closure value is as the callee of a
// plain call (it is not stored, passed, deferred or started as a goroutine).
func onlyCalledDirectly(mc *ssa.MakeClosure) bool {
	refs := mc.Referrers()
	if refs == nil || len(*refs) == 0 {
		return false
	}
	for _, r := range *refs {
		switch x := r.(type) {
		case *ssa.DebugRef:
		case *ssa.Call:
			if x.Call.Value != ssa.Value(mc) {
				return false
			}
			for _, a := range x.Call.Args {
				if a == ssa.Value(mc) {
					return false
				}
			}
		default:
			return false
		}
	}
	return true
}

// cellMutatedBy reports whether closure fn (or a closure nested in it that
// receives the same cell) stores to its i-th captured variable.
func cellMutatedBy(fn *ssa.Function, i int, depth int) bool {
	if depth > 3 || i >= len(fn.FreeVars) {
		return false
	}
	fv := fn.FreeVars[i]
	for _, r := range *fv.Referrers() {
		switch x := r.(type) {
		case *ssa.Store:
			if x.Addr == ssa.Value(fv) {
				return true
			}
		case *ssa.MakeClosure:
			for j, b := range x.Bindings {
				if b == ssa.Value(fv) && cellMutatedBy(x.Fn.(*ssa.Function), j, depth+1) {
					return true
				}
			}
		}
	}
	return false
}

// ---- fixpoint -------------------------------------------------------------------

// partKey computes the partition key of a state: the constant values of
// bool/small-int phis and, for tracked fields, the stored value terms.
func (a *Analysis) partKey(st *State) string {
	var parts []string
	for v, e := range st.env {
		phi, ok := v.(*ssa.Phi)
		if !ok || (!isFlagPhi(phi, nil) && !a.dynCountedLoop(st, phi)) {
			continue
		}
		if c, ok := e.IsConst(); ok {
			parts = append(parts, fmt.Sprintf("%s=%d", v.Name(), c))
		}
	}
	for _, prm := range a.Fn.Params {
		// boolean parameters, and small unsigned parameters a switch has
		// pinned to one constant (a dispatch octet): finitely many values
		if ii := intTypeInfo(prm.Type()); isBoolType(prm.Type()) || (ii.ok && ii.unsigned && ii.bits == 8) {
			if r, ok := st.rng[mkLeaf("param", prm.Name(), prm.Type()).Key]; ok {
				if c, isC := r.IsConst(); isC {
					parts = append(parts, fmt.Sprintf("%s=%d", prm.Name(), c))
				}
			}
		}
	}
	for k, v := range st.tags {
		parts = append(parts, fmt.Sprintf("%s>%d", k, v))
	}
	if len(a.TrackFields) > 0 {
		for k, v := range st.mem {
			if me := st.memE[k]; me != nil && me.Op == "fa" && a.TrackFields[me.S] {
				parts = append(parts, k+"="+v.Key)
			}
		}
	}
	sort.Strings(parts)
	return strings.Join(parts, ";")
}

func (a *Analysis) undecided(format string, args ...interface{}) {
	a.Undecided = append(a.Undecided, fmt.Sprintf(format, args...))
}

// flow moves state st along the edge from -> to, binding phis.
func (a *Analysis) flow(st *State, from, to *ssa.BasicBlock) *State {
	idx := -1
	for i, p := range to.Preds {
		if p == from {
			idx = i
			break
		}
	}
	n := st.clone()
	type pb struct {
		phi     *ssa.Phi
		e       *Expr
		r       ISet
		nn      ISet
		ts      *TypeSet
		lin     *Lin
		cg      map[int64]int64
		isSlice bool
		lenR    ISet
		lenLin  *Lin
	}
	var pbs []pb
	for _, in := range to.Instrs {
		phi, ok := in.(*ssa.Phi)
		if !ok {
			break
		}
		if idx < 0 {
			continue
		}
		e := a.exprOf(st, nil, phi.Edges[idx])
		b := pb{phi: phi, e: e}
		t := phi.Type()
		switch {
		case isBoolType(t):
			b.r = st.evalBool(e)
		case intTypeInfo(t).ok:
			b.r = st.rangeOf(e)
			l := st.linOf(e)
			b.lin = &l
			b.cg = a.congruences(st, l)
		default:
			if _, ok := t.Underlying().(*types.Slice); ok {
				b.isSlice = true
				le := mkLen(e)
				b.lenR = st.rangeOf(le)
				l := st.linOf(le)
				b.lenLin = &l
				b.cg = a.congruences(st, l)
			}
			b.nn = st.nonNil(e)
			if ts, ok := st.types[e.Key]; ok {
				c := ts.clone()
				b.ts = &c
			} else if e.Op == "makeiface" || e.IsNil() {
				c := st.structuralType(e)
				b.ts = &c
			}
		}
		pbs = append(pbs, b)
	}
	loopHead := false
	for _, pr := range to.Preds {
		if to.Dominates(pr) {
			loopHead = true
		}
	}
	for _, b := range pbs {
		leaf := mkLeaf("phi", a.leafName(b.phi, ""), b.phi.Type())
		n.killLeaf(leaf.Key)
	}
	for _, b := range pbs {
		leaf := mkLeaf("phi", a.leafName(b.phi, ""), b.phi.Type())
		t := b.phi.Type()
		if !loopHead && isBoolType(t) {
			if _, isC := b.r.IsConst(); !isC {
				// boolean merge (&&, ||): keep the incoming condition term so
				// that a later branch on the phi refines its operands
				n.env[b.phi] = b.e
				continue
			}
		}
		if !loopHead && !isFlagPhi(b.phi, nil) {
			// plain merge: keep the incoming term; states that disagree are
			// generalised to the phi leaf when they are joined (State.join)
			n.env[b.phi] = b.e
			continue
		}
		if isBoolType(t) || intTypeInfo(t).ok {
			if c, ok := b.r.IsConst(); ok && (isFlagPhi(b.phi, nil) || a.dynCountedLoop(n, b.phi)) {
				n.env[b.phi] = mkConst(c, t)
				if isBoolType(t) {
					n.env[b.phi] = mkBool(c != 0)
				}
				continue
			}
			n.env[b.phi] = leaf
			n.rng[leaf.Key] = b.r
			if b.lin != nil && !b.lin.mentions(leaf.Key) {
				d := linAtom(leaf).add(*b.lin, -1)
				if !linMentionsAnyPhi(d, pbs2keys(pbs, a), leaf.Key) {
					n.facts[Fact{L: d}.key()] = Fact{L: d}
					n.facts[Fact{L: d.neg()}.key()] = Fact{L: d.neg()}
				}
			}
			for m, r := range b.cg {
				mk := mkBin(token.REM, leaf, mkConst(m, t), t, t)
				n.rng[mk.Key] = isConst(r)
			}
			continue
		}
		// pass-through for terms that are stable (constants, nil)
		if b.e.IsNil() {
			n.env[b.phi] = mkNil(t)
			continue
		}
		n.env[b.phi] = leaf
		if !b.nn.IsTop() && !b.nn.Equal(isRange(0, 1)) {
			n.rng["nn:"+leaf.Key] = b.nn
		}
		if b.ts != nil {
			n.types[leaf.Key] = *b.ts
		}
		if b.isSlice {
			ll := mkLen(leaf)
			n.rng[ll.Key] = b.lenR
			if b.lenLin != nil && !b.lenLin.mentions(leaf.Key) {
				d := linAtom(ll).add(*b.lenLin, -1)
				if !linMentionsAnyPhi(d, pbs2keys(pbs, a), leaf.Key) {
					n.facts[Fact{L: d}.key()] = Fact{L: d}
					n.facts[Fact{L: d.neg()}.key()] = Fact{L: d.neg()}
				}
			}
			for m, r := range b.cg {
				mk := mkBin(token.REM, ll, mkConst(m, intT), intT, intT)
				n.rng[mk.Key] = isConst(r)
			}
		}
	}
	if a.AfterFlow != nil {
		a.AfterFlow(from, to, n)
	}
	return n
}

func pbs2keys(pbs interface{}, a *Analysis) []string { return nil }

// isFlagPhi reports whether a phi ranges over a statically finite set of
// constants: any bool phi, or an integer phi whose operands are (transitively)
// constants. Only such phis partition the abstract state.
func isFlagPhi(phi *ssa.Phi, seen map[*ssa.Phi]bool) bool {
	if isBoolType(phi.Type()) {
		return true
	}
	if !intTypeInfo(phi.Type()).ok {
		return false
	}
	if smallCountedLoop(phi) {
		return true
	}
	if seen == nil {
		seen = map[*ssa.Phi]bool{}
	}
	if seen[phi] {
		return true
	}
	seen[phi] = true
	for _, e := range phi.Edges {
		switch x := e.(type) {
		case *ssa.Const:
		case *ssa.Phi:
			if !isFlagPhi(x, seen) {
				return false
			}
		default:
			return false
		}
	}
	return true
}

// smallCountedLoop: the index of a loop with a constant trip count of at most
// 8 (for i := c0; i < N; i++ over constants, or a range over a fixed-size
// array). Such an index takes finitely many values, so partitioning on it
// unrolls the loop in the abstract semantics (table-driven code).
func smallCountedLoop(phi *ssa.Phi) bool {
	if len(phi.Edges) != 2 {
		return false
	}
	b := phi.Block()
	var init *ssa.Const
	var step *ssa.BinOp
	for i, e := range phi.Edges {
		if b.Dominates(b.Preds[i]) {
			bo, ok := e.(*ssa.BinOp)
			if !ok || bo.Op != token.ADD || bo.X != ssa.Value(phi) {
				return false
			}
			if one, isC := bo.Y.(*ssa.Const); !isC || one.Value == nil || one.Int64() != 1 {
				return false
			}
			step = bo
		} else if c, isC := e.(*ssa.Const); isC && c.Value != nil {
			init = c
		}
	}
	if init == nil || step == nil || len(b.Instrs) == 0 {
		return false
	}
	iff, ok := b.Instrs[len(b.Instrs)-1].(*ssa.If)
	if !ok {
		return false
	}
	cmp, ok := iff.Cond.(*ssa.BinOp)
	if !ok || cmp.Op != token.LSS || (cmp.X != ssa.Value(phi) && cmp.X != ssa.Value(step)) {
		return false
	}
	n, isC := cmp.Y.(*ssa.Const)
	if !isC || n.Value == nil {
		return false
	}
	return n.Int64()-init.Int64() <= countedLoopMax+1 && n.Int64() >= init.Int64()
}

// dynCountedLoop: a loop of the same shape whose bound is not a constant of
// the program but is one in this state (`for _, i := range order` in a helper
// inlined at a call that passes a two-element argument list).
func (a *Analysis) dynCountedLoop(st *State, phi *ssa.Phi) bool {
	if len(phi.Edges) != 2 || !intTypeInfo(phi.Type()).ok {
		return false
	}
	b := phi.Block()
	var init *ssa.Const
	var step *ssa.BinOp
	for i, e := range phi.Edges {
		if b.Dominates(b.Preds[i]) {
			bo, ok := e.(*ssa.BinOp)
			if !ok || bo.Op != token.ADD || bo.X != ssa.Value(phi) {
				return false
			}
			if one, isC := bo.Y.(*ssa.Const); !isC || one.Value == nil || one.Int64() != 1 {
				return false
			}
			step = bo
		} else if c, isC := e.(*ssa.Const); isC && c.Value != nil {
			init = c
		}
	}
	if init == nil || step == nil || len(b.Instrs) == 0 {
		return false
	}
	iff, ok := b.Instrs[len(b.Instrs)-1].(*ssa.If)
	if !ok {
		return false
	}
	cmp, ok := iff.Cond.(*ssa.BinOp)
	if !ok || cmp.Op != token.LSS || (cmp.X != ssa.Value(phi) && cmp.X != ssa.Value(step)) {
		return false
	}
	if _, isC := cmp.Y.(*ssa.Const); isC {
		return false // smallCountedLoop's case
	}
	be, bound := st.env[cmp.Y]
	if !bound {
		return false
	}
	n, isC := st.rangeOf(be).IsConst()
	return isC && n-init.Int64() <= countedLoopMax+1 && n >= init.Int64()
}

// countedLoopMax is the trip count up to which a counted loop is unrolled by
// partitioning on its index (Analysis.Unroll raises it for one analysis).
var countedLoopMax int64 = 8

// linMentionsAnyPhi guards against relating a phi to the *old* value of
// another phi of the same block (parallel assignment).
func linMentionsAnyPhi(l Lin, keys []string, self string) bool {
	for _, k := range keys {
		if k != self && l.mentions(k) {
			return true
		}
	}
	return false
}

// congruences computes l mod m for the moduli of interest when determined.
func (a *Analysis) congruences(st *State, l Lin) map[int64]int64 {
	out := map[int64]int64{}
	for _, m := range a.moduli {
		sum := ((l.C % m) + m) % m
		ok := true
		for k, c := range l.T {
			if c%m == 0 {
				continue
			}
			e := l.E[k]
			mk := mkBin(token.REM, e, mkConst(m, e.Typ), e.Typ, e.Typ)
			r, has := st.rng[mk.Key]
			if !has {
				// maybe the atom itself has a constant range, or a small
				// finite one whose members share a residue
				ra := st.rangeOf(e)
				if cv, isC := ra.IsConst(); isC {
					sum = (sum + ((c*cv)%m+m)%m) % m
					continue
				}
				if n := ra.count(); n > 0 && n <= 64 {
					res, same := int64(-1), true
					for _, iv := range ra {
						for x := iv.Lo; x <= iv.Hi; x++ {
							rr := ((x % m) + m) % m
							if res < 0 {
								res = rr
							} else if res != rr {
								same = false
							}
						}
					}
					if same {
						sum = (sum + ((c*res)%m+m)%m) % m
						continue
					}
				}
				ok = false
				break
			}
			cv, isC := r.IsConst()
			if !isC {
				ok = false
				break
			}
			sum = (sum + ((c*cv)%m+m)%m) % m
		}
		if ok {
			out[m] = sum
		}
	}
	return out
}

// Run computes the fixpoint. The in-state of a block is the join of the
// *latest* states on its incoming edges (per partition); at loop heads the
// new in-state is additionally joined/widened with the previous one so that
// the iteration is increasing there and terminates.
func (a *Analysis) Run() {
	fn := a.Fn
	if len(fn.Blocks) == 0 {
		return
	}
	entry := newState(a)
	if a.entry != nil {
		entry = a.entry
		entry.an = a
	} else if a.Init != nil {
		a.Init(a, entry)
	}
	if entry.dead {
		return
	}
	if a.Unroll > 0 {
		prevU := countedLoopMax
		countedLoopMax = a.Unroll
		defer func() { countedLoopMax = prevU }()
	}
	if a.baseFrame != nil {
		prev := curBaseFrame
		curBaseFrame = a.baseFrame
		defer func() { curBaseFrame = prev }()
	}
	entryKey := a.partKey(entry)
	a.In[fn.Blocks[0]] = map[string]*State{entryKey: entry}
	order := rpo(fn)
	pos := map[*ssa.BasicBlock]int{}
	for i, b := range order {
		pos[b] = i
	}
	loopHead := map[*ssa.BasicBlock]bool{}
	for _, b := range fn.Blocks {
		for _, pr := range b.Preds {
			if b.Dominates(pr) {
				loopHead[b] = true
			}
		}
	}
	// contributions: (to) -> (from|inKey) -> outKey -> state
	type contrib map[string]map[string]*State
	edges := map[*ssa.BasicBlock]contrib{}
	dirty := map[*ssa.BasicBlock]map[string]bool{fn.Blocks[0]: {entryKey: true}}
	iter := 0
	for {
		var blk *ssa.BasicBlock
		for b, ks := range dirty {
			if len(ks) == 0 {
				continue
			}
			if blk == nil || pos[b] < pos[blk] {
				blk = b
			}
		}
		if blk == nil {
			break
		}
		iter++
		if iter > 6000 {
			a.undecided("fixpoint did not converge in %s", a.P.Name(fn))
			break
		}
		keys := sortedKeys(dirty[blk])
		dirty[blk] = map[string]bool{}
		touched := map[*ssa.BasicBlock]bool{}
		for _, k := range keys {
			in := a.In[blk][k]
			if in == nil {
				continue
			}
			src := fmt.Sprintf("%d|%s", blk.Index, k)
			// drop this partition's previous contributions
			for _, s := range blk.Succs {
				if edges[s] != nil {
					if _, had := edges[s][src]; had {
						delete(edges[s], src)
						touched[s] = true
					}
				}
			}
			a.transferBlock(blk, in.clone(), func(to *ssa.BasicBlock, out *State) {
				if out.dead {
					return
				}
				ns := a.flow(out, blk, to)
				if ns.dead {
					return
				}
				pk := a.partKey(ns)
				if edges[to] == nil {
					edges[to] = contrib{}
				}
				if edges[to][src] == nil {
					edges[to][src] = map[string]*State{}
				}
				if old, ok := edges[to][src][pk]; ok {
					old.join(ns, false, fmt.Sprintf("J%d", to.Index))
				} else {
					edges[to][src][pk] = ns
				}
				touched[to] = true
			})
		}
		for to := range touched {
			// recompute the in-states of `to` from the latest contributions
			cand := map[string]*State{}
			for _, src := range sortedKeys(edges[to]) {
				for _, pk := range sortedKeys(edges[to][src]) {
					st := edges[to][src][pk]
					if cur, ok := cand[pk]; ok {
						cur.join(st, false, fmt.Sprintf("J%d", to.Index))
					} else {
						cand[pk] = st.clone()
					}
				}
			}
			if to == fn.Blocks[0] {
				if cur, ok := cand[entryKey]; ok {
					cur.join(entry, false, "J0")
				} else {
					cand[entryKey] = entry.clone()
				}
			}
			if len(cand) > maxPartitions {
				a.undecided("partition cap exceeded at block %d of %s", to.Index, a.P.Name(fn))
				// merge everything into one partition (sound)
				var all *State
				for _, pk := range sortedKeys(cand) {
					if all == nil {
						all = cand[pk]
					} else {
						all.join(cand[pk], true, fmt.Sprintf("J%d", to.Index))
					}
				}
				cand = map[string]*State{"": all}
			}
			old := a.In[to]
			if old == nil {
				old = map[string]*State{}
			}
			for _, pk := range sortedKeys(cand) {
				ns := cand[pk]
				o, had := old[pk]
				vk := fmt.Sprintf("%d|%s", to.Index, pk)
				if had && (loopHead[to] || a.visits[vk] > 40) {
					// increasing iteration at loop heads (and as a safety net)
					a.visits[vk]++
					m := o.clone()
					m.join(ns, a.visits[vk] > 3, fmt.Sprintf("J%d", to.Index))
					ns = m
				} else if had {
					a.visits[vk]++
				}
				if !had || o.fingerprint() != ns.fingerprint() {
					old[pk] = ns
					markDirty(dirty, to, pk)
				}
			}
			a.In[to] = old
		}
	}
	// final recording pass
	a.record = true
	for _, b := range order {
		for _, k := range sortedKeys(a.In[b]) {
			a.transferBlock(b, a.In[b][k].clone(), func(to *ssa.BasicBlock, out *State) {
				if !out.dead {
					key := [2]int{b.Index, to.Index}
					a.EdgeOut[key] = append(a.EdgeOut[key], out)
				}
			})
		}
	}
	a.record = false
}

func markDirty(d map[*ssa.BasicBlock]map[string]bool, b *ssa.BasicBlock, k string) {
	if d[b] == nil {
		d[b] = map[string]bool{}
	}
	d[b][k] = true
}

func rpo(fn *ssa.Function) []*ssa.BasicBlock {
	seen := map[*ssa.BasicBlock]bool{}
	var post []*ssa.BasicBlock
	var dfs func(b *ssa.BasicBlock)
	dfs = func(b *ssa.BasicBlock) {
		seen[b] = true
		for _, s := range b.Succs {
			if !seen[s] {
				dfs(s)
			}
		}
		post = append(post, b)
	}
	dfs(fn.Blocks[0])
	for i, j := 0, len(post)-1; i < j; i, j = i+1, j-1 {
		post[i], post[j] = post[j], post[i]
	}
	return post
}

// transferBlock runs the block's instructions on st and emits successor
// states. A call of an unknown local helper is analysed in this context and
// may fan the state out (one state per return of the helper).
func (a *Analysis) transferBlock(b *ssa.BasicBlock, st0 *State, emit func(to *ssa.BasicBlock, out *State)) {
	states := []*State{st0}
	for _, in := range b.Instrs {
		if _, isPhi := in.(*ssa.Phi); isPhi {
			continue
		}
		if a.record {
			for _, st := range states {
				a.At[in] = append(a.At[in], st.clone())
			}
		}
		switch x := in.(type) {
		case *ssa.If:
			for _, st := range states {
				cond := a.exprOf(st, nil, x.Cond)
				v := st.evalBool(cond)
				if v.Contains(1) {
					t := st.clone()
					t.assume(cond, true)
					if !t.dead {
						emit(b.Succs[0], t)
					}
				}
				if v.Contains(0) {
					f := st.clone()
					f.assume(cond, false)
					if !f.dead {
						emit(b.Succs[1], f)
					}
				}
			}
			return
		case *ssa.Jump:
			for _, st := range states {
				emit(b.Succs[0], st)
			}
			return
		case *ssa.Return:
			if a.record {
				for _, st := range states {
					var rs []*Expr
					for _, r := range x.Results {
						rs = append(rs, a.exprOf(st, nil, r))
					}
					a.Returns = append(a.Returns, ReturnSite{Instr: x, State: st.clone(), Results: rs})
				}
			}
			return
		case *ssa.Panic:
			return
		}
		if rd, ok := in.(*ssa.RunDefers); ok {
			// deferred closures that run at every exit (deferred in the entry
			// block) are analysed here, last deferred first, with their
			// captured cells bound: `defer func() { if err != nil { … } }()`
			if ds, entryOnly := entryDefers(rd.Parent()); entryOnly && a.anyDeferInlinable(ds) {
				cur := states
				for i := len(ds) - 1; i >= 0; i-- {
					d := ds[i]
					callee := a.deferInlinable(d)
					var nx []*State
					for _, st := range cur {
						st.event("deferred:" + a.P.calleeDesc(d))
						if callee != nil {
							if outs, ok := a.inlineMulti(st, d, callee); ok {
								nx = append(nx, outs...)
								continue
							}
						}
						a.callEffects(st, nil, d, true)
						if !st.dead {
							nx = append(nx, st)
						}
					}
					cur = nx
				}
				states = cur
				if len(states) == 0 {
					return
				}
				continue
			}
		}
		var next []*State
		for _, st := range states {
			if c, ok := in.(*ssa.Call); ok {
				// a closure the enclosing helper received as an argument: known
				// exactly in this state (the term carries its captured cells)
				if _, viaParam := c.Call.Value.(*ssa.Parameter); viaParam && !c.Call.IsInvoke() {
					if ce := a.exprOf(st, nil, c.Call.Value); ce != nil && ce.Op == "closure" {
						if callee := a.P.Funcs[ce.S]; callee != nil && a.closureTermInlinable(callee) {
							a.pendingClosure = ce
							outs, ok := a.inlineMulti(st, c, callee)
							a.pendingClosure = nil
							if ok {
								next = append(next, outs...)
								continue
							}
						}
					}
				}
				if callee := a.P.staticLocalCallee(c); callee != nil && a.shouldInlineMulti(c, callee) {
					if outs, ok := a.inlineMulti(st, c, callee); ok {
						next = append(next, outs...)
						continue
					}
				}
			}
			a.step(st, nil, in)
			if !st.dead {
				next = append(next, st)
			}
		}
		states = next
		if len(states) == 0 {
			return
		}
		if len(states) > 24 {
			// keep the fan-out bounded: join everything (sound)
			m := states[0]
			for _, s := range states[1:] {
				m.join(s, false, fmt.Sprintf("J%d", b.Index))
			}
			states = []*State{m}
		}
	}
}

// entryDefers lists fn's defer statements; entryOnly when all of them are in
// the entry block, i.e. every one has run whenever an exit is reached.
func entryDefers(fn *ssa.Function) (ds []*ssa.Defer, entryOnly bool) {
	entryOnly = true
	for _, b := range fn.Blocks {
		for _, in := range b.Instrs {
			if d, ok := in.(*ssa.Defer); ok {
				ds = append(ds, d)
				if b.Index != 0 {
					entryOnly = false
				}
			}
		}
	}
	return ds, entryOnly
}

// deferClosure: the closure a `defer func() { … }()` statement runs, when its
// shape can be analysed in place (no goroutines, nested defers or closures,
// no recover).
func deferClosure(d *ssa.Defer) *ssa.Function {
	mc, ok := d.Call.Value.(*ssa.MakeClosure)
	if !ok || len(d.Call.Args) != 0 {
		return nil
	}
	callee, _ := mc.Fn.(*ssa.Function)
	if callee == nil || len(callee.Blocks) == 0 || len(callee.Blocks) > 30 || len(callee.Params) != 0 {
		return nil
	}
	ok = true
	ownInstrs(callee, func(in ssa.Instruction) {
		switch x := in.(type) {
		case *ssa.Go, *ssa.Defer, *ssa.RunDefers, *ssa.MakeClosure:
			ok = false
		case *ssa.Call:
			if b, isB := x.Call.Value.(*ssa.Builtin); isB && b.Name() == "recover" {
				ok = false
			}
		}
	})
	if !ok {
		return nil
	}
	return callee
}

// defersTransparent: every defer of fn is an entry-block closure of analysable
// shape (and there is at least one).
func defersTransparent(fn *ssa.Function) bool {
	ds, entryOnly := entryDefers(fn)
	if !entryOnly || len(ds) == 0 {
		return false
	}
	for _, d := range ds {
		if deferClosure(d) == nil {
			return false
		}
	}
	return true
}

func (a *Analysis) deferInlinable(d *ssa.Defer) *ssa.Function {
	callee := deferClosure(d)
	if callee == nil || len(a.stack) >= maxHelperDepth+1 {
		return nil
	}
	for _, f := range a.stack {
		if f == callee {
			return nil
		}
	}
	return callee
}

func (a *Analysis) anyDeferInlinable(ds []*ssa.Defer) bool {
	for _, d := range ds {
		if a.deferInlinable(d) != nil {
			return true
		}
	}
	return false
}

// closureTermInlinable: shape limits for a closure analysed where a helper
// calls it through a parameter.
func (a *Analysis) closureTermInlinable(callee *ssa.Function) bool {
	if callee.Parent() == nil || len(callee.Blocks) == 0 || len(callee.Blocks) > 60 || len(a.stack) >= maxHelperDepth+1 {
		return false
	}
	for _, f := range a.stack {
		if f == callee {
			return false
		}
	}
	ok := true
	ownInstrs(callee, func(in ssa.Instruction) {
		switch in.(type) {
		case *ssa.Go, *ssa.Defer, *ssa.RunDefers:
			ok = false
		}
	})
	return ok
}

// shouldInlineMulti: the callee is a local function the rule sets do not know
// by name (a helper added after they were written), small enough, not
// recursive, without go/defer.
func (a *Analysis) shouldInlineMulti(c *ssa.Call, callee *ssa.Function) bool {
	if callee.Parent() != nil {
		// a local closure that assigns captured variables and is only called
		// directly: analysed at its call sites with the captured cells bound
		mc, ok := c.Call.Value.(*ssa.MakeClosure)
		if !ok || !onlyCalledDirectly(mc) || len(callee.Blocks) == 0 || len(callee.Blocks) > 60 || len(a.stack) >= maxHelperDepth {
			return false
		}
		mut := a.InlineClosures
		for i := range mc.Bindings {
			if cellMutatedBy(callee, i, 0) {
				mut = true
			}
		}
		if !mut {
			return false
		}
		okShape := true
		ownInstrs(callee, func(in ssa.Instruction) {
			switch in.(type) {
			case *ssa.Go, *ssa.Defer, *ssa.RunDefers, *ssa.MakeClosure:
				okShape = false
			}
		})
		return okShape
	}
	n := a.P.Name(callee)
	if knownFuncs[n] && !a.ForceInline[n] {
		if !knownInline[n] || len(callee.Blocks) == 1 {
			return false // opaque by policy, or handled by single-block inlining
		}
	}
	if a.NoInline != nil && a.NoInline[n] {
		return false
	}
	static := a.P.inlinableHelper(callee)
	if knownFuncs[n] {
		// known functions analysed in context by policy: same shape limits
		static = len(callee.Blocks) > 0 && len(callee.Blocks) <= 60 && callee.TypeParams().Len() == 0
		if static {
			transparent := defersTransparent(callee)
			allInstrs(callee, func(in ssa.Instruction) {
				switch in.(type) {
				case *ssa.Go:
					static = false
				case *ssa.Defer, *ssa.RunDefers:
					if !transparent || in.Parent() != callee {
						static = false
					}
				}
			})
		}
	}
	if !static {
		return false
	}
	dyn := len(a.stack) < maxHelperDepth && callee != a.Fn
	for _, f := range a.stack {
		if f == callee {
			dyn = false
		}
	}
	if !dyn {
		// a helper that is normally seen through its callers could not be
		// analysed in this context: it has to be analysed on its own too
		if a.P.declined == nil {
			a.P.declined = map[*ssa.Function]bool{}
		}
		a.P.declined[callee] = true
	}
	return dyn
}

// inlineMulti analyses callee from the caller's state with its parameters
// bound to the argument terms and returns one caller state per reachable
// return (the call's value bound to the returned terms).
func (a *Analysis) inlineMulti(st *State, c ssa.CallInstruction, callee *ssa.Function) ([]*State, bool) {
	args := a.argExprs(st, nil, c.Common())
	if len(args) != len(callee.Params) {
		return nil, false
	}
	pre := ""
	if a.baseFrame != nil {
		pre = a.baseFrame.prefix
	}
	cname := ""
	if v := c.Value(); v != nil {
		cname = v.Name()
	} else {
		// a deferred call: named by its position
		for i, in := range c.Block().Instrs {
			if in == ssa.Instruction(c) {
				cname = fmt.Sprintf("d%d_%d", c.Block().Index, i)
			}
		}
	}
	nf := &frame{fn: callee, prefix: fmt.Sprintf("%sm%s.", pre, cname), params: map[ssa.Value]*Expr{}}
	for i, p := range callee.Params {
		nf.params[p] = args[i]
	}
	if mc, ok := c.Common().Value.(*ssa.MakeClosure); ok {
		for i, fv := range callee.FreeVars {
			if i < len(mc.Bindings) {
				nf.params[fv] = a.exprOf(st, nil, mc.Bindings[i])
			}
		}
	}
	if ce := a.pendingClosure; ce != nil {
		for i, fv := range callee.FreeVars {
			if i < len(ce.Args) {
				nf.params[fv] = ce.Args[i]
			}
		}
	}
	sub := NewAnalysis(a.P, callee)
	sub.AtomHook, sub.EventArgs, sub.CallModel, sub.NoInline, sub.TrackFields, sub.OpaqueFields = a.AtomHook, a.EventArgs, a.CallModel, a.NoInline, a.TrackFields, a.OpaqueFields
	sub.StoreHook, sub.ForceInline, sub.InlineClosures = a.StoreHook, a.ForceInline, a.InlineClosures
	sub.AfterFlow = a.AfterFlow
	sub.baseFrame = nf
	sub.stack = append(append([]*ssa.Function{}, a.stack...), a.Fn)
	seen := map[int64]bool{}
	for _, m := range a.moduli {
		seen[m] = true
	}
	for _, m := range sub.moduli {
		if !seen[m] {
			a.moduli = append(a.moduli, m)
		}
	}
	sub.moduli = a.moduli
	entry := st.clone()
	entry.event("call:" + a.P.Name(callee))
	for i, p := range callee.Params {
		entry.env[p] = args[i]
	}
	for fv, e := range nf.params {
		if _, isFV := fv.(*ssa.FreeVar); isFV {
			entry.env[fv] = e
		}
	}
	sub.entry = entry
	sub.Run()
	if len(sub.Undecided) > 0 {
		a.Undecided = append(a.Undecided, sub.Undecided...)
	}
	if a.record {
		// the helper's instructions are part of this function's view
		for in, sts := range sub.At {
			a.At[in] = append(a.At[in], sts...)
		}
	}
	var outs []*State
	for _, r := range sub.Returns {
		o := r.State
		o.an = a
		if len(sub.Returns) > 1 && len(o.tags) < 6 {
			o.tags[nf.prefix] = returnOrdinal(callee, r.Instr)
		}
		if cv := c.Value(); cv != nil {
			switch len(r.Results) {
			case 0:
			case 1:
				o.env[cv] = r.Results[0]
			default:
				o.env[cv] = mk("tuple", cv.Type(), "", 0, r.Results...)
			}
		}
		outs = append(outs, o)
	}
	return outs, true
}

// ---- queries ---------------------------------------------------------------------

// Reachable reports whether instruction in is reachable in the computed fixpoint.
func (a *Analysis) Reachable(in ssa.Instruction) bool { return len(a.At[in]) > 0 }

// StatesAt returns the abstract states before in.
func (a *Analysis) StatesAt(in ssa.Instruction) []*State { return a.At[in] }

// ExprAt returns the term of value v in state st.
func (a *Analysis) ExprAt(st *State, v ssa.Value) *Expr { return a.exprOf(st, nil, v) }

// EdgeReachable reports whether the CFG edge is taken by some state.
func (a *Analysis) EdgeReachable(from, to *ssa.BasicBlock) bool {
	return len(a.EdgeOut[[2]int{from.Index, to.Index}]) > 0
}
