package main

// Pattern helpers over terms, used to state assumptions and spec tables in
// terms of anchors (fields, parameters) rather than SSA register names.

import (
	"strings"

	"golang.org/x/tools/go/ssa"
)

// isLoadOfField: e is a load of x.<field> (any base).
func isLoadOfField(e *Expr, field string) bool {
	return e != nil && e.Op == "ld" && len(e.Args) == 1 && e.Args[0].Op == "fa" && e.Args[0].S == field
}

// isFieldVal: e is the field <field> of a struct value.
func isFieldVal(e *Expr, field string) bool {
	return e != nil && e.Op == "fv" && e.S == field
}

// isFieldRead: either form.
func isFieldRead(e *Expr, field string) bool { return isLoadOfField(e, field) || isFieldVal(e, field) }

func isParamNamed(e *Expr, name string) bool {
	return e != nil && (e.Op == "param" || e.Op == "free") && e.S == name+"#"
}

func isCallNamed(e *Expr, name string) bool { return e != nil && e.Op == "call" && e.S == name }

// cmpOf decomposes a comparison term: op in {"==","!=","<","<="}.
func cmpOf(e *Expr) (op string, x, y *Expr, ok bool) {
	if e == nil || e.Op != "bin" || !cmpBinOp(e.binOp()) {
		return "", nil, nil, false
	}
	return e.binOp(), e.Args[0], e.Args[1], true
}

// relHook builds an AtomHook fragment fixing the relation between two terms
// recognised by px/py. rel is one of "<", "==", ">", "!=" (x rel y).
func relHook(px, py func(*Expr) bool, rel string) func(e *Expr) (ISet, bool) {
	return func(e *Expr) (ISet, bool) {
		op, x, y, ok := cmpOf(e)
		if !ok {
			return nil, false
		}
		r := rel
		switch {
		case px(x) && py(y):
		case px(y) && py(x):
			// e is (y' op x'): flip the relation
			switch rel {
			case "<":
				r = ">"
			case ">":
				r = "<"
			}
		default:
			return nil, false
		}
		// now: e = (A op B) with A r B known
		var t, known bool
		switch op {
		case "==":
			switch r {
			case "==":
				t, known = true, true
			case "<", ">", "!=":
				t, known = false, true
			}
		case "!=":
			switch r {
			case "==":
				t, known = false, true
			case "<", ">", "!=":
				t, known = true, true
			}
		case "<":
			switch r {
			case "<":
				t, known = true, true
			case "==", ">":
				t, known = false, true
			}
		case "<=":
			switch r {
			case "<", "==":
				t, known = true, true
			case ">":
				t, known = false, true
			}
		}
		if !known {
			return nil, false
		}
		return isConst(b2i(t)), true
	}
}

// rangeHook fixes the value set of atoms recognised by p.
func rangeHook(p func(*Expr) bool, set ISet) func(e *Expr) (ISet, bool) {
	return func(e *Expr) (ISet, bool) {
		if p(e) {
			return set, true
		}
		return nil, false
	}
}

// hooks combines hook fragments (first match wins).
func hooks(hs ...func(e *Expr) (ISet, bool)) func(e *Expr) (ISet, bool) {
	return func(e *Expr) (ISet, bool) {
		for _, h := range hs {
			if v, ok := h(e); ok {
				return v, true
			}
		}
		return nil, false
	}
}

// ---- call-site helpers ---------------------------------------------------------

// callsIn returns the call instructions (Call/Go/Defer) of fn (not of nested
// closures) whose callee description satisfies pred.
func (p *Prog) callsIn(fn *ssa.Function, pred func(desc string) bool) []ssa.CallInstruction {
	var out []ssa.CallInstruction
	if fn == nil {
		return nil
	}
	allInstrs(fn, func(in ssa.Instruction) {
		if c, ok := in.(ssa.CallInstruction); ok {
			if pred(p.calleeDesc(c)) {
				out = append(out, c)
			}
		}
	})
	return out
}

// callsDeep is callsIn over fn and its nested closures.
func (p *Prog) callsDeep(fn *ssa.Function, pred func(desc string) bool) []ssa.CallInstruction {
	var out []ssa.CallInstruction
	if fn == nil {
		return nil
	}
	for _, f := range withAnon(fn) {
		out = append(out, p.callsIn(f, pred)...)
	}
	return out
}

func descIs(names ...string) func(string) bool {
	return func(d string) bool {
		for _, n := range names {
			if d == n {
				return true
			}
		}
		return false
	}
}

func descHasPrefix(pre string) func(string) bool {
	return func(d string) bool { return strings.HasPrefix(d, pre) }
}
