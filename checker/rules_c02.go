package main

// C02 — OPEN handshake: exactly the valid OPENs are accepted, others refused
// with a NOTIFICATION that names a fault actually present.

import (
	"fmt"
	"go/types"
	"os"
	"strings"

	"golang.org/x/tools/go/ssa"
)

func init() { register("C02", checkC02) }

// retSite is a reachable return with its error classification.
type retSite struct {
	rs  ReturnSite
	ec  ErrClass
	pos string
}

// errReturns classifies the error result (last result) of every reachable
// return of the analysed function.
func (p *Prog) errReturns(a *Analysis) []retSite {
	var out []retSite
	for _, r := range a.Returns {
		if len(r.Results) == 0 {
			continue
		}
		e := r.Results[len(r.Results)-1]
		out = append(out, retSite{rs: r, ec: p.classifyErr(r.State, e), pos: p.InstrPos(r.Instr)})
	}
	return out
}

type asmCase struct {
	name string
	hook func(e *Expr) (ISet, bool)
	init func(a *Analysis, st *State)
	// forbid returns a non-empty description when the return site must not be
	// reachable under the assumption.
	forbid func(rs retSite) string
	// noBackEdge: additionally no loop back edge may be reachable (the fault
	// is in the element currently iterated; the iteration must not continue)
	noBackEdge bool
	// force: known functions analysed in place for this case
	force []string
}

func isAccept(rs retSite) bool { return rs.ec.Kind == "nil" }

func notifIs(rs retSite, code, sub int64) bool {
	if rs.ec.Notif == nil {
		return false
	}
	return rs.ec.Notif.Code.Contains(code) && rs.ec.Notif.Sub.Contains(sub)
}

func forbidAccept(rs retSite) string {
	if isAccept(rs) {
		return "accepting return (nil error) is reachable"
	}
	return ""
}

func forbidNotif(code, sub int64) func(rs retSite) string {
	return func(rs retSite) string {
		if notifIs(rs, code, sub) {
			return fmt.Sprintf("NOTIFICATION (%d,%d) is reachable", code, sub)
		}
		return ""
	}
}

// runCases evaluates assumption cases on fn.
func (c *Check) runCases(rule string, fnName string, cases []asmCase) {
	fn := c.P.Fn(fnName)
	if fn == nil {
		return
	}
	for _, cs := range cases {
		a := NewAnalysis(c.P, fn)
		a.AtomHook = cs.hook
		a.Init = cs.init
		if len(cs.force) > 0 {
			a.ForceInline = map[string]bool{}
			for _, f := range cs.force {
				a.ForceInline[f] = true
			}
		}
		a.Run()
		if len(a.Undecided) > 0 {
			c.undecided(rule, fnName, cs.name, c.P.Pos(fn.Pos()), "value-set analysis undecided: "+a.Undecided[0])
			continue
		}
		bad := ""
		badPos := c.P.Pos(fn.Pos())
		for _, rs := range c.P.errReturns(a) {
			if d := cs.forbid(rs); d != "" {
				bad = d
				badPos = rs.pos
				if os.Getenv("CBGP_DEBUG") != "" {
					fmt.Printf("DEBUG %s [%s] %s\n   %s\n", fnName, cs.name, rs.pos, rs.rs.State.digest())
					for _, b := range fn.Blocks {
						fmt.Printf("   block %d: %v\n", b.Index, sortedKeys(a.In[b]))
						if b.Index == 17 || b.Index == 15 {
							for k, st := range a.In[b] {
								fmt.Printf("      [%s] %s\n", k, st.digest())
							}
						}
					}
				}
				break
			}
		}
		if bad == "" && cs.noBackEdge {
			// the loop that examines the element: the innermost loop whose
			// body reads a field of a Capability (all loops if none does)
			elemBlocks := map[*ssa.BasicBlock]bool{}
			ownInstrs(fn, func(in ssa.Instruction) {
				switch x := in.(type) {
				case *ssa.FieldAddr:
					if structNameOfPtr(x.X.Type()) == "Capability" {
						elemBlocks[x.Block()] = true
					}
				case *ssa.Field:
					if typeNameOf(x.X.Type()) == "Capability" {
						elemBlocks[x.Block()] = true
					}
				}
			})
			loopBody := func(head, tail *ssa.BasicBlock) map[*ssa.BasicBlock]bool {
				body := map[*ssa.BasicBlock]bool{head: true}
				stack := []*ssa.BasicBlock{tail}
				for len(stack) > 0 {
					x := stack[len(stack)-1]
					stack = stack[:len(stack)-1]
					if body[x] {
						continue
					}
					body[x] = true
					stack = append(stack, x.Preds...)
				}
				return body
			}
			best := -1
			type be struct{ b, s *ssa.BasicBlock }
			var cands []be
			for _, b := range fn.Blocks {
				for _, s := range b.Succs {
					if !(s.Dominates(b) && s != b) {
						continue
					}
					body := loopBody(s, b)
					has := len(elemBlocks) == 0
					for eb := range elemBlocks {
						if body[eb] {
							has = true
						}
					}
					if !has {
						continue
					}
					if best < 0 || len(body) < best {
						best = len(body)
						cands = nil
					}
					if len(body) == best {
						cands = append(cands, be{b, s})
					}
				}
			}
			for _, e := range cands {
				if a.EdgeReachable(e.b, e.s) {
					bad = fmt.Sprintf("loop continues (back edge block %d->%d reachable) although the current element is faulty", e.b.Index, e.s.Index)
				}
			}
		}
		if bad == "" {
			c.ok(rule, fnName, cs.name, badPos, "under the assumption the forbidden outcome is unreachable on all paths")
		} else {
			c.fail(rule, fnName, cs.name, badPos, "assuming ["+cs.name+"]: "+bad)
		}
	}
}

func checkC02(c *Check) {
	p := c.P
	validate := p.Fn("openMessage.validate")
	if validate == nil {
		return
	}
	fVersion, fAsn, fHold, fID := "version", "asn", "holdTime", "bgpID"
	for _, f := range []string{fVersion, fAsn, fHold, fID, "optionalParams"} {
		p.Field("openMessage", f)
	}
	p.Field("Capability", "Code")
	p.Field("Capability", "Value")
	asTrans := p.MustConst("asTrans")
	cap65 := p.MustConst("CAP_FOUR_OCTET_AS")
	if len(validate.Params) != 4 {
		c.undecided("C02.anchor", "openMessage.validate", "signature", p.Pos(validate.Pos()), "expected (o, localID, localAS, remoteAS)")
		return
	}
	localID, localAS, remoteAS := paramName(validate, 1), paramName(validate, 2), paramName(validate, 3)

	ldVersion := func(e *Expr) bool { return isFieldRead(e, fVersion) }
	ldAsn := func(e *Expr) bool { return isFieldRead(e, fAsn) }
	ldHold := func(e *Expr) bool { return isFieldRead(e, fHold) }
	ldID := func(e *Expr) bool { return isFieldRead(e, fID) }
	pRemoteAS := func(e *Expr) bool { return isParamNamed(e, remoteAS) }
	pLocalAS := func(e *Expr) bool { return isParamNamed(e, localAS) }
	pLocalID := func(e *Expr) bool { return isParamNamed(e, localID) }
	capCode := func(e *Expr) bool { return isFieldRead(e, "Code") }
	capValLen := func(e *Expr) bool {
		return e.Op == "len" && isFieldRead(e.Args[0], "Value")
	}
	capValBE := func(e *Expr) bool { return isCallNamed(e, "be32") && isFieldRead(e.Args[0], "Value") }
	isMulticast := func(e *Expr) bool { return isCallNamed(e, "netip.Addr.IsMulticast") }
	// the address tested for multicast is the OPEN's BGP Identifier
	{
		a := NewAnalysis(p, validate)
		a.Run()
		n := 0
		for _, cl := range p.callsIn(validate, descIs("netip.Addr.IsMulticast")) {
			for _, args := range a.callArgsAt(cl) {
				n++
				ok := len(args) == 1 && isCallNamed(args[0], "netip.AddrFrom4") && strings.Contains(args[0].Key, "bytes:be32(") && strings.Contains(args[0].Key, "fa:bgpID(")
				c.require(ok, "C02.1 identifier-tested", "openMessage.validate", "IsMulticast argument", p.InstrPos(cl.(ssa.Instruction)),
					"the multicast test is made on AddrFrom4(big-endian octets of the OPEN's bgpID); got "+trunc(args[0].Key, 80))
			}
		}
		if n == 0 {
			c.ok("C02.1 identifier-tested", "openMessage.validate", "IsMulticast argument", "-", "no library multicast test: the identifier is tested arithmetically (covered by the multicast / unicast cases on its range)")
		}
	}

	u8 := isRange(0, 255)
	u16 := isRange(0, 65535)
	okVersion := rangeHook(ldVersion, isConst(4))
	okHold := rangeHook(ldHold, isConst(0).Union(isRange(3, 65535)))
	// multicast is a property of the identifier: 224.0.0.0/4. Both the library
	// test and the identifier's range are pinned, so that the test may be
	// written either way (IsMulticast on the address, or arithmetic on the id)
	mcSet := isRange(0xE0000000, 0xEFFFFFFF)
	isBgpID := func(e *Expr) bool { return isFieldRead(e, fID) }
	notMulticast := hooks(rangeHook(isMulticast, isConst(0)), rangeHook(isBgpID, isRange(0, 0xFFFFFFFF).Minus(mcSet)))
	multicast := hooks(rangeHook(isMulticast, isConst(1)), rangeHook(isBgpID, mcSet))
	asnPlainMatch := hooks(rangeHook(ldAsn, u16.Minus(isConst(asTrans))), relHook(ldAsn, pRemoteAS, "=="))
	asnTrans := rangeHook(ldAsn, isConst(asTrans))
	noCap65 := rangeHook(capCode, u8.Minus(isConst(cap65)))
	allCap65 := rangeHook(capCode, isConst(cap65))
	capLenOK := rangeHook(capValLen, isConst(4))
	capValMatch := relHook(capValBE, pRemoteAS, "==")
	idDistinct := relHook(ldID, pLocalID, "!=")
	asDistinct := relHook(pLocalAS, pRemoteAS, "!=")
	allOtherOK := hooks(okVersion, okHold, notMulticast, idDistinct)
	// "the OPEN carries at least one capability", however validate walks them:
	// through getCapabilities(), or directly over optionalParams / capabilities
	someCaps := hooks(rangeHook(func(e *Expr) bool {
		if e.Op != "len" {
			return false
		}
		x := e.Args[0]
		return (x.Op == "rcall" && x.S == "openMessage.getCapabilities") || isFieldRead(x, "optionalParams") || isFieldRead(x, "capabilities")
	}, isRange(1, posInf)), rangeHook(func(e *Expr) bool {
		return e.Op == "istype" && e.S == "*capabilityOptionalParam"
	}, isConst(1)))

	// C02.1 — every faulty OPEN is rejected (accept unreachable under fault)
	c.runCases("C02.1 faulty-open-rejected", "openMessage.validate", []asmCase{
		{name: "version != 4", hook: rangeHook(ldVersion, u8.Minus(isConst(4))), forbid: forbidAccept},
		{name: "hold time in {1,2}", hook: rangeHook(ldHold, isRange(1, 2)), forbid: forbidAccept},
		{name: "BGP identifier multicast", hook: multicast, forbid: forbidAccept},
		{name: "same AS and identifier equal to local", hook: hooks(relHook(pLocalAS, pRemoteAS, "=="), relHook(ldID, pLocalID, "==")), forbid: forbidAccept},
		{name: "2-octet AS != remote AS and != AS_TRANS", hook: hooks(rangeHook(ldAsn, u16.Minus(isConst(asTrans))), relHook(ldAsn, pRemoteAS, "!=")), forbid: forbidAccept},
		{name: "AS_TRANS without 4-octet-AS capability", hook: hooks(asnTrans, noCap65), forbid: forbidAccept},
		{name: "matching 2-octet AS without 4-octet-AS capability", hook: hooks(asnPlainMatch, noCap65), forbid: forbidAccept},
		{name: "4-octet-AS capability with length != 4", hook: hooks(allCap65, rangeHook(capValLen, isRange(0, 255).Minus(isConst(4)))), forbid: forbidAccept, noBackEdge: true},
		{name: "4-octet-AS capability value != remote AS", hook: hooks(allCap65, capLenOK, relHook(capValBE, pRemoteAS, "!=")), forbid: forbidAccept, noBackEdge: true},
	})

	// C02.2 — a rejection names a fault that is present (site unreachable when
	// the fault is absent)
	c.runCases("C02.2 rejection-names-present-fault", "openMessage.validate", []asmCase{
		{name: "version == 4 => no (2,1)", hook: okVersion, forbid: forbidNotif(2, 1)},
		{name: "hold time 0 or >=3 => no (2,6)", hook: okHold, forbid: forbidNotif(2, 6)},
		{name: "unicast id, different AS => no (2,3)", hook: hooks(notMulticast, asDistinct), forbid: forbidNotif(2, 3)},
		{name: "unicast id, id != local id => no (2,3)", hook: hooks(notMulticast, idDistinct), forbid: forbidNotif(2, 3)},
		{name: "2-octet AS matches, capabilities match => no (2,2)", hook: hooks(asnPlainMatch, capValMatch), forbid: forbidNotif(2, 2)},
		{name: "AS_TRANS with matching capability present => no (2,2)", hook: hooks(asnTrans, allCap65, capLenOK, capValMatch, someCaps), forbid: forbidNotif(2, 2)},
		{name: "4-octet-AS capability present => no (2,7)", hook: hooks(allCap65, capLenOK, capValMatch, someCaps), forbid: forbidNotif(2, 7)},
		{name: "AS_TRANS => no (2,7)", hook: asnTrans, forbid: forbidNotif(2, 7)},
		{name: "capability 65 length 4 => no (2,0)", hook: capLenOK, forbid: forbidNotif(2, 0)},
		{name: "fully valid OPEN (2-octet AS) => accepted", hook: hooks(allOtherOK, asnPlainMatch, allCap65, capLenOK, capValMatch, someCaps), forbid: func(rs retSite) string {
			if !isAccept(rs) {
				return "a rejecting return is reachable: " + rs.ec.Kind + " " + fmt.Sprint(rs.ec.Notif)
			}
			return ""
		}},
		{name: "fully valid OPEN (AS_TRANS) => accepted", hook: hooks(allOtherOK, asnTrans, allCap65, capLenOK, capValMatch, someCaps), forbid: func(rs retSite) string {
			if !isAccept(rs) {
				return "a rejecting return is reachable: " + rs.ec.Kind + " " + fmt.Sprint(rs.ec.Notif)
			}
			return ""
		}},
	})

	// C02.2b — inventory: every rejecting return carries a constant (code,
	// subcode) from the spec table, out=true, and the data the spec demands.
	allowed := map[[2]int64]bool{{1, 2}: true, {2, 0}: true, {2, 1}: true, {2, 2}: true, {2, 3}: true, {2, 4}: true, {2, 6}: true, {2, 7}: true}
	sites := 0
	for _, fnName := range []string{"openMessage.validate", "openMessage.decode", "decodeOptionalParams", "capabilityOptionalParam.decode"} {
		fn := p.Fn(fnName)
		if fn == nil {
			continue
		}
		a := NewAnalysis(p, fn)
		a.Run()
		for _, u := range a.Undecided {
			c.undecided("C02.2b rejection-inventory", fnName, "analysis", p.Pos(fn.Pos()), u)
		}
		seen := map[string]bool{}
		for _, rs := range p.errReturns(a) {
			if isAccept(rs) {
				continue
			}
			if rs.ec.Kind == "other" {
				// propagated callee error (err returned unchanged): fine when it
				// comes from one of the functions in this inventory
				if rs.ec.Expr != nil && (rs.ec.Expr.Op == "ex" || rs.ec.Expr.Op == "rcall" || rs.ec.Expr.Op == "phi") {
					continue
				}
			}
			key := fmt.Sprintf("return#%d", returnOrdinal(fn, rs.rs.Instr))
			// instances are counted per return and notification: a helper that
			// builds the notifications funnels them through one return
			sk := fmt.Sprintf("%p/%s", rs.rs.Instr, rs.ec.Kind)
			if rs.ec.Notif != nil {
				sk += "/" + rs.ec.Notif.String()
			}
			if !seen[sk] {
				seen[sk] = true
				sites++
			}
			if rs.ec.Kind != "notificationError" || rs.ec.Notif == nil {
				c.fail("C02.2b rejection-inventory", fnName, key, rs.pos, "rejecting return is not a *notificationError with a known notification ("+rs.ec.Kind+"): the FSM would close without sending a NOTIFICATION")
				continue
			}
			code, okc := rs.ec.Notif.Code.IsConst()
			sub, oks := rs.ec.Notif.Sub.IsConst()
			out, oko := rs.ec.Out.IsConst()
			if !okc || !oks || !allowed[[2]int64{code, sub}] {
				c.fail("C02.2b rejection-inventory", fnName, key, rs.pos, fmt.Sprintf("notification %s is not in the OPEN error table", rs.ec.Notif))
				continue
			}
			if !oko || out != 1 {
				c.fail("C02.2b rejection-inventory", fnName, key, rs.pos, "notificationError.out is not true: the NOTIFICATION would not be sent")
				continue
			}
			detail := fmt.Sprintf("(%d,%d) out=true", code, sub)
			ok := true
			switch [2]int64{code, sub} {
			case [2]int64{2, 1}:
				// data must be the two octets 0x00 0x04
				d := rs.ec.Notif.Data
				ok = false
				if d != nil {
					root, lo, hi := sliceParts(d)
					if lo == nil && hi != nil {
						if n, isC := hi.IsConst(); isC && n == 2 && root.Op == "arr" {
							for k, v := range rs.rs.State.mem {
								if me := rs.rs.State.memE[k]; me != nil && me.Op == "bea" && me.S == "be16" && me.Args[0].Key == root.Key {
									if cv, isC := v.IsConst(); isC && cv == 4 {
										ok = true
									}
								}
							}
						}
					}
				}
				if !ok && d != nil {
					// any construction of the two octets 0x00 0x04
					if lay, lerr := rs.rs.State.layoutOf(d, 0); lerr == "" {
						isK := func(v *Expr, k int64) bool {
							cv, isC := rs.rs.State.rangeOf(v).IsConst()
							return v != nil && isC && cv == k
						}
						switch {
						case len(lay) == 1 && lay[0].Kind == "be16" && isK(lay[0].Val, 4):
							ok = true
						case len(lay) == 2 && lay[0].Kind == "byte" && lay[1].Kind == "byte" && isK(lay[0].Val, 0) && isK(lay[1].Val, 4):
							ok = true
						}
					}
				}
				detail += " data=be16(4)"
			case [2]int64{2, 7}:
				d := rs.ec.Notif.Data
				ok = d != nil && !d.IsNil()
				if ok {
					// data must be built from the remote AS parameter
					ok = false
					for _, v := range rs.rs.State.mem {
						if isParamNamed(v, remoteAS) {
							ok = true
						}
					}
				}
				detail += " data=encode(4-octet-AS capability of remoteAS)"
			case [2]int64{1, 2}:
				d := rs.ec.Notif.Data
				ok = d != nil && d.Op == "param"
				detail += " data=body"
			}
			c.require(ok, "C02.2b rejection-inventory", fnName, key, rs.pos, detail)
		}
	}
	c.floor("C02.2b rejection-inventory", sites, 10, "NOTIFICATION-constructing rejection returns in the OPEN path")

	// found-flag monotonicity: a bool loop flag that starts false is only ever
	// set to true inside the loop (a later capability cannot "unfind" one)
	flags := 0
	var vblocks []*ssa.BasicBlock
	for _, g := range deepFuncs(validate) {
		vblocks = append(vblocks, g.Blocks...)
	}
	for _, b := range vblocks {
		for _, in := range b.Instrs {
			phi, ok := in.(*ssa.Phi)
			if !ok {
				break
			}
			if !isBoolType(phi.Type()) || !inLoopLocal(b) {
				continue
			}
			// leaves of the phi family (nested loops carry the flag through
			// several phis): only `false` from outside every loop and `true`
			entryFalse := false
			good := true
			seenPhi := map[*ssa.Phi]bool{}
			var walk func(q *ssa.Phi)
			walk = func(q *ssa.Phi) {
				if seenPhi[q] {
					return
				}
				seenPhi[q] = true
				for i, e := range q.Edges {
					pred := q.Block().Preds[i]
					switch x := e.(type) {
					case *ssa.Phi:
						walk(x)
					case *ssa.Const:
						switch {
						case x.Value != nil && x.Value.String() == "true":
						case x.Value != nil && x.Value.String() == "false" && !inLoopLocal(pred):
							if q == phi {
								entryFalse = true
							}
						default:
							good = false
						}
					default:
						good = false
					}
				}
			}
			walk(phi)
			if entryFalse {
				flags++
				c.require(good, "C02.1 found-flag-monotone", "openMessage.validate", "loop flag "+phi.Comment, p.InstrPos(phi), "a capability-found flag initialised false may only be set to true in the loop")
			}
		}
	}
	c.floor("C02.1 found-flag-monotone", flags, 1, "capability-found loop flags in validate")

	checkC02Decode(c)
	checkC02OpenSent(c)
}

func returnOrdinal(fn *ssa.Function, r *ssa.Return) int {
	n := 0
	for _, b := range fn.Blocks {
		for _, in := range b.Instrs {
			if x, ok := in.(*ssa.Return); ok {
				if x == r {
					return n
				}
				n++
			}
		}
	}
	return -1
}

var _ = types.Typ
