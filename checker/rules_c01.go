package main

// C01 — one Established session per peer; well-formed plugin callback history
// (structure of the mutual-exclusion mechanism and of the callback protocol).

import (
	"fmt"
	"sort"

	"golang.org/x/tools/go/ssa"
)

func init() { register("C01", checkC01) }

func checkC01(c *Check) {
	c.stateEntryApproval("C01.1 approval-before-entry")
	c.establishedBeatsInProgress("C01.2 established-excludes-other")
	c.inboundAdmission("C01.4 inbound-admission")
	c.callbacksFromFSMOnly("C01.5 callbacks-on-fsm-goroutine")
	c.handlerDiscipline("C01.6 callback-protocol")
	c.oneOpenPerConnection("C01.6 capabilities-once-per-open")
	c.cleanupOnExit("C01.6 connection-released-before-re-entry")
	c.disableEnablePairing("C01.7 fsm-table-consistent")
	c.fsmSlotTypestate("C01.7 fsm-slot-typestate")
	c.peerConfigVerbatim("C01.7 one-manager-per-peer")
	c.checkThenActAtomic("C01.7 one-manager-per-peer")
	c.checkOwnership("C01.7 fsm-table-owned-by-manager")
	c.rendezvousChannels("C01.1 approval-rendezvous", "transitionCh")
	c.peerManagerContracts("C01.3 manager-effects")
	c.readerHandoffRule("C01.6 reader-joined-every-session")
	c.serverContracts("C01.8 shutdown-protocol")
	c.peerStopDisablesBoth("C01.8 stop-delivers-onclose")
	c.serveShutdown("C01.8 stop-delivers-onclose")
}

// stateEntryApproval: in fsm.run every state function is entered only after
// the transition was offered to, and echoed by, the peer manager.
func (c *Check) stateEntryApproval(rule string) {
	p := c.P
	fn := p.Fn("fsm.run")
	if fn == nil {
		return
	}
	handlers := map[string]bool{"fsm.idle": true, "fsm.connect": true, "fsm.active": true, "fsm.openSent": true, "fsm.openConfirm": true, "fsm.established": true}
	// the rendezvous: a blocking select that sends on transitionCh
	var rdv *ssa.Select
	allInstrs(fn, func(in ssa.Instruction) {
		if s, ok := in.(*ssa.Select); ok && s.Blocking && rdv == nil {
			for _, ss := range s.States {
				if ss.Send != nil && typeKey(ss.Chan.Type()) == "chan stateTransition" {
					rdv = s
				}
			}
		}
	})
	if rdv == nil {
		c.fail(rule, "fsm.run", "rendezvous select", p.Pos(fn.Pos()), "no select offering the transition to the peer manager")
		return
	}
	n := 0
	var calls []ssa.Instruction
	for _, cl := range p.callsIn(fn, func(d string) bool { return handlers[d] }) {
		n++
		calls = append(calls, cl.(ssa.Instruction))
		c.require(instrDominates(rdv, cl.(ssa.Instruction)), rule, "fsm.run", "entry of "+p.calleeDesc(cl), p.InstrPos(cl.(ssa.Instruction)), "the state function is entered only after the rendezvous with the peer manager")
	}
	c.floor(rule, n, 6, "state function call sites in run()")
	// between two state entries the rendezvous is passed again
	for _, x := range calls {
		hit := pathSearch(fn, x, func(y ssa.Instruction) bool {
			for _, z := range calls {
				if y == z {
					return true
				}
			}
			return false
		}, func(y ssa.Instruction) bool { return y == ssa.Instruction(rdv) })
		c.require(hit == nil, rule, "fsm.run", "no state entry without a new rendezvous", p.InstrPos(x), "after a state function returns, the next one is reached only through the rendezvous")
	}
	// the transition value dispatched on: after the offer was accepted it is
	// either the value echoed on the same channel or a disable
	disabled := p.MustConst("disabledState")
	var tcell *ssa.Alloc
	for _, ss := range rdv.States {
		if ss.Send != nil {
			if ld, ok := ss.Send.(*ssa.UnOp); ok {
				tcell, _ = ld.X.(*ssa.Alloc)
			}
		}
	}
	if tcell == nil {
		c.undecided(rule, "fsm.run", "transition cell", p.InstrPos(rdv), "the offered transition is not a local variable")
		return
	}
	for _, r := range *tcell.Referrers() {
		st, ok := r.(*ssa.Store)
		if !ok || st.Addr != ssa.Value(tcell) {
			continue
		}
		if !rdv.Block().Dominates(st.Block()) || !reachesBefore(st, calls) {
			continue // initialisation before the loop or the request for the next state
		}
		kind := ""
		switch v := st.Val.(type) {
		case *ssa.Extract:
			if sel, ok := v.Tuple.(*ssa.Select); ok {
				for i, ss := range sel.States {
					_ = i
					if ss.Send == nil && typeKey(ss.Chan.Type()) == "chan stateTransition" {
						kind = "echo"
					}
				}
			}
		case *ssa.Call:
			if p.calleeDesc(v) == "newStateTransition" {
				if cst, ok := v.Call.Args[1].(*ssa.Const); ok && cst.Value != nil && cst.Int64() == disabled {
					kind = "disable"
				}
			} else if cal := v.Call.StaticCallee(); cal != nil && p.IsLocal(cal) && len(cal.Blocks) > 0 {
				// a helper that builds the disable: every return's target is
				// disabledState whatever the arguments
				ca := NewAnalysis(p, cal)
				ca.Run()
				all := len(ca.Returns) > 0 && len(ca.Undecided) == 0
				for _, r := range ca.Returns {
					if len(r.Results) != 1 {
						all = false
						continue
					}
					to := mkField(r.Results[0], "to", 0, p.Field("stateTransition", "to").Type())
					if cv, isC := r.State.rangeOf(to).IsConst(); !isC || cv != disabled {
						all = false
					}
				}
				if all {
					kind = "disable"
				}
			}
		}
		// stores after dispatch (the next request) are not dominated by... they
		// are on the path from a handler call; skip those
		afterHandler := false
		for _, h := range calls {
			if h.Block().Dominates(st.Block()) || instrDominates(h, st) {
				afterHandler = true
			}
		}
		if afterHandler {
			continue
		}
		c.require(kind != "", rule, "fsm.run", "transition value after the rendezvous", p.InstrPos(st), "between the offer and the dispatch the transition is only replaced by the manager's echo or by a disable ("+kind+")")
	}
}

// reachesBefore: from the store some state-function call is reachable without
// passing through the loop's rendezvous again.
func reachesBefore(st *ssa.Store, calls []ssa.Instruction) bool {
	hit := pathSearch(st.Parent(), st, func(y ssa.Instruction) bool {
		for _, z := range calls {
			if y == z {
				return true
			}
		}
		return false
	}, func(y ssa.Instruction) bool {
		s, ok := y.(*ssa.Select)
		if !ok {
			return false
		}
		for _, ss := range s.States {
			if ss.Send != nil {
				return true
			}
		}
		return false
	})
	return hit != nil
}

// callbacksFromFSMOnly (G3): plugin callbacks and the update handler are
// invoked only from code that runs on the FSM goroutine.
func (c *Check) callbacksFromFSMOnly(rule string) {
	p := c.P
	roots := p.roots()
	n := 0
	for _, fn := range p.FuncSeq {
		for _, cl := range p.callsIn(fn, func(d string) bool {
			return d == "dyn:UpdateMessageHandler" || (len(d) > 14 && d[:14] == "invoke:Plugin.")
		}) {
			n++
			var in []string
			for _, r := range roots {
				if r.Funcs[fn] {
					in = append(in, r.Name)
				}
			}
			sort.Strings(in)
			ok := len(in) == 1 && in[0] == "go fsm.run"
			if _, isGo := cl.(*ssa.Go); isGo {
				ok = false
			}
			c.require(ok, rule, p.Name(fn), p.calleeDesc(cl), p.InstrPos(cl.(ssa.Instruction)), fmt.Sprintf("called synchronously, only on the owning FSM goroutine (reachable from roots: %v)", in))
		}
	}
	c.floor(rule, n, 5, "plugin callback / handler call sites")
}

// peerStopDisablesBoth: the peer manager's exit disables (stops and joins)
// both FSMs before signalling completion; peer.stop waits for that.
func (c *Check) peerStopDisablesBoth(rule string) {
	p := c.P
	run := p.Fn("peer.run")
	if run == nil {
		return
	}
	ok := false
	allInstrs(run, func(in ssa.Instruction) {
		d, isD := in.(*ssa.Defer)
		if !isD || in.Block().Index != 0 {
			return
		}
		t := p.staticLocalCallee(d)
		if t == nil {
			return
		}
		a := NewAnalysis(p, t)
		a.EventArgs = func(st *State, desc string, args []*Expr) string {
			if desc == "peer.disableFSM" && len(args) == 2 {
				if v, isC := st.rangeOf(args[1]).IsConst(); isC {
					return fmt.Sprint(v)
				}
			}
			return ""
		}
		a.Run()
		for _, cl := range p.callsIn(t, descIs("builtin:close")) {
			if chanFieldName(cl.Common().Args[0]) != "doneCh" {
				continue
			}
			for _, st := range a.At[cl.(ssa.Instruction)] {
				if st.must[fmt.Sprintf("call:peer.disableFSM(%d)", p.MustConst("in"))] && st.must[fmt.Sprintf("call:peer.disableFSM(%d)", p.MustConst("out"))] {
					ok = true
				}
			}
		}
	})
	c.require(ok, rule, "peer.run", "deferred exit", p.Pos(run.Pos()), "the peer manager's first defer disables both FSMs (stop + join, hence OnClose delivered) before closing doneCh")
	if s := p.Fn("peer.stop"); s != nil {
		pd := newPostDom(s)
		w := false
		allInstrs(s, func(x ssa.Instruction) {
			if u, isU := x.(*ssa.UnOp); isU && u.Op.String() == "<-" && chanFieldName(u.X) == "doneCh" && pd.onEveryReturnPath(x) {
				w = true
			}
		})
		c.require(w, rule, "peer.stop", "waits doneCh", p.Pos(s.Pos()), "stop() returns only after the peer manager finished")
	}
	// DeletePeer and Serve's shutdown call stop synchronously
	for _, fn := range p.FuncSeq {
		for _, cl := range p.callsIn(fn, descIs("peer.stop")) {
			_, isCall := cl.(*ssa.Call)
			c.require(isCall, rule, p.Name(fn), "peer.stop call", p.InstrPos(cl.(ssa.Instruction)), "peers are stopped synchronously (not in a goroutine or deferred past the return)")
		}
	}
}

// fsmSlotTypestate: the FSM table is a two-state cell per direction (empty /
// occupied). A non-nil FSM is stored only into a slot known to be empty on
// every path reaching the store (otherwise a live FSM is orphaned: it keeps
// running, may reach Established beside its replacement and is never
// stopped); nil is stored only after the occupant's stop() returned.
func (c *Check) fsmSlotTypestate(rule string) {
	p := c.P
	n := 0
	for _, fn := range p.FuncSeq {
		var stores []*ssa.Store
		allInstrs(fn, func(in ssa.Instruction) {
			st, ok := in.(*ssa.Store)
			if !ok {
				return
			}
			ia, ok := st.Addr.(*ssa.IndexAddr)
			if !ok {
				return
			}
			if fa, ok := ia.X.(*ssa.FieldAddr); ok && structFieldName(fa) == "fsms" && structNameOfPtr(fa.X.Type()) == "peer" {
				stores = append(stores, st)
			}
		})
		if len(stores) == 0 {
			continue
		}
		a := NewAnalysis(p, fn)
		a.Run()
		for _, st := range stores {
			n++
			storesNil := false
			if cst, ok := st.Val.(*ssa.Const); ok && cst.Value == nil {
				storesNil = true
			}
			okAll := len(a.At[st]) > 0
			detail := ""
			for _, s := range a.At[st] {
				addr := a.ExprAt(s, st.Addr)
				old := s.load(addr, st.Val.Type())
				if storesNil {
					if !s.must["call:fsm.stop"] {
						okAll = false
						detail = "a path clears the slot without stop() of the occupant"
					}
					continue
				}
				if v, isC := s.nonNil(old).IsConst(); !isC || v != 0 {
					okAll = false
					detail = "slot occupant " + trunc(old.String(), 60) + " not known to be nil"
				}
			}
			what := "non-nil store into an empty slot"
			if storesNil {
				what = "slot cleared after stop()"
			}
			c.require(okAll, rule, p.Name(fn), what, p.InstrPos(st),
				"peer.fsms[i] is overwritten only when empty (checked nil on every path) and cleared only after the occupant's stop() joined its goroutine "+detail)
		}
	}
	c.floor(rule, n, 2, "stores to peer.fsms")
}
