package main

// C06 — hold time negotiation, hold-timer expiry and keepalive cadence
// (structure only; elapsed-time clauses are not decidable statically).

import (
	"fmt"
	"strings"

	"golang.org/x/tools/go/ssa"
)

func init() { register("C06", checkC06) }

// timerEventArgs renders the timer field a Timer method is applied to.
func (p *Prog) timerEventArgs(st *State, desc string, args []*Expr) string {
	switch desc {
	case "time.Timer.Stop", "time.Timer.Reset":
		if len(args) > 0 && args[0].Op == "ld" && args[0].Args[0].Op == "fa" {
			return args[0].Args[0].S
		}
		if len(args) > 0 {
			// the receiver is a value just stored into a timer field
			for k, v := range st.mem {
				if me := st.memE[k]; me != nil && me.Op == "fa" && v.Key == args[0].Key {
					return me.S
				}
			}
			// a timer not (yet) held by a field: named by its value, so that
			// "the timer stored into the field later is the one stopped" can
			// be stated at the return
			return "#" + args[0].Key
		}
	case "fsm.sendNotification":
		return p.sendNotifEventArgs(st, desc, args)
	}
	return ""
}

func checkC06(c *Check) {
	c.fsmContracts("C06.3 fsm-effects")
	c.restartAfterHandler("C06.3 restart-after-handler")
	c.specConstants("C06.4 spec-constants", "NOTIF_CODE_HOLD_TIMER_EXPIRED", "keepAliveMessageType")
	p := c.P
	outer := p.Fn("fsm.openSent")
	if outer == nil {
		return
	}
	fn := p.closureWithCall(outer, descIs("invoke:Plugin.OnOpenMessage"))
	if fn == nil {
		c.undecided("C06.1 negotiation", "fsm.openSent", "closure", p.Pos(outer.Pos()), "not found")
		return
	}
	fnName := p.Name(fn)
	openConfirm := p.MustConst("openConfirmState")
	isRemote := func(e *Expr) bool {
		// Duration(m.holdTime) * time.Second
		if e.Op != "bin" || e.binOp() != "*" {
			return false
		}
		var k, o *Expr
		if c, ok := e.Args[0].IsConst(); ok && c == 1000000000 {
			k, o = e.Args[0], e.Args[1]
		} else if c, ok := e.Args[1].IsConst(); ok && c == 1000000000 {
			k, o = e.Args[1], e.Args[0]
		}
		if k == nil {
			return false
		}
		if o.Op == "conv" {
			o = o.Args[0]
		}
		return isFieldRead(o, "holdTime") && o.Args[0].Aux == "openMessage"
	}
	isLocal := func(e *Expr) bool {
		return isLoadOfField(e, "holdTime") && e.Args[0].Aux == "peerOptions"
	}
	a := NewAnalysis(p, fn)
	a.TrackFields = map[string]bool{"holdTime": true}
	a.EventArgs = p.timerEventArgs
	a.Run()
	for _, u := range a.Undecided {
		c.undecided("C06.1 negotiation", fnName, "analysis", p.Pos(fn.Pos()), u)
	}
	n := 0
	for _, r := range a.Returns {
		st := r.State
		next, isC := st.rangeOf(r.Results[0]).IsConst()
		if !isC || next != openConfirm {
			continue
		}
		n++
		pos := p.InstrPos(r.Instr)
		var v *Expr
		for k, x := range st.mem {
			if me := st.memE[k]; me != nil && me.Op == "fa" && me.S == "holdTime" && me.Aux == "fsm" {
				v = x
			}
		}
		if v == nil {
			c.fail("C06.1 negotiation", fnName, "negotiated hold time", pos, "fsm.holdTime is not assigned on every path to OpenConfirm")
			continue
		}
		// the two candidate values as linear forms over the state's atoms
		var remoteAtom, localAtom *Expr
		var find func(e *Expr)
		find = func(e *Expr) {
			if e == nil {
				return
			}
			if isFieldRead(e, "holdTime") && len(e.Args) > 0 {
				o := e
				if o.Op == "ld" && o.Args[0].Aux == "peerOptions" {
					localAtom = e
				}
				if (o.Op == "ld" && o.Args[0].Aux == "openMessage") || (o.Op == "fv") {
					if intTypeInfo(e.Typ).bits == 16 {
						remoteAtom = e
					}
				}
			}
			for _, x := range e.Args {
				find(x)
			}
		}
		find(v)
		for _, f := range st.facts {
			for _, e := range f.L.E {
				find(e)
			}
		}
		ok := false
		detail := "negotiated value " + trunc(v.Key, 90)
		vl := st.linOf(v)
		switch {
		case v.Op == "call" && v.S == "min" && ((isRemote(v.Args[0]) && isLocal(v.Args[1])) || (isLocal(v.Args[0]) && isRemote(v.Args[1]))):
			ok = true
		case remoteAtom == nil || localAtom == nil:
			detail += "; the received hold time and the configured options.holdTime are not both involved in the choice"
		default:
			rl := linAtom(remoteAtom).scale(1000000000)
			ll := linAtom(localAtom)
			isR := vl.add(rl, -1).key() == linConst(0).key()
			isL := vl.add(ll, -1).key() == linConst(0).key()
			switch {
			case isRemote(v) && isR:
				ok = st.impliedGE(ll.add(rl, -1))
				detail += "; received value chosen: must be <= configured"
			case isLocal(v) && isL:
				ok = st.impliedGE(rl.add(ll, -1))
				detail += "; configured value chosen: must be <= received"
			default:
				detail += "; it is neither Duration(received hold time)*time.Second nor the configured options.holdTime"
			}
		}
		c.require(ok, "C06.1 negotiation", fnName, "hold time = min(configured, received)", pos, detail)
	}
	c.floor("C06.1 negotiation", n, 1, "OpenConfirm returns partitioned by the negotiated value")

	// keepalive interval = hold time / 3 and timers armed, hold time != 0
	isHold := func(e *Expr) bool { return isLoadOfField(e, "holdTime") && e.Args[0].Aux == "fsm" }
	for _, zero := range []bool{false, true} {
		b := NewAnalysis(p, fn)
		b.EventArgs = p.timerEventArgs
		set := isRange(1, posInf)
		if zero {
			set = isConst(0)
		}
		// every read of the negotiated value goes through the field (never
		// forwarded from the store), so the assumption is about the field
		// whatever expression computed it
		b.OpaqueFields = map[string]bool{"fsm.holdTime": true}
		b.AtomHook = rangeHook(isHold, set)
		_ = set
		b.Run()
		m := 0
		for _, r := range b.Returns {
			st := r.State
			next, isC := st.rangeOf(r.Results[0]).IsConst()
			if !isC || next != openConfirm {
				continue
			}
			m++
			pos := p.InstrPos(r.Instr)
			if !zero {
				var ka *Expr
				for k, x := range st.mem {
					if me := st.memE[k]; me != nil && me.Op == "fa" && me.S == "keepAliveInterval" {
						ka = x
					}
				}
				okI := ka != nil && ka.Op == "bin" && ka.binOp() == "/"
				if okI {
					cv, isC := ka.Args[1].IsConst()
					okI = isC && cv == 3 && isHold(ka.Args[0])
				}
				c.require(okI, "C06.2 timer-arming", fnName, "keepalive interval = hold time / 3", pos, fmt.Sprintf("fsm.keepAliveInterval = %v", ka))
				c.require(st.must["assign:keepAliveTimer"] && st.must["call:fsm.drainAndResetHoldTimer"], "C06.2 timer-arming", fnName, "timers armed for a non-zero hold time", pos,
					"the keepalive timer is created and the hold timer restarted with the negotiated value before entering OpenConfirm")
			} else {
				c.require(st.must["call:time.Timer.Stop(holdTimer)"], "C06.3 zero-hold-time", fnName, "OpenSent hold timer stopped", pos,
					"with a negotiated hold time of zero the four-minute OpenSent hold timer is stopped before OpenConfirm (it would otherwise expire a session for which silence is legal)")
				stoppedKA := st.must["call:time.Timer.Stop(keepAliveTimer)"]
				for k, x := range st.mem {
					if me := st.memE[k]; me != nil && me.Op == "fa" && me.S == "keepAliveTimer" && st.must["call:time.Timer.Stop(#"+x.Key+")"] {
						stoppedKA = true // built and stopped in a local, then assigned
					}
				}
				c.require(st.must["assign:keepAliveTimer"] && stoppedKA && !st.may["call:fsm.drainAndResetHoldTimer"], "C06.3 zero-hold-time", fnName, "keepalive timer exists but is stopped", pos,
					"with hold time zero the keepalive timer is created stopped (no periodic KEEPALIVE) and the hold timer is not re-armed")
			}
		}
		if m == 0 {
			c.fail("C06.2 timer-arming", fnName, fmt.Sprintf("OpenConfirm reachable (zero=%v)", zero), p.Pos(fn.Pos()), "no OpenConfirm return reachable under the assumption")
		}
	}

	c.holdTimerDrainAndReset("C06.2 timer-arming")

	c.holdTimerRestartDiscipline("C06.2 restart-discipline")
	// keepalive timer: reset after every KEEPALIVE sent; manager guarded by hold time
	for _, s := range []string{"fsm.openConfirm", "fsm.established"} {
		sf := p.stateClosure(s)
		if sf == nil {
			continue
		}
		for _, cl := range p.callsIn(sf, descIs("fsm.sendKeepAlive")) {
			// on the success edge a reset of the keepalive timer follows: either
			// directly or by signalling the manager
			hit := pathSearch(sf, cl.(ssa.Instruction), func(x ssa.Instruction) bool {
				if ci, ok := x.(ssa.CallInstruction); ok && c.P.calleeDesc(ci) == "time.Timer.Reset" {
					return true
				}
				if sd, ok := x.(*ssa.Send); ok && chanFieldName(sd.Chan) == "resetKATimerCh" {
					return true
				}
				return false
			}, func(x ssa.Instruction) bool { _, isSel := x.(*ssa.Select); return isSel })
			c.require(hit != nil, "C06.2 keepalive-cadence", p.Name(sf), "keepalive timer restarted after sending", p.InstrPos(cl.(ssa.Instruction)), "after a KEEPALIVE is sent the keepalive timer is reset (directly or via the manager) before the next wait")
		}
	}
	if est := p.Fn("fsm.established"); est != nil {
		var g *ssa.Function
		allInstrs(est, func(in ssa.Instruction) {
			if x, ok := in.(*ssa.Go); ok {
				g = p.staticLocalCallee(x)
			}
		})
		if g != nil {
			for _, zero := range []bool{true, false} {
				b := NewAnalysis(p, g)
				b.Init = p.closureInit(g)
				b.AtomHook = func(e *Expr) (ISet, bool) {
					if isHold(e) {
						if zero {
							return isConst(0), true
						}
						return isRange(1, posInf), true
					}
					return nil, false
				}
				b.Run()
				resets := p.callsIn(g, descIs("time.Timer.Reset"))
				reach := false
				okArg := true
				for _, r := range resets {
					if b.Reachable(r.(ssa.Instruction)) {
						reach = true
					}
					for _, args := range b.callArgsAt(r) {
						if !(len(args) == 2 && isLoadOfField(args[1], "keepAliveInterval") && isLoadOfField(args[0], "keepAliveTimer")) {
							okArg = false
						}
					}
				}
				c.require(reach == !zero && okArg, "C06.2 keepalive-cadence", p.Name(g), fmt.Sprintf("manager reset (hold time zero=%v)", zero), p.Pos(g.Pos()),
					"the manager resets keepAliveTimer to keepAliveInterval exactly when the hold time is non-zero")
			}
		}
	}
	// OpenSent hold timer: the four-minute constant
	if so := p.Fn("fsm.sendOpenAndSetHoldTimer"); so != nil {
		b := NewAnalysis(p, so)
		b.Run()
		ok := false
		for _, cl := range p.callsIn(so, descIs("time.NewTimer")) {
			for _, args := range b.callArgsAt(cl) {
				if v, isC := args[0].IsConst(); isC && v == 240*1000000000 {
					ok = true
				}
			}
		}
		c.require(ok, "C06.2 timer-arming", "fsm.sendOpenAndSetHoldTimer", "large hold timer", p.Pos(so.Pos()), "the OpenSent hold timer is armed with 4 minutes (RFC 4271 suggestion)")
	}
	// option validation and unit conversions
	ldHold := func(e *Expr) bool { return isFieldRead(e, "holdTime") }
	c.runCases("C06.4 option-validation", "peerOptions.validate", []asmCase{
		{name: "0 < hold time < 3s => rejected", hook: rangeHook(ldHold, isRange(1, 3*1000000000-1)), forbid: forbidAccept},
		{name: "hold time 0 (valid port) => accepted", hook: hooks(rangeHook(ldHold, isConst(0)), rangeHook(func(e *Expr) bool { return isFieldRead(e, "port") }, isRange(1, 65535))), forbid: func(rs retSite) string {
			if !isAccept(rs) {
				return "rejected"
			}
			return ""
		}},
		{name: "hold time >= 3s (valid port) => accepted", hook: hooks(rangeHook(ldHold, isRange(3*1000000000, posInf)), rangeHook(func(e *Expr) bool { return isFieldRead(e, "port") }, isRange(1, 65535))), forbid: func(rs retSite) string {
			if !isAccept(rs) {
				return "rejected"
			}
			return ""
		}},
	})
	c.timerDiscipline("C06.3 nil-timers")
	c.configuredHoldTimeProvenance("C06.5 configured-hold-time")
	c.cleanupContract("C06.4 expiry-closes-connection")
}

// configuredHoldTimeProvenance: the locally configured hold time that takes
// part in the negotiation is the one the user configured. peerOptions.holdTime
// is written (a) by the WithHoldTime option with Duration(seconds)*time.Second,
// (b) by default initialisation that runs before the options are applied;
// nothing rewrites it once an option may have set it (a "fill in defaults
// when zero" step cannot tell an explicit 0 from "unset").
func (c *Check) configuredHoldTimeProvenance(rule string) {
	p := c.P
	add := p.Fn("Server.AddPeer")
	if add == nil {
		return
	}
	// (b) in AddPeer's context, helpers inlined
	type site struct {
		pos   string
		after bool
	}
	var sites []site
	judged := map[*ssa.Function]bool{}
	a := NewAnalysis(p, add)
	a.StoreHook = func(st *State, addr, val *Expr, in *ssa.Store) {
		if addr.Op == "fa" && addr.S == "holdTime" && addr.Aux == "peerOptions" {
			sites = append(sites, site{p.InstrPos(in), st.may["call:invoke:PeerOption.apply"]})
			judged[in.Parent()] = true
		}
	}
	a.Run()
	for _, u := range a.Undecided {
		c.undecided(rule, "Server.AddPeer", "analysis", p.Pos(add.Pos()), u)
	}
	seen := map[string]bool{}
	for _, s := range sites {
		k := fmt.Sprint(s.pos, s.after)
		if seen[k] {
			continue
		}
		seen[k] = true
		c.require(!s.after, rule, "Server.AddPeer", "hold time not rewritten after options", s.pos,
			"a write of peerOptions.holdTime in AddPeer's context happens before any PeerOption may have been applied (afterwards WithHoldTime(0) would be indistinguishable from unset)")
	}
	applyReached := false
	for _, r := range a.Returns {
		if r.State.may["call:invoke:PeerOption.apply"] {
			applyReached = true
		}
	}
	c.require(applyReached, rule, "Server.AddPeer", "options applied", p.Pos(add.Pos()), "AddPeer applies the caller's PeerOptions")
	// (a) and the writer inventory
	n := 0
	for _, fn := range p.FuncSeq {
		for _, acc := range p.fieldAccesses(fn) {
			if acc.Struct != "peerOptions" || acc.Field != "holdTime" || !acc.Write {
				continue
			}
			n++
			name := p.Name(fn)
			root := fn
			for root.Parent() != nil {
				root = root.Parent()
			}
			switch {
			case p.Name(root) == "WithHoldTime":
				okV := false
				if st, isS := acc.Instr.(*ssa.Store); isS {
					b := NewAnalysis(p, fn)
					b.Init = p.closureInit(fn)
					b.Run()
					for _, s := range b.At[st] {
						v := b.ExprAt(s, st.Val)
						l := s.linOf(v)
						if len(l.T) == 1 && l.C == 0 {
							for k, coef := range l.T {
								e := l.E[k]
								for e.Op == "conv" {
									e = e.Args[0]
								}
								if coef == 1000000000 && (e.Op == "freevar" || e.Op == "param" || strings.Contains(e.Key, "seconds")) {
									okV = true
								}
							}
						}
					}
				}
				c.require(okV, rule, name, "WithHoldTime stores seconds*time.Second", p.InstrPos(acc.Instr), "the option stores exactly Duration(seconds)*time.Second")
			case isFreshWrite(acc):
				c.ok(rule, name, "default initialisation of a fresh peerOptions", p.InstrPos(acc.Instr), "write to a value under construction")
			default:
				// writers reached from AddPeer were judged above in its context
				if judged[fn] {
					c.ok(rule, name, "write judged in AddPeer's context", p.InstrPos(acc.Instr), "see 'hold time not rewritten after options'")
				} else {
					c.fail(rule, name, "unexpected writer of peerOptions.holdTime", p.InstrPos(acc.Instr), "the configured hold time is written only by WithHoldTime and default initialisation")
				}
			}
		}
	}
	c.floor(rule, n, 2, "writers of peerOptions.holdTime")
}

func blockTypeSwitchDominated(b *ssa.BasicBlock) bool {
	fn := b.Parent()
	for _, x := range fn.Blocks {
		for _, in := range x.Instrs {
			if ta, ok := in.(*ssa.TypeAssert); ok {
				if n, ok := ta.X.Type().(interface {
					Obj() interface{ Name() string }
				}); ok {
					_ = n
				}
				if x.Dominates(b) && typeKey(ta.X.Type()) == "message" {
					return true
				}
			}
		}
	}
	return false
}

// holdTimerRestartDiscipline: in OpenConfirm and Established a legal message
// restarts the hold timer exactly when the negotiated hold time is non-zero.
// With hold time zero the timer was stopped and drained when OpenSent ended, so
// a restart would arm a timer that must never fire and, go.mod being below
// go1.23, the Stop-failed-then-drain sequence of drainAndResetHoldTimer would
// block forever on the empty channel: the legal message would wedge the FSM.
func (c *Check) holdTimerRestartDiscipline(rule string) {
	p := c.P
	isHold := func(e *Expr) bool { return isLoadOfField(e, "holdTime") && e.Args[0].Aux == "fsm" }
	// restart discipline in OpenConfirm / Established
	types4 := []string{"*Notification", "*keepAliveMessage", "*openMessage", "updateMessage"}
	for _, s := range []struct {
		state, typ string
		ret        bool
	}{{"fsm.openConfirm", "*keepAliveMessage", true}, {"fsm.established", "*keepAliveMessage", false}, {"fsm.established", "updateMessage", false}} {
		sf := p.stateClosure(s.state)
		if sf == nil {
			continue
		}
		for _, zero := range []bool{false, true} {
			b := NewAnalysis(p, sf)
			b.AtomHook = hooks(msgTypeHook(s.typ, types4), func(e *Expr) (ISet, bool) {
				if isHold(e) {
					if zero {
						return isConst(0), true
					}
					return isRange(1, posInf), true
				}
				if e.Op == "nn" && e.Args[0].Op == "rcall" && e.Args[0].S == "dyn:UpdateMessageHandler" {
					return isConst(0), true
				}
				return nil, false
			})
			b.ForceInline = map[string]bool{"fsm.drainAndResetHoldTimer": true}
			b.EventArgs = p.timerEventArgs
			b.Run()
			name := fmt.Sprintf("(%s, %s, hold time zero=%v)", strings.TrimPrefix(s.state, "fsm."), s.typ, zero)
			// find the states leaving the message case: returns dominated by
			// the type switch, or back edges whose source is dominated by it
			var sts []*State
			if s.ret {
				for _, r := range b.Returns {
					if typeSwitchDominated(r.Instr) {
						sts = append(sts, r.State)
					}
				}
			} else {
				for _, blk := range sf.Blocks {
					for _, succ := range blk.Succs {
						if succ.Dominates(blk) && blockTypeSwitchDominated(blk) {
							sts = append(sts, b.EdgeOut[[2]int{blk.Index, succ.Index}]...)
						}
					}
				}
			}
			if len(sts) == 0 {
				c.fail(rule, p.Name(sf), name, p.Pos(sf.Pos()), "message case not reachable")
				continue
			}
			ok := true
			for _, st := range sts {
				if zero && (st.may["call:time.Timer.Reset(holdTimer)"] || st.may["recv:holdTimer.C"]) {
					ok = false
				}
				if !zero && !st.must["call:time.Timer.Reset(holdTimer)"] {
					ok = false
				}
			}
			want := "the hold timer is restarted on every such message"
			if zero {
				want = "with a negotiated hold time of zero the hold timer is neither reset nor drained (no Timer.Reset(holdTimer), no bare receive from holdTimer.C: the timer is stopped and empty, a drain would block forever)"
			}
			c.require(ok, rule, p.Name(sf), name, p.Pos(sf.Pos()), want)
		}
	}
}

// holdTimerDrainAndReset: for a non-zero hold time drainAndResetHoldTimer
// stops the timer, drains a tick that already fired (go.mod is below go1.23,
// so Stop/Reset do not clear the channel) and resets it to the negotiated
// value. Without the drain a stale tick expires a live session right after a
// message arrived (and, in Established, the UPDATEs that follow are lost).
func (c *Check) holdTimerDrainAndReset(rule string) {
	p := c.P
	isHold := func(e *Expr) bool { return isLoadOfField(e, "holdTime") && e.Args[0].Aux == "fsm" }
	// drainAndResetHoldTimer: Stop, drain on failure, Reset(f.holdTime)
	if d := p.Fn("fsm.drainAndResetHoldTimer"); d != nil {
		// decided under the assumption the callers establish (hold time != 0)
		da := NewAnalysis(p, d)
		da.OpaqueFields = map[string]bool{"fsm.holdTime": true}
		da.AtomHook = rangeHook(isHold, isRange(1, posInf))
		da.EventArgs = p.timerEventArgs
		da.Run()
		resets := p.callsIn(d, descIs("time.Timer.Reset"))
		ok := len(resets) >= 1 && len(da.Returns) > 0 && len(da.Undecided) == 0
		for _, r := range da.Returns {
			if !r.State.must["call:time.Timer.Reset(holdTimer)"] {
				ok = false
			}
		}
		for _, rs := range resets {
			for i, st := range da.At[rs.(ssa.Instruction)] {
				args := da.callArgsAt(rs)[i]
				if !st.must["call:time.Timer.Stop(holdTimer)"] || !(len(args) == 2 && isHold(args[1])) {
					ok = false
				}
			}
		}
		c.require(ok, rule, "fsm.drainAndResetHoldTimer", "Stop then Reset(f.holdTime)", p.Pos(d.Pos()), "for a non-zero hold time the hold timer is stopped and then reset to the negotiated hold time on every path")
		drained := false
		allInstrs(d, func(in ssa.Instruction) {
			if u, isU := in.(*ssa.UnOp); isU && u.Op.String() == "<-" && underFailedStop(c, d, in) {
				drained = true
			}
		})
		c.require(drained, rule, "fsm.drainAndResetHoldTimer", "drain after failed Stop", p.Pos(d.Pos()),
			"when Stop() reports the timer already fired its channel is drained before Reset (go.mod is below go1.23: a stale tick would otherwise expire the session right after a message arrived)")
	}

}
