package main

// Virtual inlining for the structural engines (O, G, B).
//
// A top-level function that is not in knownFuncs is a helper added after the
// rules were written. Wherever the rules look at "the instructions of f",
// "does a dominate b", "is there a path from a to b", such a helper is
// treated as if its body stood at its call sites: instruction enumeration
// descends into it, dominance / post-dominance / path search lift an
// instruction of the helper to the call instruction in the enclosing
// function (requiring, where the helper's instruction must have been
// executed, that it lies on every path to the helper's normal return), and a
// parameter of the helper resolves to the argument at its call site.
// Engine V does the same on the value side (inlineMulti), with the same
// static eligibility test.

import (
	"fmt"
	"go/types"

	"golang.org/x/tools/go/ssa"
)

// curProg is the program being checked (the CFG utilities are free functions).
var curProg *Prog

const maxHelperDepth = 3

// inlinableHelper: static eligibility of callee for virtual inlining.
func (p *Prog) inlinableHelper(callee *ssa.Function) bool {
	if p == nil || callee == nil || callee.Parent() != nil || len(callee.Blocks) == 0 || len(callee.Blocks) > 60 {
		return false
	}
	if v, ok := p.helperOK[callee]; ok {
		return v
	}
	ok := p.IsLocal(callee) && !knownFuncs[p.Name(callee)] && callee.Synthetic == ""
	if ok {
		for _, b := range callee.Blocks {
			for _, in := range b.Instrs {
				switch x := in.(type) {
				case *ssa.Go:
					ok = false
				case *ssa.Defer:
					// a lock-scope helper (Lock; defer Unlock; body) is seen
					// through: the deferred Unlock is its exit
					if d := p.calleeDesc(x); d != "sync.Mutex.Unlock" && d != "sync.RWMutex.Unlock" && d != "sync.RWMutex.RUnlock" {
						ok = false
					}
				}
			}
		}
	}
	if p.helperOK == nil {
		p.helperOK = map[*ssa.Function]bool{}
	}
	p.helperOK[callee] = ok
	return ok
}

// helperCallee returns the helper a plain call instruction invokes, or nil.
func (p *Prog) helperCallee(in ssa.Instruction) *ssa.Function {
	c, ok := in.(*ssa.Call)
	if !ok || p == nil {
		return nil
	}
	h := p.staticLocalCallee(c)
	if h == nil {
		return nil
	}
	if _, viaParam := c.Call.Value.(*ssa.Parameter); viaParam {
		// a function value the enclosing helper received from its caller:
		// its body stands at this call when it is a closure or another helper
		if p.inlinableValueTarget(h) {
			return h
		}
		return nil
	}
	if !p.inlinableHelper(h) {
		return nil
	}
	return h
}

// inlinableValueTarget: a closure, or an unknown top-level function, that a
// helper calls through a function-typed parameter.
func (p *Prog) inlinableValueTarget(f *ssa.Function) bool {
	if f == nil || len(f.Blocks) == 0 || len(f.Blocks) > 60 || !p.IsLocal(f) {
		return false
	}
	if f.Parent() == nil {
		return p.inlinableHelper(f)
	}
	ok := true
	for _, b := range f.Blocks {
		for _, in := range b.Instrs {
			switch in.(type) {
			case *ssa.Go, *ssa.Defer, *ssa.RunDefers:
				ok = false
			}
		}
	}
	return ok
}

// funcValueOf resolves a call argument to the function it denotes when that
// is static (a function, a method expression, a closure created there).
func (p *Prog) funcValueOf(v ssa.Value) *ssa.Function {
	switch x := v.(type) {
	case *ssa.Function:
		f := x
		if f.Synthetic != "" && len(f.Blocks) == 1 {
			// a method expression's thunk: the method it forwards to
			for _, in := range f.Blocks[0].Instrs {
				if cl, ok := in.(*ssa.Call); ok {
					if t := cl.Call.StaticCallee(); t != nil {
						f = t
					}
				}
			}
		}
		if o := f.Origin(); o != nil {
			f = o
		}
		if p.IsLocal(f) {
			return f
		}
	case *ssa.MakeClosure:
		f := x.Fn.(*ssa.Function)
		if f.Synthetic != "" && len(f.Blocks) == 1 {
			// a bound method value (x.m): the method
			for _, in := range f.Blocks[0].Instrs {
				if cl, ok := in.(*ssa.Call); ok {
					if t := cl.Call.StaticCallee(); t != nil && p.IsLocal(t) {
						return t
					}
				}
			}
		}
		return f
	case *ssa.ChangeType:
		return p.funcValueOf(x.X)
	case *ssa.Parameter:
		return p.resolveFuncParam(x)
	}
	return nil
}

// resolveFuncParam: the function a function-typed parameter of a helper
// denotes -- under the virtual call stack of the running enumeration (the
// argument at the helper's call site on that stack), else when every call
// site of the helper passes the same function.
func (p *Prog) resolveFuncParam(v *ssa.Parameter) *ssa.Function {
	h := v.Parent()
	if h == nil || !p.inlinableHelper(h) {
		return nil
	}
	if _, isSig := v.Type().Underlying().(*types.Signature); !isSig {
		return nil
	}
	k := -1
	for j, q := range h.Params {
		if q == v {
			k = j
		}
	}
	if k < 0 {
		return nil
	}
	for i := len(p.ctx) - 1; i >= 0; i-- {
		s, ok := p.ctx[i].(*ssa.Call)
		if !ok {
			continue
		}
		if f, isF := s.Call.Value.(*ssa.Function); !isF || f != h || k >= len(s.Call.Args) {
			continue
		}
		saved := p.ctx
		p.ctx = p.ctx[:i]
		f := p.funcValueOf(s.Call.Args[k])
		p.ctx = saved
		return f
	}
	var all *ssa.Function
	for _, s := range p.helperSites(h) {
		if k >= len(s.Call.Args) {
			return nil
		}
		saved := p.ctx
		p.ctx = nil
		f := p.funcValueOf(s.Call.Args[k])
		p.ctx = saved
		if f == nil || (all != nil && all != f) {
			return nil
		}
		all = f
	}
	return all
}

// valueEntry: function value C is passed at helper site `site` and called at
// `call` inside that helper.
type valueEntry struct {
	call ssa.Instruction
	site *ssa.Call
}

// valueEntries lists where closure/function c is entered through a helper's
// function-typed parameter.
func (p *Prog) valueEntries(c *ssa.Function) []valueEntry {
	if p.valueSites == nil {
		p.valueSites = map[*ssa.Function][]valueEntry{}
		for _, g := range p.AllFuncs {
			for _, b := range g.Blocks {
				for _, in := range b.Instrs {
					h := p.helperCallee(in)
					if h == nil || h.Parent() != nil {
						continue
					}
					s := in.(*ssa.Call)
					if _, isF := s.Call.Value.(*ssa.Function); !isF {
						continue
					}
					for k, arg := range s.Call.Args {
						if k >= len(h.Params) {
							break
						}
						if _, isSig := h.Params[k].Type().Underlying().(*types.Signature); !isSig {
							continue
						}
						saved := p.ctx
						p.ctx = nil
						f := p.funcValueOf(arg)
						p.ctx = saved
						if f == nil || !p.inlinableValueTarget(f) {
							continue
						}
						for _, r := range *h.Params[k].Referrers() {
							if d, isCall := r.(*ssa.Call); isCall && d.Call.Value == ssa.Value(h.Params[k]) {
								p.valueSites[f] = append(p.valueSites[f], valueEntry{d, s})
							}
						}
					}
				}
			}
		}
	}
	return p.valueSites[c]
}

// helperSites lists the plain static call sites of helper h.
func (p *Prog) helperSites(h *ssa.Function) []*ssa.Call {
	if p.sitesOf == nil {
		p.sitesOf = map[*ssa.Function][]*ssa.Call{}
		for _, g := range p.AllFuncs {
			for _, b := range g.Blocks {
				for _, in := range b.Instrs {
					if t := p.helperCallee(in); t != nil {
						p.sitesOf[t] = append(p.sitesOf[t], in.(*ssa.Call))
					}
				}
			}
		}
	}
	return p.sitesOf[h]
}

// absorbed: the helper is seen only through its callers (it has plain call
// sites and is not used as a value, go target or deferred call).
func (p *Prog) absorbed(h *ssa.Function) bool {
	if !p.inlinableHelper(h) || len(p.helperSites(h)) == 0 {
		return false
	}
	if p.usedAsValue == nil {
		p.usedAsValue = map[*ssa.Function]bool{}
		for _, g := range p.AllFuncs {
			for _, b := range g.Blocks {
				for _, in := range b.Instrs {
					var ops []*ssa.Value
					for _, op := range in.Operands(ops) {
						f, ok := (*op).(*ssa.Function)
						if !ok {
							continue
						}
						if o := f.Origin(); o != nil {
							f = o
						}
						if c, isCall := in.(*ssa.Call); isCall && c.Call.Value == *op {
							continue // plain call
						}
						p.usedAsValue[f] = true
					}
				}
			}
		}
	}
	return !p.usedAsValue[h]
}

// origin resolves a helper parameter to the argument at the helper's call
// site when that is unique (transitively).
func (p *Prog) origin(v ssa.Value) ssa.Value {
	for i := 0; i < maxHelperDepth+1; i++ {
		pr, ok := v.(*ssa.Parameter)
		if !ok || p == nil {
			return v
		}
		h := pr.Parent()
		if !p.inlinableHelper(h) {
			return v
		}
		sites := p.helperSites(h)
		if len(sites) == 0 {
			return v
		}
		k := -1
		for j, q := range h.Params {
			if q == pr {
				k = j
			}
		}
		if k < 0 || k >= len(sites[0].Call.Args) {
			return v
		}
		// inside a running enumeration the site the helper was entered from
		// is known: the argument there is the origin
		if site := p.ctxSiteOf(h); site != nil && k < len(site.Call.Args) {
			v = site.Call.Args[k]
			continue
		}
		// all sites must agree on the origin (same value, or same field load)
		cand := sites[0].Call.Args[k]
		for _, s := range sites[1:] {
			if !sameOrigin(cand, s.Call.Args[k]) {
				return v
			}
		}
		v = cand
	}
	return v
}

// ctxSiteOf: the innermost call of h on the virtual call stack, or nil.
func (p *Prog) ctxSiteOf(h *ssa.Function) *ssa.Call {
	for i := len(p.ctx) - 1; i >= 0; i-- {
		if cl, ok := p.ctx[i].(*ssa.Call); ok && cl.Call.StaticCallee() == h {
			return cl
		}
	}
	return nil
}

func sameOrigin(a, b ssa.Value) bool {
	if a == b {
		return true
	}
	la, ok1 := a.(*ssa.UnOp)
	lb, ok2 := b.(*ssa.UnOp)
	if ok1 && ok2 {
		fa, ok3 := la.X.(*ssa.FieldAddr)
		fb, ok4 := lb.X.(*ssa.FieldAddr)
		if ok3 && ok4 {
			return fa.Field == fb.Field && fa.X.Type() == fb.X.Type()
		}
	}
	return false
}

// deepInstrs enumerates the instructions of fn and of the helpers it calls
// (each helper once per enumeration).
func deepInstrs(fn *ssa.Function, f func(ssa.Instruction)) {
	seen := map[*ssa.Function]bool{fn: true}
	seenSite := map[string]bool{}
	saved := curProg.ctx
	curProg.ctx = nil
	defer func() { curProg.ctx = saved }()
	var visit func(g *ssa.Function, depth int)
	visit = func(g *ssa.Function, depth int) {
		for _, b := range g.Blocks {
			for _, in := range b.Instrs {
				f(in)
				if depth < maxHelperDepth {
					h := curProg.helperCallee(in)
					if h == nil || h == fn {
						continue
					}
					// a helper is enumerated once; one that calls a function it
					// was given, and a function entered that way, once per site
					// (what it calls depends on the site)
					perSite := hasFuncParam(h)
					if _, viaParam := in.(*ssa.Call).Call.Value.(*ssa.Parameter); viaParam {
						perSite = true
					}
					if perSite {
						key := fmt.Sprintf("%p", in)
						for _, c := range curProg.ctx {
							key += fmt.Sprintf("/%p", c)
						}
						if seenSite[key] {
							continue
						}
						seenSite[key] = true
						rec := false
						for _, c := range curProg.ctx {
							if c == in {
								rec = true
							}
						}
						if rec {
							continue
						}
					} else {
						if seen[h] {
							continue
						}
						seen[h] = true
					}
					curProg.ctx = append(curProg.ctx, in)
					visit(h, depth+1)
					curProg.ctx = curProg.ctx[:len(curProg.ctx)-1]
				}
			}
		}
	}
	visit(fn, 0)
}

func hasFuncParam(h *ssa.Function) bool {
	for _, q := range h.Params {
		if _, isSig := q.Type().Underlying().(*types.Signature); isSig {
			return true
		}
	}
	return false
}

// liftChain is one way an instruction is reached from an enclosing function:
// sites[0] is the instruction itself, sites[k] the call (in function fns[k])
// through which sites[k-1]'s function was entered.
type liftChain struct {
	sites []ssa.Instruction
}

func (lc liftChain) fn(k int) *ssa.Function { return lc.sites[k].Parent() }

// chains returns the lift chains of in (bounded depth, all call sites).
func (p *Prog) chains(in ssa.Instruction) []liftChain {
	var out []liftChain
	var rec func(cur []ssa.Instruction, depth int)
	rec = func(cur []ssa.Instruction, depth int) {
		out = append(out, liftChain{append([]ssa.Instruction{}, cur...)})
		g := cur[len(cur)-1].Parent()
		if depth >= maxHelperDepth || p == nil {
			return
		}
		// a function entered through a helper's parameter: the call inside
		// the helper, then exactly the helper site that passed it
		for _, ve := range p.valueEntries(g) {
			dup := false
			for _, x := range cur {
				if x.Parent() == ve.call.Parent() || x.Parent() == ve.site.Parent() {
					dup = true
				}
			}
			if dup || depth+2 > maxHelperDepth {
				continue
			}
			out = append(out, liftChain{append(append([]ssa.Instruction{}, cur...), ve.call)})
			rec(append(append([]ssa.Instruction{}, cur...), ve.call, ve.site), depth+2)
		}
		if !p.inlinableHelper(g) {
			return
		}
		for _, s := range p.helperSites(g) {
			dup := false
			for _, x := range cur {
				if x.Parent() == s.Parent() {
					dup = true
				}
			}
			if dup {
				continue
			}
			rec(append(cur, s), depth+1)
		}
	}
	rec([]ssa.Instruction{in}, 0)
	// keep maximal chains and every prefix (a prefix is a valid view when the
	// other instruction lives in that function)
	return out
}

// mustThrough: every instruction sites[0..k-1] is executed whenever its
// function returns normally (so the call sites[k] implies all of them).
func (lc liftChain) mustThrough(k int) bool {
	for i := 0; i < k; i++ {
		in := lc.sites[i]
		if !newPostDom(in.Parent()).onEveryReturnPathLocal(in) {
			return false
		}
	}
	return true
}

// liftPairs enumerates, for a and b in different functions, the pairs
// (a', b') of their representatives in a common function, with the level of
// each in its chain.
type liftPair struct {
	ca, cb liftChain
	ia, ib int
}

func (p *Prog) liftPairs(a, b ssa.Instruction) []liftPair {
	var out []liftPair
	for _, ca := range p.chains(a) {
		for _, cb := range p.chains(b) {
			ia, ib := len(ca.sites)-1, len(cb.sites)-1
			if ca.fn(ia) != cb.fn(ib) {
				continue
			}
			// lowest common level: walk down while both chains go through the
			// same call site
			for ia > 0 && ib > 0 && ca.sites[ia] == cb.sites[ib] {
				ia--
				ib--
			}
			if ca.fn(ia) != cb.fn(ib) {
				continue
			}
			out = append(out, liftPair{ca, cb, ia, ib})
		}
	}
	return out
}

// deepFuncs returns fn and the helpers it (transitively) calls.
func deepFuncs(fn *ssa.Function) []*ssa.Function {
	out := []*ssa.Function{fn}
	seen := map[*ssa.Function]bool{fn: true}
	deepInstrs(fn, func(in ssa.Instruction) {
		if g := in.Parent(); !seen[g] {
			seen[g] = true
			out = append(out, g)
		}
	})
	return out
}
