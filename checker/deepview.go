package main

// Virtual inlining for the structural engines (O, G, B).
//
// A top-level function that is not in knownFuncs is a helper added after the
// rules were written. Wherever the rules look at "the instructions of f",
// "does a dominate b", "is there a path from a to b", such a helper is
// treated as if its body stood at its call sites: instruction enumeration
// descends into it, dominance / post-dominance / path search lift an
// instruction of the helper to the call instruction in the enclosing
// function (requiring, where the helper's instruction must have been
// executed, that it lies on every path to the helper's normal return), and a
// parameter of the helper resolves to the argument at its call site.
// Engine V does the same on the value side (inlineMulti), with the same
// static eligibility test.

import (
	"golang.org/x/tools/go/ssa"
)

// curProg is the program being checked (the CFG utilities are free functions).
var curProg *Prog

const maxHelperDepth = 3

// inlinableHelper: static eligibility of callee for virtual inlining.
func (p *Prog) inlinableHelper(callee *ssa.Function) bool {
	if p == nil || callee == nil || callee.Parent() != nil || len(callee.Blocks) == 0 || len(callee.Blocks) > 60 {
		return false
	}
	if v, ok := p.helperOK[callee]; ok {
		return v
	}
	ok := p.IsLocal(callee) && !knownFuncs[p.Name(callee)] && callee.Synthetic == ""
	if ok {
		for _, b := range callee.Blocks {
			for _, in := range b.Instrs {
				switch in.(type) {
				case *ssa.Go, *ssa.Defer, *ssa.RunDefers:
					ok = false
				}
			}
		}
	}
	if p.helperOK == nil {
		p.helperOK = map[*ssa.Function]bool{}
	}
	p.helperOK[callee] = ok
	return ok
}

// helperCallee returns the helper a plain call instruction invokes, or nil.
func (p *Prog) helperCallee(in ssa.Instruction) *ssa.Function {
	c, ok := in.(*ssa.Call)
	if !ok || p == nil {
		return nil
	}
	h := p.staticLocalCallee(c)
	if h == nil || !p.inlinableHelper(h) {
		return nil
	}
	return h
}

// helperSites lists the plain static call sites of helper h.
func (p *Prog) helperSites(h *ssa.Function) []*ssa.Call {
	if p.sitesOf == nil {
		p.sitesOf = map[*ssa.Function][]*ssa.Call{}
		for _, g := range p.AllFuncs {
			for _, b := range g.Blocks {
				for _, in := range b.Instrs {
					if t := p.helperCallee(in); t != nil {
						p.sitesOf[t] = append(p.sitesOf[t], in.(*ssa.Call))
					}
				}
			}
		}
	}
	return p.sitesOf[h]
}

// absorbed: the helper is seen only through its callers (it has plain call
// sites and is not used as a value, go target or deferred call).
func (p *Prog) absorbed(h *ssa.Function) bool {
	if !p.inlinableHelper(h) || len(p.helperSites(h)) == 0 {
		return false
	}
	if p.usedAsValue == nil {
		p.usedAsValue = map[*ssa.Function]bool{}
		for _, g := range p.AllFuncs {
			for _, b := range g.Blocks {
				for _, in := range b.Instrs {
					var ops []*ssa.Value
					for _, op := range in.Operands(ops) {
						f, ok := (*op).(*ssa.Function)
						if !ok {
							continue
						}
						if o := f.Origin(); o != nil {
							f = o
						}
						if c, isCall := in.(*ssa.Call); isCall && c.Call.Value == *op {
							continue // plain call
						}
						p.usedAsValue[f] = true
					}
				}
			}
		}
	}
	return !p.usedAsValue[h]
}

// origin resolves a helper parameter to the argument at the helper's call
// site when that is unique (transitively).
func (p *Prog) origin(v ssa.Value) ssa.Value {
	for i := 0; i < maxHelperDepth+1; i++ {
		pr, ok := v.(*ssa.Parameter)
		if !ok || p == nil {
			return v
		}
		h := pr.Parent()
		if !p.inlinableHelper(h) {
			return v
		}
		sites := p.helperSites(h)
		if len(sites) == 0 {
			return v
		}
		k := -1
		for j, q := range h.Params {
			if q == pr {
				k = j
			}
		}
		if k < 0 || k >= len(sites[0].Call.Args) {
			return v
		}
		// all sites must agree on the origin (same value, or same field load)
		cand := sites[0].Call.Args[k]
		for _, s := range sites[1:] {
			if !sameOrigin(cand, s.Call.Args[k]) {
				return v
			}
		}
		v = cand
	}
	return v
}

func sameOrigin(a, b ssa.Value) bool {
	if a == b {
		return true
	}
	la, ok1 := a.(*ssa.UnOp)
	lb, ok2 := b.(*ssa.UnOp)
	if ok1 && ok2 {
		fa, ok3 := la.X.(*ssa.FieldAddr)
		fb, ok4 := lb.X.(*ssa.FieldAddr)
		if ok3 && ok4 {
			return fa.Field == fb.Field && fa.X.Type() == fb.X.Type()
		}
	}
	return false
}

// deepInstrs enumerates the instructions of fn and of the helpers it calls
// (each helper once per enumeration).
func deepInstrs(fn *ssa.Function, f func(ssa.Instruction)) {
	seen := map[*ssa.Function]bool{fn: true}
	var visit func(g *ssa.Function, depth int)
	visit = func(g *ssa.Function, depth int) {
		for _, b := range g.Blocks {
			for _, in := range b.Instrs {
				f(in)
				if depth < maxHelperDepth {
					if h := curProg.helperCallee(in); h != nil && !seen[h] {
						seen[h] = true
						visit(h, depth+1)
					}
				}
			}
		}
	}
	visit(fn, 0)
}

// liftChain is one way an instruction is reached from an enclosing function:
// sites[0] is the instruction itself, sites[k] the call (in function fns[k])
// through which sites[k-1]'s function was entered.
type liftChain struct {
	sites []ssa.Instruction
}

func (lc liftChain) fn(k int) *ssa.Function { return lc.sites[k].Parent() }

// chains returns the lift chains of in (bounded depth, all call sites).
func (p *Prog) chains(in ssa.Instruction) []liftChain {
	var out []liftChain
	var rec func(cur []ssa.Instruction, depth int)
	rec = func(cur []ssa.Instruction, depth int) {
		out = append(out, liftChain{append([]ssa.Instruction{}, cur...)})
		g := cur[len(cur)-1].Parent()
		if depth >= maxHelperDepth || p == nil || !p.inlinableHelper(g) {
			return
		}
		for _, s := range p.helperSites(g) {
			dup := false
			for _, x := range cur {
				if x.Parent() == s.Parent() {
					dup = true
				}
			}
			if dup {
				continue
			}
			rec(append(cur, s), depth+1)
		}
	}
	rec([]ssa.Instruction{in}, 0)
	// keep maximal chains and every prefix (a prefix is a valid view when the
	// other instruction lives in that function)
	return out
}

// mustThrough: every instruction sites[0..k-1] is executed whenever its
// function returns normally (so the call sites[k] implies all of them).
func (lc liftChain) mustThrough(k int) bool {
	for i := 0; i < k; i++ {
		in := lc.sites[i]
		if !newPostDom(in.Parent()).onEveryReturnPathLocal(in) {
			return false
		}
	}
	return true
}

// liftPairs enumerates, for a and b in different functions, the pairs
// (a', b') of their representatives in a common function, with the level of
// each in its chain.
type liftPair struct {
	ca, cb liftChain
	ia, ib int
}

func (p *Prog) liftPairs(a, b ssa.Instruction) []liftPair {
	var out []liftPair
	for _, ca := range p.chains(a) {
		for _, cb := range p.chains(b) {
			ia, ib := len(ca.sites)-1, len(cb.sites)-1
			if ca.fn(ia) != cb.fn(ib) {
				continue
			}
			// lowest common level: walk down while both chains go through the
			// same call site
			for ia > 0 && ib > 0 && ca.sites[ia] == cb.sites[ib] {
				ia--
				ib--
			}
			if ca.fn(ia) != cb.fn(ib) {
				continue
			}
			out = append(out, liftPair{ca, cb, ia, ib})
		}
	}
	return out
}

// deepFuncs returns fn and the helpers it (transitively) calls.
func deepFuncs(fn *ssa.Function) []*ssa.Function {
	out := []*ssa.Function{fn}
	seen := map[*ssa.Function]bool{fn: true}
	deepInstrs(fn, func(in ssa.Instruction) {
		if g := in.Parent(); !seen[g] {
			seen[g] = true
			out = append(out, g)
		}
	})
	return out
}
