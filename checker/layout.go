package main

// Byte-layout normal form of an encoded buffer (engine T for the encoders).
//
// An encoder can build its result by appending to a fixed prefix, by
// appending single octets, or by allocating the whole buffer and filling it
// with indexed stores, PutUintNN and copy. layoutOf reduces the result term
// and the memory of the abstract state to one sequence of segments
//   byte(v) | be16(v) | be32(v) | bytes(slice term) | gap(n)
// in wire order, so that the layout rules compare *what is on the wire*
// whichever construction strategy the code uses.

import (
	"fmt"
	"go/types"
	"sort"
	"strings"
)

type seg struct {
	Kind string // "byte", "be16", "be32", "be64", "bytes", "gap"
	Val  *Expr
	N    int64 // octets (fixed kinds and gap); -1 for bytes
}

func (g seg) String() string {
	switch g.Kind {
	case "gap":
		return fmt.Sprintf("gap(%d)", g.N)
	case "bytes":
		return "bytes(" + trunc(g.Val.Key, 40) + ")"
	}
	return g.Kind + "(" + trunc(g.Val.Key, 40) + ")"
}

func layoutString(l []seg) string {
	var parts []string
	for _, g := range l {
		parts = append(parts, g.String())
	}
	return strings.Join(parts, " ++ ")
}

// layoutOf returns the segments of buffer term e in state s, or an error
// description when the construction is not understood.
func (s *State) layoutOf(e *Expr, depth int) ([]seg, string) {
	if e == nil || depth > 6 {
		return nil, "no term"
	}
	var out []seg
	switch e.Op {
	case "append":
		l1, err := s.layoutOf(e.Args[0], depth+1)
		if err != "" {
			return nil, err
		}
		l2, err := s.layoutOf(e.Args[1], depth+1)
		if err != "" {
			return nil, err
		}
		out = append(append(out, l1...), l2...)
	case "append1":
		l1, err := s.layoutOf(e.Args[0], depth+1)
		if err != "" {
			return nil, err
		}
		out = append(out, l1...)
		for _, v := range e.Args[1:] {
			out = append(out, seg{"byte", v, 1})
		}
	case "call", "rcall":
		// binary.BigEndian.AppendUintNN(b, v) == append(b, big-endian octets of v)
		if w, ok := map[string]string{"binary.bigEndian.AppendUint16": "be16", "binary.bigEndian.AppendUint32": "be32", "binary.bigEndian.AppendUint64": "be64"}[e.S]; ok && len(e.Args) >= 2 {
			l1, err := s.layoutOf(e.Args[len(e.Args)-2], depth+1)
			if err != "" {
				return nil, err
			}
			out = append(out, l1...)
			out = append(out, seg{w, e.Args[len(e.Args)-1], map[string]int64{"be16": 2, "be32": 4, "be64": 8}[w]})
			break
		}
		out = []seg{{"bytes", e, -1}}
	default:
		root, lo, hi := sliceParts(e)
		if (root.Op == "arr" || root.Op == "makeslice") && s.isZeroOrNil(lo) {
			l, err := s.bufferSegments(root, hi)
			if err != "" {
				return nil, err
			}
			out = l
		} else {
			out = []seg{{"bytes", e, -1}}
		}
	}
	// normal form: octet pairs byte(x>>8), byte(x) of a 16-bit x are be16(x)
	out = mergeOctetPairs(out)
	// no empty byte strings, adjacent gaps merged
	var norm []seg
	for _, g := range out {
		if g.Kind == "bytes" {
			if v, ok := s.rangeOf(mkLen(g.Val)).IsConst(); ok && v == 0 {
				continue
			}
		}
		if g.Kind == "gap" && g.N == 0 {
			continue
		}
		if g.Kind == "gap" && len(norm) > 0 && norm[len(norm)-1].Kind == "gap" {
			norm[len(norm)-1].N += g.N
			continue
		}
		norm = append(norm, g)
	}
	return norm, ""
}

func (s *State) isZeroOrNil(e *Expr) bool {
	if e == nil {
		return true
	}
	c, ok := e.IsConst()
	return ok && c == 0
}

// bufferSegments reads the stores into a buffer allocated in the analysed
// function: constant-index octets, PutUintNN at constant offsets and one
// trailing copy.
func (s *State) bufferSegments(root, hi *Expr) ([]seg, string) {
	type ent struct {
		off  int64
		size int64 // -1: symbolic (copy)
		g    seg
	}
	var ents []ent
	for k, v := range s.mem {
		me := s.memE[k]
		if me == nil || len(me.Args) < 2 || me.Args[0].Key != root.Key {
			continue
		}
		off, isC := me.Args[1].IsConst()
		if !isC {
			continue // stores at computed indices (loops) show up as gaps
		}
		switch me.Op {
		case "ia":
			ents = append(ents, ent{off, 1, seg{"byte", v, 1}})
		case "bea":
			w := map[string]int64{"be16": 2, "be32": 4, "be64": 8}[me.S]
			ents = append(ents, ent{off, w, seg{me.S, v, w}})
		case "cpa":
			ents = append(ents, ent{off, -1, seg{"bytes", v, -1}})
		}
	}
	sort.Slice(ents, func(i, j int) bool { return ents[i].off < ents[j].off })
	var out []seg
	cur := int64(0)
	var total Lin
	switch {
	case hi != nil:
		total = s.linOf(hi)
	case root.Op == "arr":
		total = linConst(root.C)
	default:
		total = s.linOf(root.Args[0])
	}
	for i, en := range ents {
		if en.off < cur {
			var all []string
			for _, x := range ents {
				all = append(all, fmt.Sprintf("%d:%s", x.off, x.g))
			}
			return nil, fmt.Sprintf("overlapping stores at offset %d (%s)", en.off, strings.Join(all, " "))
		}
		if en.off > cur {
			out = append(out, seg{"gap", nil, en.off - cur})
		}
		out = append(out, en.g)
		if en.size < 0 {
			if i != len(ents)-1 {
				return nil, "a copy is followed by stores at higher offsets"
			}
			// the copy must end exactly at the end of the buffer
			end := linConst(en.off).add(s.linOf(mkLen(en.g.Val)), 1)
			if d, ok := total.add(end, -1).isConst(); !ok || d != 0 {
				return nil, "buffer length is not prefix + len(copied bytes): " + total.add(end, -1).key()
			}
			return out, ""
		}
		cur = en.off + en.size
	}
	if t, ok := total.isConst(); ok {
		if t < cur {
			return nil, "stores beyond the buffer"
		}
		if t > cur {
			out = append(out, seg{"gap", nil, t - cur})
		}
		return out, ""
	}
	// symbolic total without a trailing copy: the tail is unknown
	d := total.add(linConst(cur), -1)
	if dv, ok := d.isConst(); ok && dv == 0 {
		return out, ""
	}
	return nil, "buffer of computed length whose tail is not filled by a copy"
}

// segPat is one expected segment.
type segPat struct {
	Kind string
	N    int64 // for gaps
	Pred func(v *Expr) bool
	What string
}

// matchLayout compares a layout with the expected pattern.
func matchLayout(l []seg, pats []segPat) (bool, string) {
	if len(l) != len(pats) {
		return false, fmt.Sprintf("expected %d segments, layout is %s", len(pats), layoutString(l))
	}
	for i, pt := range pats {
		g := l[i]
		if g.Kind != pt.Kind || (pt.Kind == "gap" && g.N != pt.N) || (pt.Pred != nil && !pt.Pred(g.Val)) {
			return false, fmt.Sprintf("segment %d must be %s; layout is %s", i, pt.What, layoutString(l))
		}
	}
	return true, ""
}

// octetOf decomposes an 8-bit term as "bits [shift, shift+8) of x": any chain
// of conversions down to 8 bits, an optional right shift by a constant, and
// below it only conversions that keep those bits (no narrowing under
// shift+8 bits on either side).
func octetOf(e *Expr) (x *Expr, shift int64, ok bool) {
	if e == nil {
		return nil, 0, false
	}
	for e.Op == "conv" {
		e = e.Args[0]
	}
	if e.Op == "bin" && e.binOp() == ">>" {
		c, isC := e.Args[1].IsConst()
		if !isC || c < 0 {
			return nil, 0, false
		}
		shift = c
		e = e.Args[0]
	} else if e.Op == "bin" && e.binOp() == "/" && e.Args[0].Op == "len" {
		// a length shifted right is kept as its quotient by a power of two
		if c, isC := e.Args[1].IsConst(); isC && c > 1 && c&(c-1) == 0 {
			for c > 1 {
				c >>= 1
				shift++
			}
			e = e.Args[0]
		}
	}
	keeps := func(t types.Type) bool {
		ti := intTypeInfo(t)
		return ti.ok && int64(ti.bits) >= shift+8
	}
	if !keeps(e.Typ) {
		return nil, 0, false
	}
	for e.Op == "conv" && keeps(e.Args[0].Typ) {
		e = e.Args[0]
	}
	return e, shift, true
}

// beOctets recognises n consecutive octet terms as the big-endian encoding of
// one n*8-bit value.
func beOctets(vals []*Expr) (*Expr, bool) {
	n := int64(len(vals))
	var x *Expr
	for k, v := range vals {
		y, sh, ok := octetOf(v)
		if !ok || sh != 8*(n-1-int64(k)) {
			return nil, false
		}
		if x == nil {
			x = y
		} else if x.Key != y.Key {
			return nil, false
		}
	}
	if x == nil || !intTypeInfo(x.Typ).ok || int64(intTypeInfo(x.Typ).bits) < 8*n {
		return nil, false
	}
	if int64(intTypeInfo(x.Typ).bits) > 8*n {
		// the low n octets of a wider value: the encoding of its truncation
		var to types.Type
		switch n {
		case 2:
			to = types.Typ[types.Uint16]
		case 4:
			to = types.Typ[types.Uint32]
		default:
			return nil, false
		}
		return mkConv(to, x), true
	}
	return x, true
}

// mergeOctetPairs rewrites byte(uint8(x>>8)) ++ byte(uint8(x)) as be16(x)
// (and the four-octet analogue as be32(x)).
func mergeOctetPairs(in []seg) []seg {
	var out []seg
	for i := 0; i < len(in); i++ {
		merged := false
		for _, n := range []int{4, 2} {
			if i+n > len(in) {
				continue
			}
			var vals []*Expr
			for _, g := range in[i : i+n] {
				if g.Kind != "byte" {
					vals = nil
					break
				}
				vals = append(vals, g.Val)
			}
			if len(vals) != n {
				continue
			}
			if x, ok := beOctets(vals); ok {
				out = append(out, seg{map[int]string{2: "be16", 4: "be32"}[n], x, int64(n)})
				i += n - 1
				merged = true
				break
			}
		}
		if !merged {
			out = append(out, in[i])
		}
	}
	return out
}
